"""Straight-line code-generation templates and their abstract execution.

Parser routines such as LoopParser._calc_incr emit a fixed instruction
sequence through CodeGen helper calls (`subtract`, `test_op`, `if_true_start`,
`if_else`, `if_end`, `add_list` ...). `segments(A, f)` turns every maximal run
of top-level code-generator statements of f into a *template*: a list of

    ('op', opcode member, [operand values])     one VM instruction
    ('if', marker) ('else', marker) ('end', marker)     emitted if / else
    ('mark', marker) ('back', marker)           loop back-edge helpers

with the CodeGen helpers expanded from their own source (so a change in
CodeGen.binop is seen by the rules on its callers). `execute(template)` runs
the template on an abstract evaluation stack of symbolic values:

    ('const', v) | ('loc', key, version) | ('op', operator, a, b) | ('phi', ..)

and reports, per template, the stack depth at every join, underflows, and for
every emitted division the divisor together with the path condition (the
values tested by the enclosing emitted ifs) under which it executes.
Nothing is run; the VM's stack discipline (PUSH/PUSHQ +1, OP -1 for binary
operators, POP -1) is read from Machine / VmMath by rule R01.a-c elsewhere.
"""
import ast

from . import const as K
from .index import norm

CODEGEN = 'bardolph.parser.code_gen'
STRUCT = {'CodeGen.if_true_start': 'if', 'CodeGen.if_else': 'else',
          'CodeGen.if_end': 'end', 'CodeGen.mark': 'mark',
          'CodeGen.jump_back': 'back'}
UNARY = {'NOT', 'UMINUS', 'USUB', 'UADD', 'UPLUS'}
MAX_DEPTH = 6


class Opaque(Exception):
    pass


def _value(A, f, e, env):
    if isinstance(e, ast.Name) and e.id in env:
        return env[e.id]
    v = A.try_fold(e, f)
    if isinstance(v, K.Unfoldable) or v is None and not (
            isinstance(e, ast.Constant) and e.value is None):
        return ('expr', norm(e))
    return v


def _codegen_call(A, f, call):
    names = A.callee_names(f, call)
    return [n for n in names if n.startswith('CodeGen.')]


def _emit_tuple(A, f, elts, env, out):
    op = _value(A, f, elts[0], env)
    params = [_value(A, f, x, env) for x in elts[1:]]
    if isinstance(op, K.EnumVal) and op.enum == 'OpCode':
        out.append(('op', op.member, params))
    elif op == ('pushop',):
        out.append(('op', 'PUSH', params))
    else:
        raise Opaque('computed op-code %r' % (op,))


def _expand(A, callee, args, out, depth):
    """interpret one CodeGen helper with the given argument values"""
    if depth > MAX_DEPTH:
        raise Opaque('helper nesting')
    node = callee.node
    params = [a.arg for a in node.args.args]
    if params and params[0] == 'self':
        params = params[1:]
    defaults = node.args.defaults
    env = {}
    for i, p in enumerate(params):
        if i < len(args):
            env[p] = args[i]
        else:
            d = defaults[i - (len(params) - len(defaults))] \
                if i >= len(params) - len(defaults) else None
            if d is None:
                raise Opaque('missing argument %s of %s' % (p, callee.short))
            env[p] = _value(A, callee, d, {})
    _run_body(A, callee, node.body, env, out, depth)


def _run_body(A, f, stmts, env, out, depth, structural=None):
    for s in stmts:
        if isinstance(s, ast.Expr) and isinstance(s.value, ast.Constant):
            continue
        if isinstance(s, ast.Return) and (s.value is None or isinstance(
                s.value, ast.Constant)):
            break
        target = None
        call = None
        if isinstance(s, ast.Expr) and isinstance(s.value, ast.Call):
            call = s.value
        elif isinstance(s, ast.Assign) and len(s.targets) == 1 and \
                isinstance(s.targets[0], ast.Name) and isinstance(s.value, ast.Call):
            target, call = s.targets[0].id, s.value
        if call is None:
            raise Opaque(norm(s)[:50])
        _one_call(A, f, call, target, env, out, depth)


def _one_call(A, f, call, target, env, out, depth):
    names = _codegen_call(A, f, call)
    if len(names) != 1:
        raise Opaque('not a code-generator call: %s' % norm(call)[:50])
    name = names[0]
    if call.keywords or any(isinstance(a, ast.Starred) for a in call.args):
        raise Opaque('keyword / starred arguments')
    if name == 'CodeGen._push_op':
        if target is None:
            raise Opaque('_push_op result unused')
        env[target] = ('pushop',)
        return
    if name in STRUCT:
        kind = STRUCT[name]
        m = target if kind in ('if', 'mark') else (
            env.get(call.args[0].id, call.args[0].id)
            if call.args and isinstance(call.args[0], ast.Name) else None)
        if m is None:
            raise Opaque('marker of %s' % name)
        if kind in ('if', 'mark'):
            env[target] = ('marker', target, id(call))
            m = env[target]
        out.append((kind, m))
        return
    if target is not None:
        raise Opaque('result of %s is kept' % name)
    if name == 'CodeGen.add_instruction':
        _emit_tuple(A, f, call.args, env, out)
        return
    if name == 'CodeGen.add_list':
        for a in call.args:
            if isinstance(a, ast.Tuple) and a.elts:
                _emit_tuple(A, f, a.elts, env, out)
            else:
                _emit_tuple(A, f, [a], env, out)
        return
    if name == 'CodeGen.push':
        out.append(('op', 'PUSH', [_value(A, f, call.args[0], env)]))
        return
    callee = [t for t in A.callees(f, call) if t.short == name]
    if not callee:
        raise Opaque(name)
    args = [_value(A, f, a, env) for a in call.args]
    _expand(A, callee[0], args, out, depth + 1)


def _is_codegen_stmt(A, f, s):
    if isinstance(s, ast.Expr) and isinstance(s.value, ast.Call):
        return bool(_codegen_call(A, f, s.value))
    if isinstance(s, ast.Assign) and isinstance(s.value, ast.Call) \
            and len(s.targets) == 1 and isinstance(s.targets[0], ast.Name):
        return bool(_codegen_call(A, f, s.value))
    return False


def segments(A, f):
    """[(first statement, template | Opaque)] for every maximal run of
    top-level code-generator statements of f (at least 3 statements)."""
    out = []
    run = []
    body = list(f.node.body) + [None]
    for s in body:
        if s is not None and _is_codegen_stmt(A, f, s):
            run.append(s)
            continue
        if len(run) >= 3:
            tmpl = []
            try:
                _run_body(A, f, run, {}, tmpl, 0)
                out.append((run[0], tmpl))
            except Opaque as e:
                out.append((run[0], e))
        run = []
    return out


# ------------------------------------------------------------- execution
def _key(v):
    if isinstance(v, K.EnumVal):
        return '%s.%s' % (v.enum, v.member)
    if isinstance(v, tuple) and v and v[0] == 'expr':
        return v[1]
    return None


class Result:
    def __init__(self):
        self.problems = []       # (kind, text)
        self.divisions = []      # (dividend, divisor, [(cond, truth)])
        self.pushes = []         # (value, [(cond, truth)])
        self.net = 0
        self.ifs = 0


def execute(tmpl, neutral=()):
    res = Result()
    stack = []
    base = [0]                   # how far below the entry depth we went
    ver = {}
    result = [('unknown',)]
    frames = []

    def read(v):
        k = _key(v)
        if k is None or (isinstance(v, K.EnumVal) and v.enum not in (
                'LoopVar', 'Register')):
            return ('const', v)
        return ('loc', k, ver.get(k, 0))

    def write(dest, value):
        k = _key(dest)
        if k is None:
            return
        ver[k] = ver.get(k, 0) + 1
        for fr in frames:
            fr['written'].add(k)
        if k == 'Register.RESULT':
            result[0] = value

    def pop():
        if stack:
            return stack.pop()
        base[0] += 1
        return ('entry', base[0])

    for item in tmpl:
        kind = item[0]
        if kind == 'op':
            _k, op, params = item
            if op in ('PUSH', 'PUSHQ'):
                stack.append(read(params[0]) if op == 'PUSH' and params
                             else ('const', params[0] if params else None))
                res.pushes.append((stack[-1], [(fr['cond'], fr['arm'])
                                               for fr in frames]))
            elif op == 'POP':
                write(params[0], pop())
            elif op == 'OP':
                o = params[0]
                member = o.member if isinstance(o, K.EnumVal) else str(o)
                if member in UNARY:
                    stack.append(('op', member, pop()))
                else:
                    b = pop()
                    a = pop()
                    if member in ('DIV', 'MOD'):
                        res.divisions.append(
                            (a, b, [(fr['cond'], fr['arm']) for fr in frames]))
                    stack.append(('op', member, a, b))
            elif op == 'MOVEQ':
                write(params[1], ('const', params[0]))
            elif op == 'MOVE':
                write(params[1], read(params[0]))
            elif op in neutral:
                pass
            else:
                res.problems.append(('opaque', 'op-code %s' % op))
                return res
        elif kind == 'if':
            frames.append({'m': item[1], 'cond': result[0], 'arm': True,
                           'start': list(stack), 'base': base[0],
                           'written': set(), 'true_end': None})
            res.ifs += 1
        elif kind == 'else':
            fr = frames[-1] if frames else None
            if fr is None or fr['m'] != item[1] or fr['arm'] is not True:
                res.problems.append(('structure', 'if_else without its if'))
                return res
            fr['true_end'] = (list(stack), base[0])
            stack[:] = list(fr['start'])
            fr['arm'] = False
        elif kind == 'end':
            fr = frames.pop() if frames else None
            if fr is None or fr['m'] != item[1]:
                res.problems.append(('structure', 'if_end without its if'))
                return res
            if fr['true_end'] is None:
                other, other_base = list(fr['start']), fr['base']
            else:
                other, other_base = fr['true_end']
            d_here = len(stack) - base[0]
            d_other = len(other) - other_base
            if d_here != d_other:
                res.problems.append((
                    'imbalance', 'the two arms of an emitted if leave the '
                    'evaluation stack at different depths (%+d / %+d relative '
                    'to the start of the sequence)' % (d_other, d_here)))
                return res
            merged = []
            for a, b in zip(other[::-1], stack[::-1]):
                merged.append(a if a == b else ('phi', a, b))
            stack[:] = merged[::-1]
            for k in fr['written']:
                ver[k] = ver.get(k, 0) + 1
            result[0] = ('unknown',)
        elif kind in ('mark', 'back'):
            pass
    if frames:
        res.problems.append(('structure', 'an emitted if is never closed'))
    res.net = len(stack) - base[0]
    return res


def nonzero_on_path(divisor, conds):
    """True when the path condition implies divisor != 0."""
    if divisor[0] == 'const':
        return isinstance(divisor[1], (int, float)) and divisor[1] != 0
    want = []
    if divisor[0] == 'op' and divisor[1] == 'SUB' and len(divisor) == 4:
        want.append((divisor[2], divisor[3]))
    if divisor[0] == 'loc':
        want.append((divisor, ('const', 0)))
    for x, c in want:
        for cond, truth in conds:
            if cond[0] != 'op' or len(cond) != 4:
                continue
            a, b = cond[2], cond[3]
            same = (a == x and b == c) or (a == c and b == x)
            if not same:
                continue
            if cond[1] == 'NOTEQ' and truth is True:
                return True
            if cond[1] == 'EQ' and truth is False:
                return True
            if cond[1] in ('GT', 'LT') and truth is True:
                return True
    return False


def show(v):
    if v[0] == 'const':
        return str(v[1].member if isinstance(v[1], K.EnumVal) else v[1])
    if v[0] == 'loc':
        return v[1].split('.')[-1].lower()
    if v[0] == 'op' and len(v) == 4:
        return '(%s %s %s)' % (show(v[2]), v[1], show(v[3]))
    if v[0] == 'op':
        return '(%s %s)' % (v[1], show(v[2]))
    if v[0] == 'phi':
        return '{%s | %s}' % (show(v[1]), show(v[2]))
    return v[0]
