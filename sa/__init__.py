"""Static analysis of al-fontes-jr/bardolph (stdlib `ast` only).

Nothing under /repo is ever imported or executed by this package.
"""
