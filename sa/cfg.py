"""Statement-level control-flow graph for one function.

Nodes are simple statements, condition tests (short-circuit `and` / `or` /
`not` are split into separate test nodes with True/False edges), `for`
headers, `match` subjects and cases, `except` handler entries. `finally`
bodies are copied once per kind of exit that crosses them (normal, return,
break, continue, exception). Exception edges ('exc') are added from every
node that can raise (contains a call, subscript, raise, assert, del) to the
innermost enclosing handler / finally; outside any `try` they are not drawn.

`return a and b` is expanded: test(a) -False-> synthetic return of a's falsy
value, -True-> `return b`; likewise for `or`.
"""
import ast


class Node:
    __slots__ = ('id', 'kind', 'ast', 'succs', 'preds', 'ret_expr',
                 'ret_truth', 'line', 'in_finally', 'owner')

    def __init__(self, nid, kind, node=None):
        self.id = nid
        self.kind = kind
        self.ast = node
        self.succs = []     # [(Node, label)]
        self.preds = []     # [(Node, label)]
        self.ret_expr = None
        self.ret_truth = None
        self.line = getattr(node, 'lineno', 0)
        self.in_finally = False
        self.owner = None   # enclosing compound statement (for reports)

    @property
    def is_return(self):
        return self.kind in ('return', 'implicit-return')

    def exprs(self):
        """AST fragments evaluated *at this node* (not in nested blocks)."""
        n = self.ast
        if n is None or self.kind in ('loop-head', 'def'):
            return []
        if self.kind == 'for':
            return [n.iter]
        if self.kind == 'with':
            return [i.context_expr for i in n.items]
        if self.kind == 'case':
            out = []
            if n.guard is not None:
                out.append(n.guard)
            return out
        if self.kind == 'except':
            return [n.type] if n.type is not None else []
        if self.kind == 'return':
            if isinstance(n, _Synthetic):
                return []
            if isinstance(n, _LastOperand):
                return [n.value]
            return [n]
        return [n]

    def calls(self):
        out = []
        for e in self.exprs():
            _collect_calls(e, out)
        return out

    def text(self):
        from .index import short_norm
        if self.kind in ('entry', 'exit', 'raise-exit', 'implicit-return'):
            return '<%s>' % self.kind
        if self.kind == 'for':
            return 'for %s in %s' % (short_norm(self.ast.target),
                                     short_norm(self.ast.iter))
        if self.kind == 'case':
            return 'case %s' % short_norm(self.ast.pattern)
        if self.kind == 'except':
            return 'except %s' % short_norm(self.ast.type)
        if self.kind == 'with':
            return 'with ' + ', '.join(short_norm(i.context_expr)
                                       for i in self.ast.items)
        if isinstance(self.ast, _Synthetic):
            return 'return <%s value of %s>' % (
                'truthy' if self.ret_truth else 'falsy',
                short_norm(self.ret_expr))
        if isinstance(self.ast, _LastOperand):
            return 'return <.. %s>' % short_norm(self.ast.value)
        return short_norm(self.ast)

    def __repr__(self):
        return '<N%d %s %s>' % (self.id, self.kind, self.text()[:50])


def _collect_calls(node, out):
    """Post-order: arguments before the call that consumes them."""
    if isinstance(node, (ast.FunctionDef, ast.AsyncFunctionDef, ast.ClassDef)):
        return
    for child in ast.iter_child_nodes(node):
        _collect_calls(child, out)
    if isinstance(node, ast.Call):
        out.append(node)


_MAY_RAISE = (ast.Call, ast.Subscript, ast.Raise, ast.Assert, ast.Delete,
              ast.Await)


def _may_raise(node):
    if node is None:
        return False
    for n in ast.walk(node):
        if isinstance(n, _MAY_RAISE):
            return True
    return False


class _Loop:
    def __init__(self):
        self.breaks = []
        self.continues = []


class _Try:
    def __init__(self):
        self.raises = []


class _Finally:
    def __init__(self):
        self.pending = {'return': [], 'break': [], 'continue': [],
                        'raise': []}


class CFG:
    def __init__(self, func_node):
        self.func_node = func_node
        self.nodes = []
        self.entry = self._new('entry')
        self.exit = self._new('exit')
        self.raise_exit = self._new('raise-exit')
        self._frames = []
        self._finally_depth = 0
        frontier = self._block(func_node.body, [(self.entry, None)])
        if frontier:
            imp = self._new('implicit-return')
            self._connect(frontier, imp)
            self._edge(imp, self.exit, None)

    # -------------------------------------------------------------- util
    def _new(self, kind, node=None):
        n = Node(len(self.nodes), kind, node)
        n.in_finally = self._finally_depth > 0 if hasattr(
            self, '_finally_depth') else False
        self.nodes.append(n)
        return n

    def _edge(self, a, b, label):
        if (b, label) not in a.succs:
            a.succs.append((b, label))
            b.preds.append((a, label))

    def _connect(self, frontier, node):
        for a, label in frontier:
            self._edge(a, node, label)

    def _exc_edge(self, node):
        """node may raise: route an 'exc' edge to the innermost catcher."""
        if any(isinstance(f, (_Try, _Finally)) for f in self._frames):
            self._jump('raise', [(node, 'exc')], len(self._frames))

    def _jump(self, kind, edges, depth):
        """Abrupt completion of `kind` leaving the frames above `depth`."""
        for i in range(depth - 1, -1, -1):
            fr = self._frames[i]
            if isinstance(fr, _Finally):
                fr.pending[kind].append((edges, i))
                return
            if isinstance(fr, _Loop) and kind in ('break', 'continue'):
                (fr.breaks if kind == 'break' else fr.continues).extend(edges)
                return
            if isinstance(fr, _Try) and kind == 'raise':
                fr.raises.extend(edges)
                return
        if kind == 'return':
            self._connect(edges, self.exit)
        elif kind == 'raise':
            self._connect(edges, self.raise_exit)
        # break/continue outside a loop: syntax error, cannot happen

    # ------------------------------------------------------------ blocks
    def _block(self, stmts, frontier):
        for s in stmts:
            if not frontier:
                break       # unreachable code is not part of the graph
            frontier = self._stmt(s, frontier)
        return frontier

    def _simple(self, s, frontier, kind='stmt'):
        n = self._new(kind, s)
        self._connect(frontier, n)
        if _may_raise(s):
            self._exc_edge(n)
        return n

    def _stmt(self, s, frontier):
        # `x = a if c else b` / `return a if c else b` are the if statement
        # `if c: x = a else: x = b`: lowered so that every path rule sees the
        # two forms alike. The synthetic statements remember their origin.
        if LOWER_IFEXP and isinstance(s, (ast.Assign, ast.AugAssign, ast.Return)) \
                and isinstance(getattr(s, 'value', None), ast.IfExp):
            import copy
            arms = []
            for v in (s.value.body, s.value.orelse):
                c = copy.copy(s)
                c.value = v
                c._origin = s
                arms.append(c)
            syn = ast.If(test=s.value.test, body=[arms[0]], orelse=[arms[1]])
            ast.copy_location(syn, s)
            return self._stmt(syn, frontier)
        if isinstance(s, ast.If):
            t, f = self._cond(s.test, frontier)
            out = self._block(s.body, t)
            out = out + self._block(s.orelse, f) if s.orelse else out + f
            return out
        if isinstance(s, ast.While):
            return self._while(s, frontier)
        if isinstance(s, (ast.For, ast.AsyncFor)):
            return self._for(s, frontier)
        if isinstance(s, ast.Try) or s.__class__.__name__ == 'TryStar':
            return self._try(s, frontier)
        if isinstance(s, (ast.With, ast.AsyncWith)):
            n = self._simple(s, frontier, 'with')
            return self._block(s.body, [(n, None)])
        if isinstance(s, ast.Match):
            return self._match(s, frontier)
        if isinstance(s, ast.Return):
            return self._return(s, frontier)
        if isinstance(s, ast.Raise):
            n = self._new('stmt', s)
            self._connect(frontier, n)
            self._jump('raise', [(n, 'exc')], len(self._frames))
            return []
        if isinstance(s, ast.Break):
            n = self._new('stmt', s)
            self._connect(frontier, n)
            self._jump('break', [(n, None)], len(self._frames))
            return []
        if isinstance(s, ast.Continue):
            n = self._new('stmt', s)
            self._connect(frontier, n)
            self._jump('continue', [(n, None)], len(self._frames))
            return []
        if isinstance(s, (ast.FunctionDef, ast.AsyncFunctionDef, ast.ClassDef)):
            n = self._new('def', s)
            self._connect(frontier, n)
            return [(n, None)]
        n = self._simple(s, frontier)
        return [(n, None)]

    def _return(self, s, frontier):
        v = s.value
        if isinstance(v, ast.BoolOp) and len(v.values) >= 2:
            is_and = isinstance(v.op, ast.And)
            cur = frontier
            for operand in v.values[:-1]:
                t, f = self._cond(operand, cur)
                short, cont = (f, t) if is_and else (t, f)
                if short:
                    r = self._new('return', s)
                    r.ret_expr = operand
                    r.ret_truth = not is_and
                    # mark synthetic: .ast is the Return but exprs() is empty
                    r.ast = _Synthetic(s)
                    self._connect(short, r)
                    self._jump('return', [(r, None)], len(self._frames))
                cur = cont
                if not cur:
                    return []
            last = v.values[-1]
            r = self._new('return', s)
            r.ret_expr = last
            r.ast = _LastOperand(s, last)
            self._connect(cur, r)
            if _may_raise(last):
                self._exc_edge(r)
            self._jump('return', [(r, None)], len(self._frames))
            return []
        n = self._new('return', s)
        n.ret_expr = v
        self._connect(frontier, n)
        if _may_raise(s):
            self._exc_edge(n)
        self._jump('return', [(n, None)], len(self._frames))
        return []

    def _cond(self, expr, frontier):
        """-> (true_frontier, false_frontier)"""
        if isinstance(expr, ast.BoolOp):
            if isinstance(expr.op, ast.And):
                cur, falses = frontier, []
                for v in expr.values:
                    t, f = self._cond(v, cur)
                    falses += f
                    cur = t
                return cur, falses
            cur, trues = frontier, []
            for v in expr.values:
                t, f = self._cond(v, cur)
                trues += t
                cur = f
            return trues, cur
        if isinstance(expr, ast.UnaryOp) and isinstance(expr.op, ast.Not):
            t, f = self._cond(expr.operand, frontier)
            return f, t
        n = self._new('cond', expr)
        self._connect(frontier, n)
        if _may_raise(expr):
            self._exc_edge(n)
        if isinstance(expr, ast.Constant):
            if expr.value:
                return [(n, True)], []
            return [], [(n, False)]
        return [(n, True)], [(n, False)]

    def _while(self, s, frontier):
        head = self._new('loop-head', s)
        self._connect(frontier, head)
        t, f = self._cond(s.test, [(head, None)])
        loop = _Loop()
        self._frames.append(loop)
        body_out = self._block(s.body, t)
        self._frames.pop()
        self._connect(body_out + loop.continues, head)
        out = self._block(s.orelse, f) if s.orelse else f
        return out + loop.breaks

    def _for(self, s, frontier):
        head = self._new('for', s)
        self._connect(frontier, head)
        if _may_raise(s.iter):
            self._exc_edge(head)
        loop = _Loop()
        self._frames.append(loop)
        body_out = self._block(s.body, [(head, True)])
        self._frames.pop()
        self._connect(body_out + loop.continues, head)
        f = [(head, False)]
        out = self._block(s.orelse, f) if s.orelse else f
        return out + loop.breaks

    def _match(self, s, frontier):
        subj = self._new('stmt', s.subject)
        self._connect(frontier, subj)
        cur = [(subj, None)]
        out = []
        for case in s.cases:
            if not cur:
                break
            c = self._new('case', case)
            self._connect(cur, c)
            irrefutable = (case.guard is None and _irrefutable(case.pattern))
            body_in = [(c, True)]
            out += self._block(case.body, body_in)
            cur = [] if irrefutable else [(c, False)]
        return out + cur

    def _try(self, s, frontier):
        fin = None
        if s.finalbody:
            fin = _Finally()
            self._frames.append(fin)
        depth_after_fin = len(self._frames)
        out = []
        if s.handlers:
            tr = _Try()
            self._frames.append(tr)
            body_out = self._block(s.body, frontier)
            self._frames.pop()
            catch_all = False
            for h in s.handlers:
                hn = self._new('except', h)
                self._connect(tr.raises, hn)
                out += self._block(h.body, [(hn, None)])
                tname = ast.unparse(h.type) if h.type is not None else ''
                if h.type is None or tname in ('Exception', 'BaseException'):
                    catch_all = True
            if not catch_all and tr.raises:
                self._jump('raise', list(tr.raises), len(self._frames))
        else:
            body_out = self._block(s.body, frontier)
        if s.orelse:
            body_out = self._block(s.orelse, body_out)
        out += body_out
        if fin is not None:
            assert self._frames[-1] is fin and depth_after_fin == len(self._frames)
            self._frames.pop()
            base_depth = len(self._frames)
            self._finally_depth += 1
            # normal completion
            normal = self._block(s.finalbody, out) if out else []
            # abrupt completions crossing this finally
            # (a finally copy may itself contain jumps; they go outward)
            progress = True
            done = set()
            while progress:
                progress = False
                for kind in ('return', 'break', 'continue', 'raise'):
                    pend = fin.pending[kind]
                    fin.pending[kind] = []
                    edges = []
                    for e, _i in pend:
                        edges += e
                    if not edges:
                        continue
                    progress = True
                    end = self._block(s.finalbody, edges)
                    if end:
                        self._jump(kind, end, base_depth)
            self._finally_depth -= 1
            return normal
        return out

    # ----------------------------------------------------------- queries
    def reachable_from(self, start_nodes, avoid=(), labels=None):
        """Nodes reachable from any start node (start nodes included), never
        stepping *into* a node in `avoid`."""
        avoid = set(id(n) for n in avoid)
        seen, out = set(), []
        todo = [s for s in start_nodes if id(s) not in avoid]
        while todo:
            n = todo.pop()
            if id(n) in seen:
                continue
            seen.add(id(n))
            out.append(n)
            for m, _l in n.succs:
                if id(m) not in avoid and id(m) not in seen:
                    todo.append(m)
        return out

    def find_path(self, starts, goal_pred, avoid=()):
        """Shortest path (list of nodes) from a start node to a node
        satisfying goal_pred (a start node may itself be the goal), never
        entering `avoid` nodes; None if there is none."""
        from collections import deque
        avoid = set(id(n) for n in avoid)
        prev = {}
        dq = deque()
        for s in starts:
            if id(s) not in avoid and id(s) not in prev:
                prev[id(s)] = None
                dq.append(s)
        byid = {id(n): n for n in self.nodes}
        while dq:
            n = dq.popleft()
            if goal_pred(n):
                path = []
                k = id(n)
                while k is not None:
                    path.append(byid[k])
                    k = prev[k]
                return list(reversed(path))
            for m, _lab in n.succs:
                if id(m) in avoid or id(m) in prev:
                    continue
                prev[id(m)] = id(n)
                dq.append(m)
        return None

    def dominators(self):
        """node id -> set of node ids dominating it (entry-rooted)."""
        ids = [n.id for n in self.nodes]
        reach = set(n.id for n in self.reachable_from([self.entry]))
        dom = {i: set(reach) for i in reach}
        dom[self.entry.id] = {self.entry.id}
        changed = True
        order = [n for n in self.nodes if n.id in reach]
        while changed:
            changed = False
            for n in order:
                if n is self.entry:
                    continue
                ps = [p.id for p, _ in n.preds if p.id in reach]
                new = set(reach)
                for p in ps:
                    new &= dom[p]
                new = new | {n.id} if ps else {n.id}
                if new != dom[n.id]:
                    dom[n.id] = new
                    changed = True
        return dom

    def return_nodes(self):
        return [n for n in self.nodes if n.is_return]

    def stmt_nodes(self):
        return [n for n in self.nodes
                if n.kind not in ('entry', 'exit', 'raise-exit')]

    def dump(self):
        lines = []
        for n in self.nodes:
            lines.append('%3d %-15s %-60s -> %s' % (
                n.id, n.kind, n.text()[:60],
                ', '.join('%d%s' % (m.id, '' if l is None else '[%s]' % l)
                          for m, l in n.succs)))
        return '\n'.join(lines)


class _Synthetic(ast.AST):
    """Stand-in AST for the synthetic `return <falsy/truthy value of x>`."""
    _fields = ()

    def __init__(self, ret):
        self.lineno = getattr(ret, 'lineno', 0)
        self.col_offset = 0
        self.ret = ret


class _LastOperand(ast.AST):
    """`return a and b`: the node that evaluates and returns b."""
    _fields = ('value',)

    def __init__(self, ret, value):
        self.lineno = getattr(value, 'lineno', 0)
        self.col_offset = 0
        self.ret = ret
        self.value = value


def _irrefutable(pat):
    if isinstance(pat, ast.MatchAs):
        return pat.pattern is None or _irrefutable(pat.pattern)
    if isinstance(pat, ast.MatchOr):
        return any(_irrefutable(p) for p in pat.patterns)
    return False


def cfg_of(func):
    if func._cfg is None:
        func._cfg = CFG(func.node)
    return func._cfg


def reachable_without_edges(cfg, start, removed):
    """Nodes reachable from `start` when the edges in `removed`
    (set of (node id, label)) are deleted."""
    seen, todo = set(), [start]
    while todo:
        n = todo.pop()
        if n.id in seen:
            continue
        seen.add(n.id)
        for m, lab in n.succs:
            if (n.id, lab) in removed:
                continue
            todo.append(m)
    return seen


def in_cycle(cfg, node):
    """True when `node` can reach itself."""
    for m, _ in node.succs:
        if node in cfg.reachable_from([m]):
            return True
    return False


# ---------------------------------------------------------------------------
# Path-sensitive search: remembers the outcome of *pure* conditions (tests on
# local names only: `flag`, `x is None`, `x is not None`, `not flag`) along a
# path and never takes the contradicting edge of a later test of the same
# atom while the names involved have not been re-assigned.

def _atom_of(expr):
    """(atom text, polarity) for a pure condition, else None."""
    pol = True
    while isinstance(expr, ast.UnaryOp) and isinstance(expr.op, ast.Not):
        expr = expr.operand
        pol = not pol
    if isinstance(expr, ast.Name):
        return expr.id, pol, {expr.id}
    if isinstance(expr, ast.Compare) and len(expr.ops) == 1 \
            and isinstance(expr.left, ast.Name) \
            and isinstance(expr.comparators[0], ast.Constant) \
            and expr.comparators[0].value is None:
        if isinstance(expr.ops[0], ast.Is):
            return expr.left.id + ' is None', pol, {expr.left.id}
        if isinstance(expr.ops[0], ast.IsNot):
            return expr.left.id + ' is None', not pol, {expr.left.id}
    return None


def _assigned_names(node):
    out = set()
    n = node.ast
    if node.kind == 'stmt' and isinstance(n, ast.Assign):
        for t in n.targets:
            for x in ast.walk(t):
                if isinstance(x, ast.Name):
                    out.add(x.id)
    elif node.kind == 'stmt' and isinstance(n, (ast.AugAssign, ast.AnnAssign)):
        for x in ast.walk(n.target):
            if isinstance(x, ast.Name):
                out.add(x.id)
    elif node.kind == 'for':
        for x in ast.walk(n.target):
            if isinstance(x, ast.Name):
                out.add(x.id)
    return out


LOWER_IFEXP = True


def find_path_sensitive(cfg, starts, goal_pred, avoid=(), assume=None,
                        decide=None, on_node=None, limit=20000, on_edge=None):
    """BFS over (node, facts). facts: frozenset of (atom, truth, names).
    assume: {atom text: truth} initial facts (names taken from the atom).
    decide(node, facts) -> True/False/None may fold a cond node.
    on_node(node, facts) -> facts' may add/remove marker facts.
    on_edge(node, label, facts) -> facts' or None (edge infeasible).
    Returns a path (list of nodes) or None."""
    from collections import deque
    avoid = set(id(n) for n in avoid)
    init = frozenset((a, t, frozenset(a.replace(' is None', '').split()))
                     for a, t in (assume or {}).items())
    prev = {}
    dq = deque()
    for s in starts:
        if id(s) in avoid:
            continue
        st = (s.id, init)
        prev[st] = None
        dq.append((s, init))
    steps = 0
    while dq:
        n, facts = dq.popleft()
        steps += 1
        if steps > limit:
            break
        if goal_pred(n):
            path, st = [], (n.id, facts)
            while st is not None:
                path.append(cfg.nodes[st[0]])
                st = prev[st]
            return list(reversed(path))
        if on_node is not None:
            nf = on_node(n, facts)
        else:
            nf = facts
        killed = _assigned_names(n)
        if killed:
            nf = frozenset(f for f in nf if not (f[2] & killed))
        allowed = None
        new_fact = None
        if n.kind == 'cond':
            at = _atom_of(n.ast)
            known = None
            if at is not None:
                for a, t, _names in nf:
                    if a == at[0]:
                        known = (t == at[1])
            if known is None and decide is not None:
                known = decide(n, nf)
            if known is not None:
                allowed = known
            elif at is not None:
                new_fact = at
        for m, lab in n.succs:
            if id(m) in avoid:
                continue
            if allowed is not None and lab in (True, False) and lab is not allowed:
                continue
            mf = nf
            if on_edge is not None:
                mf = on_edge(n, lab, mf)
                if mf is None:
                    continue        # infeasible edge
            if new_fact is not None and lab in (True, False):
                truth = (lab is True) == new_fact[1]
                mf = frozenset(set(nf) | {(new_fact[0], truth,
                                           frozenset(new_fact[2]))})
            st = (m.id, mf)
            if st in prev:
                continue
            prev[st] = (n.id, facts)
            dq.append((m, mf))
    return None
