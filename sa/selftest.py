"""Self-test of the checker on scratch copies of /repo.

A variant is one textual edit (exactly one occurrence) of one source file:
  kind 'break'  - the edited tree still byte-compiles and violates the rule:
                  the property check must exit 1 and name `rule` (and
                  `function` when given);
  kind 'benign' - a behaviour-preserving rewrite: the check must stay silent
                  (no finding beyond those of the unedited tree).
Scratch copies live under a fresh tempfile.mkdtemp() outside /repo and
/verif and are removed as soon as the variant has been checked. A failed
self-test is an ANALYSIS-ERROR of the checker (exit 2), never a verdict
about /repo.
"""
import json
import os
import shutil
import sys
import tempfile
import time
import warnings

VERIF = os.path.dirname(os.path.dirname(os.path.abspath(__file__)))


def _copy_tree(src_root, dst_root):
    for pkg in ('bardolph', 'web'):
        for dirpath, dirnames, filenames in os.walk(os.path.join(src_root, pkg)):
            dirnames[:] = [d for d in dirnames
                           if d not in ('__pycache__', 'static')]
            rel = os.path.relpath(dirpath, src_root)
            os.makedirs(os.path.join(dst_root, rel), exist_ok=True)
            for fn in filenames:
                if fn.endswith(('.py', '.html', '.json')):
                    shutil.copy2(os.path.join(dirpath, fn),
                                 os.path.join(dst_root, rel, fn))
    docs = os.path.join(src_root, 'docs')
    if os.path.isdir(docs):
        os.makedirs(os.path.join(dst_root, 'docs'), exist_ok=True)
        for fn in os.listdir(docs):
            if fn.endswith('.rst'):
                shutil.copy2(os.path.join(docs, fn),
                             os.path.join(dst_root, 'docs', fn))


def apply_edits(root, edits):
    """edits: [(relpath, old, new)] each old must occur exactly once."""
    for rel, old, new in edits:
        p = os.path.join(root, rel)
        with open(p, encoding='utf-8') as f:
            s = f.read()
        n = s.count(old)
        if n != 1:
            raise RuntimeError('variant edit matches %d times in %s: %r'
                               % (n, rel, old[:60]))
        s = s.replace(old, new)
        if rel.endswith('.py'):
            warnings.simplefilter('ignore')
            compile(s, p, 'exec')       # must still byte-compile
        with open(p, 'w', encoding='utf-8') as f:
            f.write(s)


def seeded_variants(prop):
    """Seeded changes kept under /verif/seeded/<id>/ (patch.diff + meta.json)
    as break variants: the property's check must report them."""
    out = []
    root = os.path.join(VERIF, 'seeded')
    if not os.path.isdir(root):
        return out
    for sid in sorted(os.listdir(root)):
        meta_p = os.path.join(root, sid, 'meta.json')
        patch_p = os.path.join(root, sid, 'patch.diff')
        if not (os.path.exists(meta_p) and os.path.exists(patch_p)):
            continue
        with open(meta_p) as fh:
            meta = json.load(fh)
        if meta.get('property') != prop or not meta.get('confirmed'):
            continue
        if meta.get('harmless_since_fix'):
            continue        # the tree was repaired so that this change no
                            # longer breaks the property (see meta.json)
        out.append(dict(id='seed:' + sid, prop=prop, rule=None, kind='break',
                        edits=[], patch=patch_p, function=None))
    return out


def benign_patch_variants(prop):
    """Behaviour-preserving refactorings written by independent sub-agents
    (kept under /verif/benign/*.diff): every check must stay silent on each."""
    out = []
    root = os.path.join(VERIF, 'benign')
    if not os.path.isdir(root):
        return out
    for fn in sorted(os.listdir(root)):
        if fn.endswith('.diff'):
            out.append(dict(id='benign:' + fn[:-5], prop=prop, rule=None,
                            kind='benign', edits=[],
                            patch=os.path.join(root, fn), function=None))
    return out


TRIAGE_UNDECIDED = ('M0851',     # judged "marginal" by the triage itself
                    # demonstrated breaks no rule claims (DESIGN.md section 6:
                    # the attribute is stored by another method; whether that
                    # method ran first is a cross-class call-order question)
                    'M0448', 'M0868')
# the triage named two properties; the check that decides it belongs to the
# second one (the root cause)
TRIAGE_PROPERTY = {'M1095': 'C02', 'M0662': 'C07', 'M2348': 'C02',
                   'M1223': 'C07', 'M1595': 'C07'}


def triage_variants(prop):
    """Surviving mutants of the generic sweep that sub-agents triaged against
    the property texts (mutation/triage.json): the ones demonstrated to break
    `prop` must be reported by its check, the ones shown equivalent must leave
    every check silent."""
    out = []
    tp = os.path.join(VERIF, 'mutation', 'triage.json')
    if not os.path.exists(tp):
        return out
    import re
    with open(tp) as fh:
        rows = json.load(fh)
    for r in rows:
        d = os.path.join(VERIF, 'mutation', 'demos', r['id'] + '.diff')
        if not os.path.exists(d) or r['id'] in TRIAGE_UNDECIDED:
            continue
        v = r['verdict']
        if v.startswith('BREAKS'):
            m = re.search(r'C\d\d', v)
            if m and TRIAGE_PROPERTY.get(r['id'], m.group(0)) == prop:
                out.append(dict(id='mutant:' + r['id'], prop=prop, rule=None,
                                kind='break', edits=[], patch=d, function=None))
        elif v.startswith('EQUIV'):
            out.append(dict(id='mutant-eq:' + r['id'], prop=prop, rule=None,
                            kind='benign', edits=[], patch=d, function=None))
    return out


def run_variant(args):
    v, repo_root = args
    warnings.simplefilter('ignore')
    sys.path.insert(0, VERIF)
    from sa.analysis import Analysis
    from sa import rules as _r   # noqa: F401
    from sa.report import RULES, load_known, match_known
    from sa.index import AnalysisError
    tmp = tempfile.mkdtemp(prefix='bardolph-selftest-', dir='/var/tmp')
    t0 = time.time()
    res = dict(id=v['id'], prop=v['prop'], kind=v['kind'], rule=v.get('rule'),
               ok=False, detail='')
    try:
        _copy_tree(repo_root, tmp)
        try:
            apply_edits(tmp, v['edits'])
            if v.get('patch'):
                import subprocess
                pr = subprocess.run(['patch', '-p1', '-s', '-i', v['patch']],
                                    cwd=tmp, capture_output=True, text=True)
                if pr.returncode != 0:
                    raise RuntimeError('seeded patch does not apply: %s'
                                       % (pr.stdout + pr.stderr)[:120])
        except RuntimeError as ex:
            res['detail'] = 'STALE VARIANT: %s' % ex
            res['stale'] = True
            return res
        try:
            A = Analysis(tmp)
            known = load_known()
            findings = []
            for r in RULES:
                if v['prop'] in r.props:
                    run = A.run_rule(r)
                    for f in run.findings:
                        if match_known(f, known) is None:
                            findings.append(f)
        except AnalysisError as ex:
            res['detail'] = 'analysis error: %s' % ex
            res['ok'] = False
            return res
        if v['kind'] == 'break':
            hits = [f for f in findings if (v['rule'] is None or f.rule == v['rule'])
                    and (not v.get('function') or f.func == v['function'])]
            res['ok'] = bool(hits)
            res['detail'] = (hits[0].message[:150] if hits else
                             'MISSED: findings=%s' % [
                                 (f.rule, f.func) for f in findings][:6])
        else:
            res['ok'] = not findings
            res['detail'] = 'silent' if not findings else 'FALSE ALARM: %s' % [
                (f.rule, f.func, f.construct[:60]) for f in findings][:4]
        return res
    except Exception as ex:
        res['detail'] = 'exception %s: %s' % (type(ex).__name__, ex)
        return res
    finally:
        res['wall_s'] = round(time.time() - t0, 2)
        shutil.rmtree(tmp, ignore_errors=True)


def run_variants(variants, repo_root, jobs=16):
    from multiprocessing import Pool
    if not variants:
        return []
    with Pool(min(jobs, len(variants))) as pool:
        return pool.map(run_variant, [(v, repo_root) for v in variants])


def run_for_property(prop, repo_root):
    from .variants import VARIANTS
    vs = [v for v in VARIANTS if v['prop'] == prop] + seeded_variants(prop) \
        + benign_patch_variants(prop) + triage_variants(prop)
    t0 = time.time()
    results = run_variants(vs, repo_root)
    lines = []
    bad = 0
    for r in results:
        flag = 'ok  ' if r['ok'] else ('STALE' if r.get('stale') else 'BAD ')
        if not r['ok'] and not r.get('stale'):
            bad += 1
        if r['ok'] and r['id'].startswith(('benign:', 'mutant-eq:')):
            continue        # silent lines are not worth printing
        lines.append('  selftest %-5s %-6s %-28s %-6s %s'
                     % (flag, r['kind'], r['id'], r.get('rule') or '',
                        r['detail'][:110]))
    stale = sum(1 for r in results if r.get('stale'))
    lines.append('  selftest %s: %d variants, %d ok, %d bad, %d stale (%.1fs)'
                 % (prop, len(results), sum(1 for r in results if r['ok']),
                    bad, stale, time.time() - t0))
    return dict(ok=bad == 0, lines=lines, results=results,
                wall_s=time.time() - t0)


def merge_into_evidence(prop, st):
    p = os.path.join(VERIF, 'evidence', '%s.json' % prop)
    if not os.path.exists(p):
        return
    with open(p) as f:
        ev = json.load(f)
    rs = st['results']
    ev['coverage']['selftest'] = dict(
        variants=len(rs),
        break_detected=sum(1 for r in rs if r['kind'] == 'break' and r['ok']),
        break_total=sum(1 for r in rs if r['kind'] == 'break'),
        benign_silent=sum(1 for r in rs if r['kind'] == 'benign' and r['ok']),
        benign_total=sum(1 for r in rs if r['kind'] == 'benign'),
        stale=sum(1 for r in rs if r.get('stale')),
        samples=[dict(id=r['id'], kind=r['kind'], rule=r.get('rule'),
                      ok=r['ok'], detail=r['detail'][:160])
                 for r in rs if not r['id'].startswith(('benign:', 'mutant-eq:'))][:40],
        triaged_mutants_reported=sum(1 for r in rs if r['id'].startswith('mutant:')
                                     and r['ok']),
        triaged_mutants=sum(1 for r in rs if r['id'].startswith('mutant:')),
        equivalent_mutants_silent=sum(1 for r in rs if r['id'].startswith('mutant-eq:')
                                      and r['ok']),
        benign_patches=sum(1 for r in rs if r['id'].startswith('benign:')),
        benign_patches_silent=sum(1 for r in rs if r['id'].startswith('benign:')
                                  and r['ok']))
    ev['wall_s'] = round(ev.get('wall_s', 0) + st['wall_s'], 3)
    with open(p, 'w') as f:
        json.dump(ev, f, indent=1, sort_keys=True)
        f.write('\n')


def main(argv=None):
    import argparse
    ap = argparse.ArgumentParser()
    ap.add_argument('--prop', default=None)
    ap.add_argument('--id', default=None)
    ap.add_argument('--repo', default='/repo')
    args = ap.parse_args(argv)
    from .variants import VARIANTS
    vs = [v for v in VARIANTS
          if (args.prop is None or v['prop'] == args.prop)
          and (args.id is None or v['id'] == args.id)]
    results = run_variants(vs, args.repo)
    bad = 0
    for r in results:
        flag = 'ok ' if r['ok'] else 'BAD'
        if not r['ok']:
            bad += 1
        print('%s %-4s %-6s %-30s %-6s %s' % (flag, r['prop'], r['kind'], r['id'],
                                            r.get('rule') or '', r['detail'][:140]))
    print('%d variants, %d bad' % (len(results), bad))
    return 1 if bad else 0


if __name__ == '__main__':
    sys.exit(main())
