"""Affine abstract evaluation of the code generator's offset arithmetic.

The domain is linear forms over named symbols (the length of the code list
on entry, a marker's recorded offset, the index of an instruction). The
evaluator walks a *straight-line* method body (one symbolic pass through a
`for` body is allowed) and models exactly these effects, each of which is
first confirmed on the source of CodeGen:

  self.add_instruction(op, p0, p1)  appends one instruction at index `cur`,
                                    returns it, cur += 1
  self.current_offset               == cur (property returning len(self._code))
  _JumpMarker(inst, off)            record with fields jump / offset
  x.param1 = e / x.jump = e / x.offset = e   field stores

No solver is involved: equalities are decided by normalising both sides to a
linear form and comparing coefficients.
"""
import ast

from .index import AnalysisError, norm


class Lin:
    __slots__ = ('c',)

    def __init__(self, c=None):
        self.c = {k: v for k, v in (c or {}).items() if v != 0}

    @staticmethod
    def const(k):
        return Lin({1: k})

    @staticmethod
    def sym(name):
        return Lin({name: 1})

    def __add__(self, o):
        o = as_lin(o)
        c = dict(self.c)
        for k, v in o.c.items():
            c[k] = c.get(k, 0) + v
        return Lin(c)

    def __sub__(self, o):
        o = as_lin(o)
        c = dict(self.c)
        for k, v in o.c.items():
            c[k] = c.get(k, 0) - v
        return Lin(c)

    def __neg__(self):
        return Lin({k: -v for k, v in self.c.items()})

    def scale(self, k):
        return Lin({s: v * k for s, v in self.c.items()})

    def __eq__(self, o):
        return isinstance(o, Lin) and self.c == o.c

    def __hash__(self):
        return hash(tuple(sorted(self.c.items(), key=repr)))

    def is_const(self):
        return all(k == 1 for k in self.c)

    def __repr__(self):
        if not self.c:
            return '0'
        parts = []
        for k, v in sorted(self.c.items(), key=lambda kv: (kv[0] == 1, repr(kv[0]))):
            if k == 1:
                parts.append('%+d' % v)
            elif v == 1:
                parts.append('+%s' % k)
            elif v == -1:
                parts.append('-%s' % k)
            else:
                parts.append('%+d*%s' % (v, k))
        s = ' '.join(parts)
        return s[1:] if s.startswith('+') else s


def as_lin(v):
    if isinstance(v, Lin):
        return v
    if isinstance(v, bool):
        raise NotAffine('bool')
    if isinstance(v, int):
        return Lin.const(v)
    raise NotAffine(repr(v))


class NotAffine(Exception):
    pass


class Inst:
    def __init__(self, index, op=None, p0=None, p1=None):
        self.index = index      # Lin
        self.op = op
        self.param0 = p0
        self.param1 = p1

    def __repr__(self):
        return 'Inst@%r(%s, %s, %r)' % (self.index, self.op, self.param0, self.param1)


class Record:
    """_JumpMarker-like record."""
    def __init__(self, **fields):
        self.fields = dict(fields)

    def __repr__(self):
        return 'Record(%r)' % self.fields


class AffineEval:
    def __init__(self, analysis, func, cur, env=None, len_syms=None,
                 self_name='self', codegen_names=('self',)):
        self.A = analysis
        self.func = func
        self.cur = as_lin(cur)          # current length of the code list
        self.env = dict(env or {})
        self.emitted = []               # Inst objects in order
        self.stores = []                # (object, field, value)
        self.returned = None
        self.len_syms = dict(len_syms or {})   # text of list expr -> Lin
        self.codegen_names = set(codegen_names)
        self.calls = []                 # (text, [args]) for unmodelled calls

    # ----------------------------------------------------------- expr
    def ev(self, e):
        if isinstance(e, ast.Constant):
            return e.value
        if isinstance(e, ast.Name):
            if e.id in self.env:
                return self.env[e.id]
            raise NotAffine('unbound %s' % e.id)
        if isinstance(e, ast.BinOp):
            a, b = self.ev(e.left), self.ev(e.right)
            if isinstance(e.op, ast.Add):
                return as_lin(a) + as_lin(b)
            if isinstance(e.op, ast.Sub):
                return as_lin(a) - as_lin(b)
            if isinstance(e.op, ast.Mult):
                la, lb = as_lin(a), as_lin(b)
                if la.is_const():
                    return lb.scale(la.c.get(1, 0))
                if lb.is_const():
                    return la.scale(lb.c.get(1, 0))
            raise NotAffine(norm(e))
        if isinstance(e, ast.UnaryOp) and isinstance(e.op, ast.USub):
            return -as_lin(self.ev(e.operand))
        if isinstance(e, ast.Attribute):
            t = norm(e)
            if e.attr == 'current_offset' and norm(e.value) in self.codegen_names_ext():
                return self.cur
            base = None
            if not (isinstance(e.value, ast.Name) and e.value.id == 'self'):
                try:
                    base = self.ev(e.value)
                except NotAffine:
                    base = None
            if isinstance(base, Record):
                if e.attr in base.fields:
                    return base.fields[e.attr]
                raise NotAffine('no field %s' % e.attr)
            if isinstance(base, Inst):
                return getattr(base, e.attr)
            # enum constant etc.
            v = self.A.try_fold(e, self.func)
            if v is not None:
                return v
            raise NotAffine(t)
        if isinstance(e, ast.Call):
            return self.call(e)
        if isinstance(e, ast.List):
            return [self.ev(x) for x in e.elts]
        raise NotAffine(norm(e))

    def codegen_names_ext(self):
        return self.codegen_names

    def call(self, c):
        fn = norm(c.func)
        if fn == 'len' and c.args:
            t = norm(c.args[0])
            if t in self.len_syms:
                return self.len_syms[t]
            v = None
            try:
                v = self.ev(c.args[0])
            except NotAffine:
                pass
            if isinstance(v, list):
                return Lin.const(len(v))
            raise NotAffine('len(%s)' % t)
        if isinstance(c.func, ast.Attribute):
            recv = norm(c.func.value)
            m = c.func.attr
            if m in ('add_instruction', '_add_instruction') and \
                    (recv in self.codegen_names or recv.endswith('code_gen')):
                args = [self.ev(a) for a in c.args]
                args += [None] * (3 - len(args))
                inst = Inst(self.cur, args[0], args[1], args[2])
                self.emitted.append(inst)
                self.cur = self.cur + 1
                return inst
            if m == 'append' and recv in self.len_syms:
                self.len_syms[recv] = self.len_syms[recv] + 1
                self.calls.append(('append:' + recv, list(c.args)))
                return None
            if m == 'extend' and recv in self.len_syms and c.args and \
                    norm(c.args[0]) in self.len_syms:
                self.calls.append(('extend:' + recv, [norm(c.args[0])]))
                self.len_syms[recv] = self.len_syms[recv] + \
                    self.len_syms[norm(c.args[0])]
                return None
        callees = self.A.callees(self.func, c)
        if callees and all(t.cls is not None and t.name == '__init__'
                           for t in callees):
            cls = callees[0].cls
            params = callees[0].params[1:]
            vals = {}
            for i, a in enumerate(c.args):
                if i < len(params):
                    try:
                        vals[params[i]] = self.ev(a)
                    except NotAffine:
                        vals[params[i]] = ('opaque', norm(a))
            # map ctor params to fields through `self.f = param` in __init__
            fields = {}
            for node in ast.walk(callees[0].node):
                if not isinstance(node, ast.Assign):
                    continue
                pairs = []
                for t in node.targets:
                    if isinstance(t, (ast.Tuple, ast.List)) and isinstance(
                            node.value, (ast.Tuple, ast.List)) and \
                            len(t.elts) == len(node.value.elts):
                        pairs += list(zip(t.elts, node.value.elts))
                    else:
                        pairs.append((t, node.value))
                for t, v in pairs:
                    if isinstance(t, ast.Attribute) and norm(t.value) == 'self' \
                            and isinstance(v, ast.Name):
                        fields[t.attr] = vals.get(v.id)
            r = Record(**fields)
            r.cls = cls.name
            return r
        args = []
        for a in c.args:
            try:
                args.append(self.ev(a))
            except NotAffine:
                args.append(('opaque', norm(a)))
        self.calls.append((fn, args))
        return ('opaque', norm(c))

    # ----------------------------------------------------------- stmts
    def run(self, stmts):
        for s in stmts:
            if self.returned is not None:
                break
            self.stmt(s)
        return self

    def stmt(self, s):
        if isinstance(s, ast.Expr):
            if isinstance(s.value, ast.Constant):
                return
            self.ev(s.value)
            return
        if isinstance(s, ast.Assign) and len(s.targets) == 1 \
                and isinstance(s.targets[0], (ast.Tuple, ast.List)) \
                and isinstance(s.value, (ast.Tuple, ast.List)) \
                and len(s.targets[0].elts) == len(s.value.elts):
            # a, b = x, y: all values first, then the stores left to right
            vals = [ast.copy_location(ast.Assign([t], v), s)
                    for t, v in zip(s.targets[0].elts, s.value.elts)]
            names = set(x.id for t in s.targets[0].elts for x in ast.walk(t)
                        if isinstance(x, ast.Name))
            reads = set(x.id for v in s.value.elts for x in ast.walk(v)
                        if isinstance(x, ast.Name))
            if names & reads - {'self'}:
                raise NotAffine('swap-like tuple assignment %s' % norm(s)[:50])
            for a in vals:
                self.stmt(a)
            return
        if isinstance(s, ast.Assign) and len(s.targets) > 1:
            # a = b = v
            for t in s.targets:
                self.stmt(ast.copy_location(ast.Assign([t], s.value), s))
            return
        if isinstance(s, ast.Assign) and len(s.targets) == 1:
            t = s.targets[0]
            try:
                v = self.ev(s.value)
            except NotAffine:
                if not isinstance(t, ast.Name):
                    raise
                # a local for something this evaluation has no value for (a
                # container, an object): opaque until it is used in arithmetic
                v = ('opaque', norm(s.value))
            if isinstance(t, ast.Name):
                self.env[t.id] = v
                return
            if isinstance(t, ast.Attribute):
                obj = self.ev(t.value)
                if isinstance(obj, Record):
                    obj.fields[t.attr] = v
                    self.stores.append((obj, t.attr, v))
                    return
                if isinstance(obj, Inst):
                    setattr(obj, t.attr, v)
                    self.stores.append((obj, t.attr, v))
                    return
            raise NotAffine('store to %s' % norm(t))
        if isinstance(s, ast.Return):
            self.returned = self.ev(s.value) if s.value is not None else None
            if self.returned is None:
                self.returned = 'None'
            return
        if isinstance(s, ast.For):
            # one symbolic pass: the loop variable must be pre-bound by the
            # caller under the name '<iter:var>'
            key = '<iter:%s>' % norm(s.target)
            if key not in self.env:
                key = '<iter>'
            if key not in self.env:
                raise NotAffine('for-loop over %s' % norm(s.iter))
            self.env[norm(s.target)] = self.env[key]
            self.run(s.body)
            return
        if isinstance(s, ast.While) and isinstance(s.test, ast.Compare) \
                and len(s.test.ops) == 1 and isinstance(s.test.left, ast.Name) \
                and isinstance(s.test.ops[0], (ast.Lt, ast.NotEq)) \
                and isinstance(s.test.comparators[0], ast.Call) \
                and norm(s.test.comparators[0].func) == 'len' \
                and '<iter>' in self.env:
            # `while i < len(xs): x = xs[i]; i += 1; ...` is the for loop
            # over xs: one symbolic pass with the element bound generically
            counter = s.test.left.id
            for b in s.body:
                if isinstance(b, ast.AugAssign) and isinstance(b.target, ast.Name) \
                        and b.target.id == counter:
                    continue
                if isinstance(b, ast.Assign) and isinstance(b.value, ast.Subscript) \
                        and norm(b.value.slice) == counter \
                        and isinstance(b.targets[0], ast.Name):
                    self.env[b.targets[0].id] = self.env['<iter>']
                    continue
                self.stmt(b)
            return
        raise NotAffine('statement %s' % norm(s)[:60])


def straight_body(func):
    """Body statements of func without a leading docstring."""
    body = list(func.node.body)
    if body and isinstance(body[0], ast.Expr) and \
            isinstance(body[0].value, ast.Constant) and \
            isinstance(body[0].value.value, str):
        body = body[1:]
    return body
