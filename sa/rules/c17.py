"""C17 - Compiles and runs are independent of what was compiled or run
before."""
import ast

from ..analysis import PROPERTY_TEXT, self_attr
from ..index import AnalysisError, ClassInfo, norm
from ..report import rule
from ..resolve import walk_own
from ..stateflow import StateFlow

PARSE = 'bardolph.parser.parse'
SCRIPTJOB = 'bardolph.controller.script_job'
MACHINE = 'bardolph.vm.machine'
LOADER = 'bardolph.vm.loader'

PROPERTY_TEXT['C17'] = (
    'history independence as an upward-exposed-read problem: no state of the '
    'objects that outlive a compile (Parser, Context, CodeGen, symbol tables) '
    'or a run (Machine, Registers, CallStack, VmMath/EvalStack, VmIo, Clock, '
    'the stdout sink) is read by Parser.parse / ScriptJob.execute before it '
    'has been re-initialised on that path (R17.a) - for the compile half this '
    'is a sufficient condition given R17.b; no module- or class-level mutable '
    'object is written by compile or run code (R17.b); nothing outside the '
    'compiler stores into an instruction, the loader does not mutate the '
    'program it is given, and embedded pattern objects are not mutated '
    '(R17.c, R11.c); context flags are restored / cleared (R05.a); the clock '
    'is stopped and output flushed on every exit of a run (R09.e, R19.c).',
    'equality of the traces of repeated runs (depends on devices and clock).')


def persistent_classes(A, root):
    """Classes of the objects that outlive one entry: the entry object and
    everything its constructors build (constructor calls and provide(I) in
    __init__ bodies), transitively."""
    P, todo = [], [root]
    while todo:
        c = todo.pop()
        if c in P:
            continue
        P.append(c)
        for k in c.mro():
            init = k.methods.get('__init__')
            if init is None:
                continue
            for node in walk_own(init.node):
                if not isinstance(node, ast.Call):
                    continue
                t = A.repo.resolve_expr_static(init.module, node.func)
                if isinstance(t, ClassInfo) and not t.is_enum():
                    todo.append(t)
                if norm(node.func).split('.')[-1] == 'provide' and node.args:
                    iface = A.repo.resolve_expr_static(init.module, node.args[0])
                    if isinstance(iface, ClassInfo):
                        todo.extend(A.rs.impls(iface))
    return P


def production_impls(A, iface):
    """Implementations bound to iface by code reachable from the production
    configuration entry points."""
    roots = [A.func('bardolph.controller.light_module', 'configure')]
    reach = set(A.rs.reachable(roots))
    out = []
    for i, impl, kind, f, _node in A.rs.bindings():
        if i is iface and f in reach and impl not in out:
            out.append(impl)
    return out


# State that is not re-initialised at the start of an entry but is put back
# to its initial value by clean-up code that runs on every exit of the
# previous entry. Each entry names the structural facts that justify it;
# those facts are checked by the rule given.
CLEANED_ON_EXIT = {
    ('StdOutOutput', '_line_pending'):
        ('flush() leaves it False on both branches (`if pending: newline()`, '
         'newline() stores False) and Machine.run calls VmIo.flush -> '
         'output.flush() in a finally', 'R19.c / R19.d'),
}


@rule('R17.a', ('C17', 'C06', 'C15'), 'no persistent state is read before it is '
      're-initialised (compile: Parser.parse; run: ScriptJob.execute)',
      floor=30,
      decides='compiling a text gives the same result whatever the same '
              'compiler object compiled earlier; nothing carries over from '
              'one run to the next')
def r17a(R):
    A = R.A
    out_iface = A.cls('bardolph.lib.i_lib', 'Output')
    for modname, fname, root_cls in (
            (PARSE, 'Parser.parse', A.cls(PARSE, 'Parser')),
            (SCRIPTJOB, 'ScriptJob.execute', A.cls(SCRIPTJOB, 'ScriptJob'))):
        entry = A.func(modname, fname)
        classes = persistent_classes(A, root_cls)
        if fname.startswith('ScriptJob'):
            classes += [c for c in production_impls(A, out_iface)
                        if c not in classes]
        if len(classes) < 5:
            raise AnalysisError('%s: persistent classes: %s' % (fname, classes))
        sf = StateFlow(A, entry, classes)
        exposed = sf.exposed()
        # clean-up that runs on every exit of the run loop
        cleaned = set()
        if fname.startswith('ScriptJob'):
            run = A.func(MACHINE, 'Machine.run')
            for t in walk_own(run.node):
                if isinstance(t, ast.Try) and t.finalbody and any(
                        isinstance(x, (ast.While, ast.For)) for s in t.body
                        for x in ast.walk(s)):
                    cand = sf.defined_by(t.finalbody, run)
                    # only clean-up that restores the constructor's value
                    # counts: a container emptied by .clear() whose initial
                    # value is an empty container
                    fin_funcs = set()
                    for st in t.finalbody:
                        for c in ast.walk(st):
                            if isinstance(c, ast.Call):
                                fin_funcs |= set(A.rs.reachable(A.callees(run, c)))
                    for v in cand:
                        sites = [(f, n) for f, n, _k in sf.M[v] if f in fin_funcs]
                        init = v[0].methods.get('__init__')
                        init_val = None
                        if init is not None:
                            for n in walk_own(init.node):
                                if isinstance(n, ast.Assign) and \
                                        self_attr(n.targets[0]) == v[1]:
                                    init_val = norm(n.value)
                        if sites and init_val in ('[]', '{}', 'set()', 'deque()',
                                                  'collections.deque()') and all(
                                isinstance(n, ast.Call) and isinstance(n.func, ast.Attribute)
                                and n.func.attr == 'clear' for _f, n in sites):
                            cleaned.add(v)
        # one abstract object per class: where a persistent class holds
        # several objects of one class, each of them must be reset by the
        # method that resets any of them
        for c in classes:
            by_type = {}
            init = c.methods.get('__init__')
            if init is None:
                continue
            for n in walk_own(init.node):
                if isinstance(n, ast.Assign) and self_attr(n.targets[0]) \
                        and isinstance(n.value, ast.Call):
                    t = A.repo.resolve_expr_static(init.module, n.value.func)
                    if isinstance(t, ClassInfo) and t in classes:
                        by_type.setdefault(t, []).append(n.targets[0].attr)
            for t, attrs in by_type.items():
                if len(attrs) < 2:
                    continue
                for m in c.methods.values():
                    if m.name == '__init__':
                        continue
                    reset = set()
                    for call in A.calls_in(m):
                        if isinstance(call.func, ast.Attribute) and \
                                self_attr(call.func.value) in attrs and \
                                call.func.attr in ('clear', 'reset'):
                            reset.add(call.func.value.attr)
                    if reset and m in sf.funcs and m.name in ('clear', 'reset'):
                        R.check(m, 'resets every %s it owns (%s)' % (
                            t.name, ', '.join(sorted(attrs))),
                            reset == set(attrs),
                            '%s.%s resets %s but not %s: that %s keeps its '
                            'contents from the previous %s' % (
                                c.name, m.name, sorted(reset),
                                sorted(set(attrs) - reset), t.name,
                                'compile' if 'parse' in fname else 'run'))
        R.note('%s: persistent classes %s; mutable state variables %d; '
               'functions walked %d' % (fname, sorted(c.name for c in classes),
                                        len(sf.M), len(sf.funcs)))
        for v in sorted(sf.M, key=lambda v: (v[0].name, v[1])):
            cls, attr = v
            if v not in exposed:
                R.ok(entry, '%s.%s re-initialised before use' % (cls.name, attr))
                continue
            if v in cleaned:
                R.ok(entry, '%s.%s reset by the finally of Machine.run'
                     % (cls.name, attr))
                continue
            if (cls.name, attr) in CLEANED_ON_EXIT:
                R.ok(entry, '%s.%s cleaned on exit' % (cls.name, attr),
                     note=CLEANED_ON_EXIT[(cls.name, attr)][0])
                continue
            f, node = sf.where.get(v, (entry, None))
            writers = sorted(set(w.short for w, _n, _k in sf.M[v]))
            R.fail(f, 'self.%s' % attr if f.cls is cls else '%s.%s' % (cls.name, attr),
                   '%s.%s keeps its value from the previous %s: it is written '
                   'by %s and read here before %s has re-initialised it on '
                   'this path, so the result depends on what the same object '
                   'did before' % (cls.name, attr,
                                   'compile' if 'parse' in fname else 'run',
                                   ', '.join(writers[:4]), fname),
                   line=getattr(node, 'lineno', 0))


ALLOWED_GLOBALS = {
    ('bardolph.lib.injection', '_providers'):
        'the injection registry, configured once at start-up',
    ('bardolph.lib.settings', 'Settings._the_config'):
        'configuration, set once by Builder.configure()',
}


MUTATORS = ('append', 'add', 'update', 'clear', 'extend', 'pop', 'remove',
            'setdefault', 'insert', 'popleft', 'appendleft', 'discard',
            'popitem', 'sort', 'reverse')
MUTABLE_CTORS = ('list', 'dict', 'set', 'deque', 'defaultdict', 'OrderedDict',
                 'bytearray', 'collections.deque', 'collections.defaultdict')


def _is_mutable_display(e):
    if isinstance(e, (ast.List, ast.Dict, ast.Set, ast.ListComp, ast.DictComp,
                      ast.SetComp)):
        return True
    return isinstance(e, ast.Call) and norm(e.func) in MUTABLE_CTORS


def shared_mutable_attrs(cls):
    """[(attr, method, construct)]: a container bound once in the class body
    (so shared by every instance), never re-bound per instance by a
    constructor, and changed in place through `self`."""
    out = []
    chain = cls.mro()
    level = {}
    for c in reversed(chain):
        for name, value in c.class_attrs.items():
            if value is not None and _is_mutable_display(value):
                level[name] = c
    if not level:
        return out
    per_instance = set()
    for c in chain:
        init = c.methods.get('__init__')
        if init is not None:
            for n in walk_own(init.node):
                if isinstance(n, (ast.Assign, ast.AnnAssign)):
                    for t in (n.targets if isinstance(n, ast.Assign) else [n.target]):
                        for x in ast.walk(t):
                            if self_attr(x) and isinstance(x.ctx, ast.Store):
                                per_instance.add(x.attr)
    for c in chain:
        for m in c.methods.values():
            for n in walk_own(m.node):
                hit = None
                if isinstance(n, ast.Call) and isinstance(n.func, ast.Attribute) \
                        and n.func.attr in MUTATORS and self_attr(n.func.value):
                    hit = n.func.value.attr
                elif isinstance(n, ast.Subscript) and isinstance(n.ctx, (ast.Store, ast.Del)) \
                        and self_attr(n.value):
                    hit = n.value.attr
                elif isinstance(n, ast.AugAssign) and self_attr(n.target):
                    hit = n.target.attr
                if hit in level and hit not in per_instance:
                    out.append((hit, m, n))
    return out


SHARED_SAMPLE = """
class Sample:
    pending = []
    count = 0
    def __init__(self):
        self.own = []
    def put(self, x):
        self.pending.append(x)
        self.own.append(x)
"""


def shared_state_selfcheck(A):
    """The matcher must find the one shared container of the sample class."""
    from ..index import ClassInfo as CI, FuncInfo as FI
    tree = ast.parse(SHARED_SAMPLE)
    mod = next(iter(A.repo.modules.values()))
    ci = CI(mod, tree.body[0])
    for sub in tree.body[0].body:
        if isinstance(sub, ast.FunctionDef):
            ci.methods[sub.name] = FI(mod, ci, sub)
        elif isinstance(sub, ast.Assign):
            ci.class_attrs[sub.targets[0].id] = sub.value
    got = shared_mutable_attrs(ci)
    if [g[0] for g in got] != ['pending']:
        raise AnalysisError('shared-state matcher self-check failed: %r'
                            % [g[0] for g in got])


@rule('R17.b', ('C17',), 'compile and run code writes no module-level or '
      'class-level mutable state', floor=2,
      decides='nothing carries over from one job to the next through hidden '
              'global state')
def r17b(R):
    A = R.A
    entries = [A.func(PARSE, 'Parser.parse'), A.func(SCRIPTJOB, 'ScriptJob.execute'),
               A.func(SCRIPTJOB, 'ScriptJob.load_string'),
               A.func(SCRIPTJOB, 'ScriptJob.load_file')]
    funcs = A.rs.reachable(entries)
    n = 0
    for f in funcs:
        if not f.module.name.startswith(('bardolph.parser', 'bardolph.vm',
                                         'bardolph.controller.script_job',
                                         'bardolph.runtime', 'bardolph.lib')):
            continue
        n += 1
        bad = []
        for node in walk_own(f.node):
            if isinstance(node, ast.Global):
                for name in node.names:
                    if (f.module.name, name) not in ALLOWED_GLOBALS:
                        bad.append('global %s' % name)
            targets = []
            if isinstance(node, ast.Assign):
                targets = node.targets
            elif isinstance(node, ast.AugAssign):
                targets = [node.target]
            for t in targets:
                base = t.value if isinstance(t, ast.Subscript) else t
                if isinstance(base, ast.Attribute):
                    r = A.repo.resolve_expr_static(f.module, base.value)
                    if isinstance(r, ClassInfo) and not r.is_enum():
                        key = (r.module.name, '%s.%s' % (r.name, base.attr))
                        if key not in ALLOWED_GLOBALS:
                            bad.append(norm(t))
                if isinstance(base, ast.Name) and base.id in f.module.constants \
                        and isinstance(t, ast.Subscript):
                    if (f.module.name, base.id) not in ALLOWED_GLOBALS:
                        bad.append(norm(t))
            if isinstance(node, ast.Call) and isinstance(node.func, ast.Attribute) \
                    and node.func.attr in ('append', 'add', 'update', 'clear',
                                           'extend', 'pop', 'remove', 'setdefault'):
                recv = node.func.value
                if isinstance(recv, ast.Name) and recv.id in f.module.constants \
                        and recv.id not in f.params \
                        and not any(isinstance(x, ast.Assign) and
                                    any(norm(tt) == recv.id for tt in x.targets)
                                    for x in walk_own(f.node)):
                    if (f.module.name, recv.id) not in ALLOWED_GLOBALS:
                        bad.append(norm(node))
                if isinstance(recv, ast.Attribute):
                    r = A.repo.resolve_expr_static(f.module, recv.value)
                    if isinstance(r, ClassInfo) and recv.attr in r.class_attrs:
                        bad.append(norm(node))
        if bad:
            R.fail(f, bad[0], 'module- or class-level state is written by code '
                   'that runs during a compile or a run: it survives into the '
                   'next one')
    # containers bound in a class body and changed through self: one object
    # for every instance, i.e. for every job and every run
    shared_state_selfcheck(A)
    classes = sorted(set(f.cls for f in funcs if f.cls is not None),
                     key=lambda c: c.qualname)
    for c in classes:
        seen_attr = set()
        for attr, m, node in shared_mutable_attrs(c):
            if attr in seen_attr:
                continue
            seen_attr.add(attr)
            R.fail(m, node, '%s.%s is bound once in the class body and changed '
                   'in place through self: every instance - every job, every '
                   'run - shares the one container' % (c.name, attr),
                   line=getattr(node, 'lineno', 0))
    R.ok(entries[0], 'classes scanned for shared class-level containers: %d'
         % len(classes))
    R.ok(entries[0], 'functions reachable from compile/run entries scanned: %d' % n)
    R.ok(entries[1], 'allowed global state: %s' % ', '.join(
        '%s.%s' % k for k in sorted(ALLOWED_GLOBALS)))


@rule('R17.c', ('C17', 'C05'), 'execution does not alter the compiled program',
      floor=3,
      decides='running a compiled job a second time produces the same '
              'commands: the program is not modified by a run')
def r17c(R):
    A = R.A
    bad = []
    scanned = 0
    for f in A.repo.all_functions():
        if f.module.name.startswith('bardolph.parser') or \
                f.module.name.startswith('bardolph.fakes') or \
                f.module.name in ('bardolph.vm.instruction',
                                  'bardolph.controller.lsc_template',
                                  'bardolph.controller.lsc'):
            continue
        scanned += 1
        for node in walk_own(f.node):
            if isinstance(node, ast.Attribute) and isinstance(node.ctx, ast.Store) \
                    and node.attr in ('op_code', 'param0', 'param1') \
                    and not (isinstance(node.value, ast.Name) and node.value.id == 'self'):
                bad.append((f, node))
            if isinstance(node, ast.Call) and isinstance(node.func, ast.Attribute) \
                    and node.func.attr == 'nop' and not node.args:
                bad.append((f, node))
    R.check(A.cls(MACHINE, 'Machine'), 'no store to op_code/param0/param1 and no '
            '.nop() outside the compiler (%d functions scanned)' % scanned,
            not bad, 'an instruction of the compiled program is modified at '
            'run time (%s in %s)' % (norm(bad[0][1]) if bad else '',
                                     bad[0][0].short if bad else ''))
    load = A.func(LOADER, 'Loader.load')
    param = load.params[1]
    muts = [c for c in A.calls_in(load) if isinstance(c.func, ast.Attribute)
            and isinstance(c.func.value, ast.Name) and c.func.value.id == param
            and c.func.attr in ('append', 'clear', 'pop', 'remove', 'insert',
                                'extend', 'sort', 'reverse')]
    stores = [n for n in walk_own(load.node) if isinstance(n, ast.Subscript)
              and isinstance(n.ctx, (ast.Store, ast.Del))
              and isinstance(n.value, ast.Name) and n.value.id == param]
    R.check(load, 'Loader.load only iterates `%s`' % param, not muts and not stores,
            'the loader modifies the program list it is given: the next run of '
            'the same job loads a different program')
    run = A.func(MACHINE, 'Machine.run')
    lv = [norm(n.targets[0]) for n in walk_own(run.node)
          if isinstance(n, ast.Assign) and norm(n.value) == 'Loader()'
          and isinstance(n.targets[0], ast.Name)]
    ok = len(lv) == 1 and any(
        isinstance(c.func, ast.Attribute) and c.func.attr == 'load'
        and norm(c.func.value) == lv[0] for c in A.calls_in(run))
    R.check(run, 'a fresh Loader per run', ok,
            'Machine.run reuses a loader: segments of the previous program '
            'leak into the image')
    sj = A.func(SCRIPTJOB, 'ScriptJob.execute')
    cfg = A.cfg(sj)
    reset = A.calls_nodes(sj, 'Machine.reset')
    runn = A.calls_nodes(sj, 'Machine.run')
    ok = bool(reset and runn) and \
        cfg.find_path([cfg.entry], lambda n: n in runn, avoid=reset) is None
    R.check(sj, 'Machine.reset() before every Machine.run()', ok,
            'a job can be executed without resetting the machine first')
