"""C16 - Compilation depends only on the token sequence; every documented
name is usable."""
import ast

from ..analysis import PROPERTY_TEXT, self_attr
from ..const import EnumVal, Regex, Unfoldable, regex_literal_strings
from ..index import AnalysisError, norm
from ..report import rule
from ..resolve import walk_own
from .c02 import DOCUMENTED_BINOPS

LEX = 'bardolph.parser.lex'
PARSE = 'bardolph.parser.parse'

PROPERTY_TEXT['C16'] = (
    'every operator symbol and every brace / bracket / parenthesis is matched '
    'as a token of its own by an alternative of the token regex that comes '
    'before the catch-all, two-character operators before their one-character '
    'prefixes, and is classified MARK or COMPARE (R16.a); keyword look-up is '
    'case-preserving and cannot yield an internal token class (R06.d); the '
    'abbreviation table is exactly H S B K -> register names (R16.c); the '
    'name regex is letter|_ followed by letters, digits, _; the string '
    'alternative excludes only the double quote, precedes the punctuation '
    'alternative, and the comment cut is made on a whole token (R16.d); the '
    'value parser dispatches { and [ before literals (R16.e); one '
    'time-pattern regex (R11.e); one operator set (R02.a).',
    'equality of the compiled programs across layouts.')

BRACKETS = ['{', '}', '[', ']', '(', ')']


def token_alternatives(A):
    """[(class attribute name or text, regex string)] in the order of the
    '|'.join(...) that builds Lex._TOKEN_SPEC."""
    lex = A.cls(LEX, 'Lex')
    spec = lex.class_attrs.get('_TOKEN_SPEC')
    if not (isinstance(spec, ast.Call) and isinstance(spec.func, ast.Attribute)
            and spec.func.attr == 'join' and spec.args
            and isinstance(spec.args[0], (ast.Tuple, ast.List))):
        raise AnalysisError('Lex._TOKEN_SPEC is not a join over a tuple')
    sep = A.try_fold(spec.func.value, lex)
    if sep != '|':
        raise AnalysisError('Lex._TOKEN_SPEC separator is %r' % sep)
    out = []
    for e in spec.args[0].elts:
        out.append((norm(e), A.fold(e, lex)))
    return lex, out


def finite(regex):
    return regex_literal_strings(regex)


@rule('R16.a', ('C16', 'C02'), 'every operator and bracket is a token of its '
      'own without white space', floor=18,
      decides='operators, braces and brackets need no surrounding white space')
def r16a(R):
    A = R.A
    lex, alts = token_alternatives(A)
    names = [n for n, _r in alts]
    R.check(lex, 'catch-all alternative is last (%s)' % names[-1],
            names[-1].endswith('_DEFAULT_SPEC'),
            'the catch-all alternative is not the last one: it swallows '
            'punctuation together with what follows')
    fin = [(n, finite(r)) for n, r in alts[:-1]]
    mark_list = A.fold(lex.class_attrs['_NON_ALNUM_LIST'], lex)
    cmp_set = finite(A.fold(lex.class_attrs['_CMP_SPEC'], lex)) or set()
    symbols = sorted(s for s in DOCUMENTED_BINOPS if not s.isalpha()) + BRACKETS
    for sym in symbols:
        # first alternative (in order) able to match at a position where
        # `sym` starts: a finite alternative containing sym or a prefix of it
        first = None
        for n, strings in fin:
            if strings is None:
                continue
            if any(sym.startswith(s) for s in strings):
                # within this alternative, regex alternation order decides;
                # ask Python's own regex semantics on the folded constant:
                # longest-listed-first is what the spec must guarantee
                first = (n, strings)
                break
        ok = first is not None and sym in first[1]
        if ok and len(sym) == 2:
            # ordered alternation inside the alternative: the two-character
            # form must be listed before its one-character prefix
            pat = dict(alts)[first[0]]
            order = _ordered_literals(pat)
            if sym in order and sym[0] in order:
                ok = order.index(sym) < order.index(sym[0])
        R.check(lex, 'token %r matched by %s' % (sym, first[0] if first else None),
                ok, 'no alternative before the catch-all matches %r on its own '
                '(or a shorter operator is tried first): without white space it '
                'is glued to its neighbours into one error token' % sym)
        cls_ok = (sym in mark_list and len(sym) == 1) or sym in cmp_set
        R.check(lex, 'token %r classified MARK/COMPARE' % sym, cls_ok,
                '%r is neither in _NON_ALNUM_LIST nor matched by _CMP_SPEC: it '
                'is classified as an error token' % sym)
    # the `in _NON_ALNUM_LIST` test is a substring test: only single
    # characters may be looked up there
    tok = lex.methods['tokens']
    from ..cfg import reachable_without_edges
    cfg = A.cfg(tok)
    conds = [n for n in cfg.nodes if n.kind == 'cond' and isinstance(n.ast, ast.Compare)
             and isinstance(n.ast.ops[0], (ast.In, ast.NotIn))
             and norm(n.ast.comparators[0]).endswith('_NON_ALNUM_LIST')]
    marks = [n for n in cfg.nodes if n.kind == 'stmt' and isinstance(n.ast, ast.Assign)
             and isinstance(A.try_fold(n.ast.value, tok), EnumVal)
             and A.try_fold(n.ast.value, tok).member == 'MARK']
    ok = len(conds) == 1 and bool(marks)
    if ok:
        member_edge = isinstance(conds[0].ast.ops[0], ast.In)
        reach = reachable_without_edges(cfg, cfg.entry, {(conds[0].id, member_edge)})
        ok = all(m.id not in reach for m in marks)
    R.check(tok, 'punctuation classified through _NON_ALNUM_LIST', ok,
            'tokens() no longer classifies punctuation (and only punctuation) '
            'as MARK through the _NON_ALNUM_LIST membership test')


def _ordered_literals(pattern):
    """Literal alternatives of a pattern in the order the regex tries them
    (top-level branches; a character set counts as its members, in order)."""
    import re._parser as sre
    out = []
    p = sre.parse(pattern)
    items = list(p)
    branches = [items]
    if len(items) == 1 and str(items[0][0]) == 'BRANCH':
        branches = [list(b) for b in items[0][1][1]]
    for b in branches:
        strings = regex_literal_strings(_unparse(b)) if False else None
        # expand this branch alone
        cur = ['']
        okb = True
        for op, av in b:
            nm = str(op)
            if nm == 'LITERAL':
                cur = [c + chr(av) for c in cur]
            elif nm == 'IN':
                chars = [chr(a) for o, a in av if str(o) == 'LITERAL']
                if len(chars) != len(av):
                    okb = False
                    break
                cur = [c + ch for c in cur for ch in chars]
            else:
                okb = False
                break
        if okb:
            out += cur
    return out


def _unparse(_b):
    return ''


@rule('R16.c', ('C16',), 'abbreviations: exactly H S B K, each a register name',
      floor=1,
      decides='writing H/S/B/K for hue/saturation/brightness/kelvin does not '
              'change the compiled program')
def r16c(R):
    A = R.A
    lex = A.cls(LEX, 'Lex')
    un = lex.methods['_unabbreviate']
    # evaluate the function for every single letter and a few words: the
    # table is what it maps to something else (dict lookup or if-chain alike)
    import string as _string
    table = {}
    pname = [p for p in un.params if p not in ('self', 'cls')][0]
    for probe in list(_string.ascii_letters) + ['hue', 'HUE', 'Hue', 'HS', 'x1', '_']:
        try:
            got = A.peval(un, {pname: probe})
        except Unfoldable as ex:
            raise AnalysisError('Lex._unabbreviate: cannot evaluate for %r (%s)'
                                % (probe, ex))
        if got != probe:
            table[probe] = got
    regs = A.fold(lex.class_attrs['_REG_LIST'], lex)
    want = {'H': 'hue', 'S': 'saturation', 'B': 'brightness', 'K': 'kelvin'}
    R.check(un, 'abbreviations %s' % table,
            table == want and all(v in regs for v in want.values()),
            'the abbreviation table is not exactly H/S/B/K -> hue/saturation/'
            'brightness/kelvin (each a register the lexer knows)')
    # applied to every match before classification
    tok = lex.methods['tokens']
    ok = any('Lex._unabbreviate' in A.callee_names(tok, c) for c in A.calls_in(tok))
    R.check(tok, 'abbreviations expanded before classification', ok,
            'tokens() no longer expands the abbreviations')


def _charset(av):
    """set of chars of an IN node (literals and ranges)."""
    out = set()
    neg = False
    for o, a in av:
        nm = str(o)
        if nm == 'LITERAL':
            out.add(chr(a))
        elif nm == 'RANGE':
            out |= set(chr(c) for c in range(a[0], a[1] + 1))
        elif nm == 'NEGATE':
            neg = True
        else:
            return None, neg
    return out, neg


@rule('R16.d', ('C16',), 'names: letter or _ then letters, digits, _; strings '
      'exclude only the double quote; comment cut on a whole token', floor=4,
      decides='any name of the documented form is lexed as one name; a quoted '
              'string may contain any characters other than a double quote')
def r16d(R):
    A = R.A
    import re._parser as sre
    import string
    lex, alts = token_alternatives(A)
    name_spec = A.fold(lex.class_attrs['_NAME_SPEC'], lex)
    items = list(sre.parse(name_spec))
    letters = set(string.ascii_letters) | {'_'}
    ok = False
    if len(items) == 2 and str(items[0][0]) == 'IN' and str(items[1][0]) == 'MAX_REPEAT':
        first, neg1 = _charset(items[0][1])
        lo, hi, sub = items[1][1]
        rest = None
        if len(sub) == 1 and str(sub[0][0]) == 'IN':
            rest, neg2 = _charset(sub[0][1])
            ok = (first == letters and not neg1 and lo == 0 and
                  'MAXREPEAT' in str(hi).upper() and not neg2 and
                  rest == letters | set(string.digits))
    R.check(lex, '_NAME_SPEC = %s' % name_spec, ok,
            'the name regex is not [a-zA-Z_][a-zA-Z0-9_]*: some documented '
            'names are split or glued')
    str_spec = A.fold(lex.class_attrs['_LITERAL_STRING_SPEC'], lex)
    sitems = list(sre.parse(str_spec))
    ok = False
    if len(sitems) == 3 and str(sitems[0][0]) == 'LITERAL' and chr(sitems[0][1]) == '"' \
            and str(sitems[2][0]) == 'LITERAL' and chr(sitems[2][1]) == '"' \
            and str(sitems[1][0]) == 'MAX_REPEAT':
        lo, hi, sub = sitems[1][1]
        # body: ([^"] | (?<=\\)")*
        txt = str(sub)
        ok = lo == 0 and 'NOT_LITERAL, 34' in txt
    R.check(lex, '_LITERAL_STRING_SPEC = %s' % str_spec, ok,
            'a quoted string must be "..." whose body excludes only the '
            'double quote')
    names = [n for n, _ in alts]
    def idx(suffix):
        for i, n in enumerate(names):
            if n.endswith(suffix):
                return i
        return None
    i_str, i_punct, i_name, i_num = (idx('_LITERAL_STRING_SPEC'), idx('_NON_ALNUM_SPEC'),
                                     idx('_NAME_SPEC'), idx('_NUMBER_SPEC'))
    R.check(lex, 'alternative order: %s' % names,
            None not in (i_str, i_punct, i_name, i_num) and i_str < i_punct
            and i_str < i_name and i_num < i_name,
            'the string alternative must be tried before names and '
            'punctuation (a # or a keyword inside quotes is part of the '
            'string); numbers before names')
    tok = lex.methods['tokens']
    cut = [n for n in walk_own(tok.node) if isinstance(n, ast.Compare)
           and isinstance(n.ops[0], ast.Eq)
           and A.try_fold(n.comparators[0], tok) == '#']
    R.check(tok, 'comment: whole token == "#" ends the line', len(cut) == 1,
            'the comment cut is no longer made on a whole `#` token')
    # the quotes are stripped and \" unescaped for strings
    scope = [tok] + [t for c in A.calls_in(tok) for t in A.callees(tok, c)
                     if t.cls is lex]
    strip = any(isinstance(n, ast.Subscript) and norm(n.slice) == '1:-1'
                for g in scope for n in walk_own(g.node))
    R.check(tok, 'string tokens lose their quotes', strip,
            'string tokens keep their quotes')


@rule('R16.e', ('C16',), 'the value parser dispatches { and [ before literals',
      floor=2,
      decides='curly braces round a single value and square brackets round a '
              'call are accepted wherever a value is')
def r16e(R):
    A = R.A
    rv = A.func(PARSE, 'Parser._rvalue')
    cfg = A.cfg(rv)
    conds = [n for n in cfg.nodes if n.kind == 'cond' and isinstance(n.ast, ast.Compare)
             and 'content' in norm(n.ast.left)]
    got = [A.try_fold(n.ast.comparators[0], rv) for n in conds[:2]]
    first_const = A.calls_nodes(rv, 'Parser._current_constant')
    # both tests are made, and made before the token is tried as a constant
    # (they may sit behind a test of the token class: a quoted "{" is a
    # string)
    after_const = cfg.reachable_from([m for n in first_const for m, _l in n.succs]) \
        if first_const else []
    ok = got == ['{', '['] and first_const and all(
        c not in after_const and c not in first_const for c in conds[:2])
    R.check(rv, '{ and [ tested before the literal cases', bool(ok),
            '_rvalue no longer recognises { expr } and [ call ] before it '
            'treats the token as a literal')
    curly = A.func(PARSE, 'Parser._rvalue_curly')
    ok = any(A.try_fold(n.comparators[0], curly) == '}'
             for n in walk_own(curly.node) if isinstance(n, ast.Compare))
    R.check(curly, 'closing } required', ok, 'an unbalanced { is accepted')
    cr = A.func(PARSE, 'Parser._call_routine')
    texts = [A.try_fold(n.comparators[0], cr) for n in walk_own(cr.node)
             if isinstance(n, ast.Compare)]
    R.check(cr, 'optional [ ... ] round a call', '[' in texts and ']' in texts,
            '_call_routine no longer accepts the bracketed form')


@rule('R16.f', ('C16', 'C18', 'C19'), 'source lines are split at the newline '
      'character only; string tokens are stripped of their quotes before '
      'escaped quotes are resolved', floor=2,
      decides='white space other than the line break never ends a line (a '
              'string or comment may contain it); a quoted string yields '
              'exactly the characters between its quotes, including a final '
              'backslash')
def r16f(R):
    A = R.A
    lex = A.cls(LEX, 'Lex')
    init = lex.methods['__init__']
    param = init.params[1]
    splits = [c for c in A.calls_in(init) if isinstance(c.func, ast.Attribute)
              and norm(c.func.value) == param]
    ok = False
    what = norm(splits[0]) if splits else '?'
    for c in splits:
        if c.func.attr == 'split' and len(c.args) == 1 and \
                A.try_fold(c.args[0], init) == '\n':
            ok = True
        # library semantics: str.splitlines() also splits at VT, FF, FS, GS,
        # RS, NEL, LS, PS and CR
    R.check(init, what, ok,
            'the source must be cut into lines with split("\\n"): '
            'str.splitlines() (or a wider separator) also breaks lines at form '
            'feed, vertical tab, U+2028 ..., which the language treats as '
            'ordinary white space inside strings and comments')
    tok = lex.methods['tokens']
    # order of the two operations applied to a string token: data flow of the
    # variable through `[1:-1]` and `.replace(<backslash quote>, <quote>)`
    var = None
    ops = []        # in evaluation order

    def visit(e):
        if isinstance(e, ast.Subscript) and isinstance(e.slice, ast.Slice) \
                and norm(e.slice) == '1:-1':
            visit(e.value)
            ops.append('strip')
        elif isinstance(e, ast.Call) and isinstance(e.func, ast.Attribute) \
                and e.func.attr == 'replace' and len(e.args) == 2 \
                and A.try_fold(e.args[0], tok) == '\\"' \
                and A.try_fold(e.args[1], tok) == '"':
            visit(e.func.value)
            ops.append('unescape')
        elif isinstance(e, (ast.Call, ast.Subscript, ast.Attribute)):
            for ch in ast.iter_child_nodes(e):
                visit(ch)
    flat = []
    scope = [tok] + [t for c in A.calls_in(tok) for t in A.callees(tok, c)
                     if t.cls is lex]
    for g in scope:
        cfg = A.cfg(g)
        order = []
        for n in cfg.nodes:
            e = None
            if n.kind == 'stmt' and isinstance(n.ast, ast.Assign):
                e = n.ast.value
            elif n.kind == 'return' and n.ret_expr is not None:
                e = n.ret_expr
            if e is not None:
                ops[:] = []
                visit(e)
                if ops:
                    order.append((n, list(ops)))
        # statements in CFG order along the string branch
        for n, o in sorted(order, key=lambda x: x[0].id):
            flat += o
    R.check(tok, 'string token: %s' % ' then '.join(flat),
            flat == ['strip', 'unescape'],
            'the enclosing quotes must be removed before \\" is turned into ": '
            'otherwise a string ending in a backslash loses it together with '
            'the closing quote ("Deck\\\\" is read as Deck)')


# ---------------------------------------------------------------- R16.g
def classless_types(A):
    """Token classes whose tokens print as the *name of the class* and whose
    name a script may use as an identifier: not string-bearing, not a keyword."""
    import ast as _ast
    hs = A.func('bardolph.parser.token', 'TokenTypes.has_string')
    strings = None
    for n in _ast.walk(hs.node):
        if isinstance(n, _ast.Compare) and isinstance(n.ops[0], _ast.In):
            v = A.try_fold(n.comparators[0], hs)
            if isinstance(v, (tuple, list, set, frozenset)) and \
                    all(isinstance(x, EnumVal) for x in v):
                strings = set(x.member for x in v)
    lexmod = A.repo.module(LEX)
    nk = lexmod.constants.get('_NON_KEYWORDS')
    non_kw = A.try_fold(nk, lexmod) if nk is not None else None
    if strings is None or not isinstance(non_kw, (tuple, list, set, frozenset)):
        raise AnalysisError('has_string / _NON_KEYWORDS tables not found')
    return frozenset(x.member for x in non_kw) - frozenset(strings), strings


@rule('R16.g', ('C16', 'C06'), 'a symbol is never looked up under the class '
      'name of a token that has no text', floor=8,
      decides='names that coincide with the compiler\'s internal token-class '
              'names (eof, compare, unknown ...) behave like any other name: '
              'the end of input or an operator is not mistaken for them')
def r16g(R):
    A = R.A
    from ..tokstate import TokState, TOKEN_EXPRS
    T = A._memo.get('tokstate')
    if T is None:
        T = A._memo['tokstate'] = TokState(A)
    danger, _strings = classless_types(A)
    if not danger:
        raise AnalysisError('no class-named token types found')
    tables = ('Context', 'ContextStack', 'SymbolTable')
    n_sites = 0
    for f in T.funcs:
        cfg = A.cfg(f)
        aliases = T._aliases(f)

        def is_tok_text(e):
            return isinstance(e, ast.Call) and norm(e.func) == 'str' and e.args \
                and (norm(e.args[0]) in TOKEN_EXPRS or
                     (isinstance(e.args[0], ast.Name) and e.args[0].id in aliases))
        # locals bound to str(<token>)
        text_defs = {}
        for n in cfg.nodes:
            if n.kind == 'stmt' and isinstance(n.ast, ast.Assign) and \
                    is_tok_text(n.ast.value):
                for t in n.ast.targets:
                    if isinstance(t, ast.Name):
                        text_defs.setdefault(t.id, []).append(n)
        for n in cfg.nodes:
            for c in n.calls():
                callees = A.callees(f, c)
                if not callees or not all(
                        t.cls is not None and t.cls.name in tables for t in callees):
                    continue
                for a in c.args:
                    where = []
                    if is_tok_text(a):
                        where = [n]
                    elif isinstance(a, ast.Name) and a.id in text_defs:
                        where = text_defs[a.id]
                    for w in where:
                        st = T.state_at(f, w)
                        if st is None:
                            continue
                        n_sites += 1
                        bad = sorted(st & danger)
                        R.check(f, c, not bad,
                                'the key of this symbol-table access is '
                                'str(<current token>) at a point where the '
                                'token can be of class %s, which has no text '
                                'and prints as its class name: with a variable, '
                                'macro or routine called `%s` the end of input '
                                '(or an operator) is taken for that symbol'
                                % ('/'.join(bad), bad[0].lower() if bad else ''),
                                line=c.lineno)
    R.note('symbol-table accesses keyed by token text: %d' % n_sites)
