"""The text generators behind the status and capture pages cannot raise.

C20 ends with "the status and capture pages render without error"; C18 needs
the capture script to be produced at all. Both pages are built by the
Snapshot classes from constant strings, numbers and device values. The rules
below are a small type check of that string building (no types are available
from a type checker here): expression kinds are inferred from constants,
constructor-assigned attributes, `str()`, `len()`, `range` loop variables and
the arithmetic operators, and the operations that Python rejects at run time
for those kinds are reported.
"""
import ast
import string

from ..analysis import PROPERTY_TEXT, self_attr  # noqa: F401
from ..index import AnalysisError, norm
from ..report import rule
from ..resolve import walk_own

SNAPSHOT = 'bardolph.controller.snapshot'
NUM = ('int', 'float')


class Kinds:
    """kind of an expression: 'str' | 'int' | 'float' | 'none' | 'bool' |
    None (unknown)"""

    def __init__(self, A, f):
        self.A, self.f = A, f
        self.loop_ints = set()
        for n in walk_own(f.node):
            if isinstance(n, (ast.For, ast.comprehension)) and \
                    isinstance(n.target, ast.Name) and isinstance(n.iter, ast.Call) \
                    and norm(n.iter.func) == 'range':
                self.loop_ints.add(n.target.id)

    def attr_kind(self, attr):
        cls = self.f.cls
        kinds = set()
        if cls is None:
            return None
        for c in cls.mro() + cls.all_subclasses():
            for m in c.methods.values():
                for n in walk_own(m.node):
                    if isinstance(n, ast.Assign) and any(
                            self_attr(t) == attr for t in n.targets):
                        kinds.add(Kinds(self.A, m).kind(n.value)
                                  if m is not self.f else self.kind_shallow(n.value))
        return kinds.pop() if len(kinds) == 1 else None

    def kind_shallow(self, e):
        if isinstance(e, ast.Constant):
            return self.const_kind(e.value)
        return None

    @staticmethod
    def const_kind(v):
        if v is None:
            return 'none'
        if isinstance(v, bool):
            return 'bool'
        if isinstance(v, int):
            return 'int'
        if isinstance(v, float):
            return 'float'
        if isinstance(v, str):
            return 'str'
        return None

    def kind(self, e):
        if isinstance(e, ast.Constant):
            return self.const_kind(e.value)
        if isinstance(e, ast.JoinedStr):
            return 'str'
        if isinstance(e, ast.Name):
            if e.id in self.loop_ints:
                return 'int'
            return None
        if isinstance(e, ast.Attribute) and self_attr(e):
            return self.attr_kind(e.attr)
        if isinstance(e, ast.Call):
            fn = norm(e.func)
            if fn == 'str' or fn.endswith(('.format', '.ljust', '.rjust', '.join',
                                           '.lower', '.upper', '.strip')):
                return 'str'
            if fn in ('len', 'int', 'round') and not (fn == 'round' and len(e.args) > 1):
                return 'int'
            if fn == 'float':
                return 'float'
            return None
        if isinstance(e, ast.BinOp):
            l, r = self.kind(e.left), self.kind(e.right)
            if isinstance(e.op, ast.Div) and l in NUM + ('bool',) and r in NUM + ('bool',):
                return 'float'
            if isinstance(e.op, (ast.Add, ast.Sub, ast.Mult, ast.FloorDiv, ast.Mod,
                                 ast.Pow)):
                if l == 'str' and r == 'str' and isinstance(e.op, ast.Add):
                    return 'str'
                if isinstance(e.op, ast.Mult) and {l, r} == {'str', 'int'}:
                    return 'str'
                if isinstance(e.op, ast.Mod) and l == 'str':
                    return 'str'
                if l in NUM and r in NUM:
                    return 'float' if 'float' in (l, r) else 'int'
            return None
        if isinstance(e, ast.IfExp):
            a, b = self.kind(e.body), self.kind(e.orelse)
            return a if a == b else None
        if isinstance(e, ast.BoolOp) and isinstance(e.op, ast.Or):
            ks = [self.kind(v) for v in e.values]
            return ks[-1] if ks[-1] in NUM else None
        return None

    # ---- what Python rejects
    def binop_error(self, e):
        l, r = self.kind(e.left), self.kind(e.right)
        if l is None or r is None:
            return None
        op = type(e.op).__name__
        if isinstance(e.op, ast.Add):
            if (l == 'str') != (r == 'str') or 'none' in (l, r):
                return 'cannot add %s and %s' % (l, r)
        elif isinstance(e.op, ast.Mult):
            if 'str' in (l, r) and not ({l, r} <= {'str', 'int', 'bool'}
                                        and (l, r) != ('str', 'str')):
                return 'cannot multiply %s by %s' % (l, r)
            if 'none' in (l, r):
                return 'cannot multiply %s by %s' % (l, r)
        elif isinstance(e.op, ast.Mod):
            if l != 'str' and ('str' in (l, r) or 'none' in (l, r)):
                return 'unsupported %% between %s and %s' % (l, r)
        else:
            if 'str' in (l, r) or 'none' in (l, r):
                return 'unsupported %s between %s and %s' % (op, l, r)
        return None


def _spec_error(spec, kind):
    """why `format(value of kind, spec)` raises, or None"""
    if not spec or kind is None or '{' in spec:
        return None
    typ = spec[-1] if spec[-1].isalpha() or spec[-1] == '%' else ''
    body = spec[:-1] if typ else spec
    has_prec = '.' in body
    if kind in ('int', 'bool'):
        if typ in ('s',):
            return 'type code s with a number'
        if has_prec and typ in ('', 'd', 'b', 'o', 'x', 'X', 'c', 'n'):
            return 'a precision is not allowed for an integer'
    if kind == 'float' and typ in ('d', 'b', 'o', 'x', 'X', 'c'):
        return 'type code %s with a float' % typ
    if kind == 'str' and typ in ('d', 'b', 'o', 'x', 'X', 'c', 'f', 'F', 'e',
                                 'E', 'g', 'G', 'n', '%'):
        return 'type code %s with a string' % typ
    if kind == 'none' and (typ or body):
        return 'a format spec with None'
    return None


@rule('R20.o', ('C20', 'C18'), 'the status / capture text is built by '
      'operations Python accepts for the kinds of their operands', floor=20,
      decides='the status and capture pages render without error; the capture '
              'script is produced')
def r20o(R):
    A = R.A
    mod = A.repo.module(SNAPSHOT)
    n_ops = 0
    for cls in mod.classes.values():
        for m in cls.methods.values():
            K = Kinds(A, m)
            bad = []
            for e in walk_own(m.node):
                if isinstance(e, ast.BinOp):
                    n_ops += 1
                    err = K.binop_error(e)
                    if err:
                        bad.append((e, 'TypeError: %s' % err))
                    # a format layout put together from pieces: the width
                    # must be a whole number
                    if isinstance(e.op, ast.Add) and isinstance(e.right, ast.Call) \
                            and norm(e.right.func) == 'str' and e.right.args \
                            and isinstance(e.left, ast.Constant) \
                            and isinstance(e.left.value, str) \
                            and '{' in e.left.value \
                            and K.kind(e.right.args[0]) == 'float':
                        bad.append((e, 'ValueError: the field width spliced '
                                    'into the format layout is a float (`/` '
                                    'yields 15.0, 4.75 ...): the spec gets a '
                                    'precision, which an integer value rejects'))
                if isinstance(e, ast.Call) and isinstance(e.func, ast.Attribute) \
                        and e.func.attr == 'format':
                    fmt = A.try_fold(e.func.value, m)
                    if not isinstance(fmt, str):
                        continue
                    n_ops += 1
                    auto = 0
                    try:
                        fields = list(string.Formatter().parse(fmt))
                    except ValueError as ex:
                        bad.append((e, 'ValueError: %s' % ex))
                        continue
                    for _lit, name, spec, _conv in fields:
                        if name is None:
                            continue
                        if name == '':
                            pos, auto = auto, auto + 1
                        elif name.isdecimal():
                            pos = int(name)
                        else:
                            continue
                        if pos >= len(e.args):
                            if not any(isinstance(a, ast.Starred) for a in e.args):
                                bad.append((e, 'IndexError: field %d has no '
                                            'argument' % pos))
                            continue
                        err = _spec_error(spec, K.kind(e.args[pos]))
                        if err:
                            bad.append((e, 'ValueError / TypeError: spec %r: %s'
                                        % (spec, err)))
            for e, why in bad:
                R.fail(m, e, '%s - every request for the page that reaches '
                       'this statement fails' % why, line=e.lineno)
            if not bad:
                R.ok(m, 'string operations of %s' % m.short)
    if n_ops < 20:
        raise AnalysisError('snapshot: only %d string operations found' % n_ops)


@rule('R18.f', ('C18', 'C20'), 'an override of a method that prepares the '
      'object calls the method it overrides', floor=2,
      decides='the text buffer exists before the first line is appended '
              '(the pages render, the capture script is produced)')
def r18f(R):
    A = R.A
    mod = A.repo.module(SNAPSHOT)
    seen = 0
    for cls in mod.classes.values():
        for name, m in cls.methods.items():
            base = None
            for b in cls.mro()[1:]:
                if name in b.methods:
                    base = b.methods[name]
                    break
            if base is None:
                continue
            stores = set(t.attr for n in walk_own(base.node)
                         if isinstance(n, (ast.Assign, ast.AugAssign))
                         for t in (n.targets if isinstance(n, ast.Assign)
                                   else [n.target]) if self_attr(t))
            if not stores:
                continue
            seen += 1
            cfg = A.cfg(m)
            supers = [n for n in cfg.nodes for c in n.calls()
                      if base in A.callees(m, c)]
            own = set(t.attr for n in walk_own(m.node)
                      if isinstance(n, ast.Assign) for t in n.targets
                      if self_attr(t))
            p = cfg.find_path([cfg.entry], lambda n: n is cfg.exit, avoid=supers) \
                if supers else []
            R.check(m, '%s -> %s (stores %s)' % (m.short, base.short,
                                                 ', '.join(sorted(stores))),
                    (bool(supers) and p is None) or stores <= own,
                    '%s overrides %s, which gives %s their values, without '
                    'calling it on every path: the attribute keeps the '
                    'constructor\'s None / is missing and the first use '
                    'raises' % (m.short, base.short, ', '.join(sorted(stores))))
    if seen < 2:
        raise AnalysisError('snapshot: only %d preparing overrides found' % seen)
