"""The text generators behind the status and capture pages cannot raise.

C20 ends with "the status and capture pages render without error"; C18 needs
the capture script to be produced at all. Both pages are built by the
Snapshot classes from constant strings, numbers and device values. The rules
below are a small type check of that string building (no types are available
from a type checker here): expression kinds are inferred from constants,
constructor-assigned attributes, `str()`, `len()`, `range` loop variables and
the arithmetic operators, and the operations that Python rejects at run time
for those kinds are reported.
"""
import ast
import string

from ..analysis import PROPERTY_TEXT, self_attr  # noqa: F401
from ..cfg import reachable_without_edges
from ..index import AnalysisError, norm
from ..report import rule
from ..resolve import walk_own

SNAPSHOT = 'bardolph.controller.snapshot'
NUM = ('int', 'float')


class Kinds:
    """kind of an expression: 'str' | 'int' | 'float' | 'none' | 'bool' |
    None (unknown)"""

    def __init__(self, A, f):
        self.A, self.f = A, f
        self.loop_ints = set()
        for n in walk_own(f.node):
            if isinstance(n, (ast.For, ast.comprehension)) and \
                    isinstance(n.target, ast.Name) and isinstance(n.iter, ast.Call) \
                    and norm(n.iter.func) == 'range':
                self.loop_ints.add(n.target.id)

    def attr_kind(self, attr):
        cls = self.f.cls
        kinds = set()
        if cls is None:
            return None
        for c in cls.mro() + cls.all_subclasses():
            for m in c.methods.values():
                for n in walk_own(m.node):
                    if isinstance(n, ast.Assign) and any(
                            self_attr(t) == attr for t in n.targets):
                        kinds.add(Kinds(self.A, m).kind(n.value)
                                  if m is not self.f else self.kind_shallow(n.value))
        return kinds.pop() if len(kinds) == 1 else None

    def kind_shallow(self, e):
        if isinstance(e, ast.Constant):
            return self.const_kind(e.value)
        return None

    @staticmethod
    def const_kind(v):
        if v is None:
            return 'none'
        if isinstance(v, bool):
            return 'bool'
        if isinstance(v, int):
            return 'int'
        if isinstance(v, float):
            return 'float'
        if isinstance(v, str):
            return 'str'
        return None

    def kind(self, e):
        if isinstance(e, ast.Constant):
            return self.const_kind(e.value)
        if isinstance(e, ast.JoinedStr):
            return 'str'
        if isinstance(e, ast.Name):
            if e.id in self.loop_ints:
                return 'int'
            return None
        if isinstance(e, ast.Attribute) and self_attr(e):
            return self.attr_kind(e.attr)
        if isinstance(e, ast.Call):
            fn = norm(e.func)
            if fn == 'str' or fn.endswith(('.format', '.ljust', '.rjust', '.join',
                                           '.lower', '.upper', '.strip')):
                return 'str'
            if fn in ('len', 'int', 'round') and not (fn == 'round' and len(e.args) > 1):
                return 'int'
            if fn == 'float':
                return 'float'
            return None
        if isinstance(e, ast.BinOp):
            l, r = self.kind(e.left), self.kind(e.right)
            if isinstance(e.op, ast.Div) and l in NUM + ('bool',) and r in NUM + ('bool',):
                return 'float'
            if isinstance(e.op, (ast.Add, ast.Sub, ast.Mult, ast.FloorDiv, ast.Mod,
                                 ast.Pow)):
                if l == 'str' and r == 'str' and isinstance(e.op, ast.Add):
                    return 'str'
                if isinstance(e.op, ast.Mult) and {l, r} == {'str', 'int'}:
                    return 'str'
                if isinstance(e.op, ast.Mod) and l == 'str':
                    return 'str'
                if l in NUM and r in NUM:
                    return 'float' if 'float' in (l, r) else 'int'
            return None
        if isinstance(e, ast.IfExp):
            a, b = self.kind(e.body), self.kind(e.orelse)
            return a if a == b else None
        if isinstance(e, ast.BoolOp) and isinstance(e.op, ast.Or):
            ks = [self.kind(v) for v in e.values]
            return ks[-1] if ks[-1] in NUM else None
        return None

    # ---- what Python rejects
    def binop_error(self, e):
        l, r = self.kind(e.left), self.kind(e.right)
        if l is None or r is None:
            return None
        op = type(e.op).__name__
        if isinstance(e.op, ast.Add):
            if (l == 'str') != (r == 'str') or 'none' in (l, r):
                return 'cannot add %s and %s' % (l, r)
        elif isinstance(e.op, ast.Mult):
            if 'str' in (l, r) and not ({l, r} <= {'str', 'int', 'bool'}
                                        and (l, r) != ('str', 'str')):
                return 'cannot multiply %s by %s' % (l, r)
            if 'none' in (l, r):
                return 'cannot multiply %s by %s' % (l, r)
        elif isinstance(e.op, ast.Mod):
            if l != 'str' and ('str' in (l, r) or 'none' in (l, r)):
                return 'unsupported %% between %s and %s' % (l, r)
        else:
            if 'str' in (l, r) or 'none' in (l, r):
                return 'unsupported %s between %s and %s' % (op, l, r)
        return None


def _spec_error(spec, kind):
    """why `format(value of kind, spec)` raises, or None"""
    if not spec or kind is None or '{' in spec:
        return None
    typ = spec[-1] if spec[-1].isalpha() or spec[-1] == '%' else ''
    body = spec[:-1] if typ else spec
    has_prec = '.' in body
    if kind in ('int', 'bool'):
        if typ in ('s',):
            return 'type code s with a number'
        if has_prec and typ in ('', 'd', 'b', 'o', 'x', 'X', 'c', 'n'):
            return 'a precision is not allowed for an integer'
    if kind == 'float' and typ in ('d', 'b', 'o', 'x', 'X', 'c'):
        return 'type code %s with a float' % typ
    if kind == 'str' and typ in ('d', 'b', 'o', 'x', 'X', 'c', 'f', 'F', 'e',
                                 'E', 'g', 'G', 'n', '%'):
        return 'type code %s with a string' % typ
    if kind == 'none' and (typ or body):
        return 'a format spec with None'
    return None


@rule('R20.o', ('C20', 'C18'), 'the status / capture text is built by '
      'operations Python accepts for the kinds of their operands', floor=8,
      decides='the status and capture pages render without error; the capture '
              'script is produced')
def r20o(R):
    A = R.A
    mod = A.repo.module(SNAPSHOT)
    n_ops = 0
    # the generators the web tier builds its pages with, and their bases
    used = set()
    for f in A.repo.all_functions('web'):
        for c in A.calls_in(f):
            r = A.repo.resolve_expr_static(f.module, c.func)
            if r in mod.classes.values():
                used.update(r.mro())
    if not used:
        raise AnalysisError('web tier: no snapshot generator is instantiated')
    for cls in mod.classes.values():
        if cls not in used:
            continue
        for m in cls.methods.values():
            K = Kinds(A, m)
            bad = []
            for e in walk_own(m.node):
                if isinstance(e, ast.BinOp):
                    n_ops += 1
                    err = K.binop_error(e)
                    if err:
                        bad.append((e, 'TypeError: %s' % err))
                    # a format layout put together from pieces: the width
                    # must be a whole number
                    if isinstance(e.op, ast.Add) and isinstance(e.right, ast.Call) \
                            and norm(e.right.func) == 'str' and e.right.args \
                            and isinstance(e.left, ast.Constant) \
                            and isinstance(e.left.value, str) \
                            and '{' in e.left.value \
                            and K.kind(e.right.args[0]) == 'float':
                        bad.append((e, 'ValueError: the field width spliced '
                                    'into the format layout is a float (`/` '
                                    'yields 15.0, 4.75 ...): the spec gets a '
                                    'precision, which an integer value rejects'))
                if isinstance(e, ast.Call) and isinstance(e.func, ast.Attribute) \
                        and e.func.attr == 'format':
                    fmt = A.try_fold(e.func.value, m)
                    if not isinstance(fmt, str):
                        continue
                    n_ops += 1
                    auto = 0
                    try:
                        fields = list(string.Formatter().parse(fmt))
                    except ValueError as ex:
                        bad.append((e, 'ValueError: %s' % ex))
                        continue
                    for _lit, name, spec, _conv in fields:
                        if name is None:
                            continue
                        if name == '':
                            pos, auto = auto, auto + 1
                        elif name.isdecimal():
                            pos = int(name)
                        else:
                            continue
                        if pos >= len(e.args):
                            if not any(isinstance(a, ast.Starred) for a in e.args):
                                bad.append((e, 'IndexError: field %d has no '
                                            'argument' % pos))
                            continue
                        err = _spec_error(spec, K.kind(e.args[pos]))
                        if err:
                            bad.append((e, 'ValueError / TypeError: spec %r: %s'
                                        % (spec, err)))
            for e, why in bad:
                R.fail(m, e, '%s - every request for the page that reaches '
                       'this statement fails' % why, line=e.lineno)
            if not bad:
                R.ok(m, 'string operations of %s' % m.short)
    if n_ops < 8:
        raise AnalysisError('snapshot: only %d string operations found' % n_ops)


@rule('R18.f', ('C18', 'C20'), 'an override of a method that prepares the '
      'object calls the method it overrides', floor=1,
      decides='the text buffer exists before the first line is appended '
              '(the pages render, the capture script is produced)')
def r18f(R):
    A = R.A
    mod = A.repo.module(SNAPSHOT)
    seen = 0
    for cls in mod.classes.values():
        for name, m in cls.methods.items():
            base = None
            for b in cls.mro()[1:]:
                if name in b.methods:
                    base = b.methods[name]
                    break
            if base is None:
                continue
            stores = set(t.attr for n in walk_own(base.node)
                         if isinstance(n, (ast.Assign, ast.AugAssign))
                         for t in (n.targets if isinstance(n, ast.Assign)
                                   else [n.target]) if self_attr(t))
            if not stores:
                continue
            seen += 1
            cfg = A.cfg(m)
            supers = [n for n in cfg.nodes for c in n.calls()
                      if base in A.callees(m, c)]
            own = set(t.attr for n in walk_own(m.node)
                      if isinstance(n, ast.Assign) for t in n.targets
                      if self_attr(t))
            p = cfg.find_path([cfg.entry], lambda n: n is cfg.exit, avoid=supers) \
                if supers else []
            R.check(m, '%s -> %s (stores %s)' % (m.short, base.short,
                                                 ', '.join(sorted(stores))),
                    (bool(supers) and p is None) or stores <= own,
                    '%s overrides %s, which gives %s their values, without '
                    'calling it on every path: the attribute keeps the '
                    'constructor\'s None / is missing and the first use '
                    'raises' % (m.short, base.short, ', '.join(sorted(stores))))
    if seen < 1:
        raise AnalysisError('snapshot: no preparing override found')


# ------------------------------------------------------------------ R06.o
PARSE = 'bardolph.parser.parse'
LOOP = 'bardolph.parser.loop_parser'


def _declares(A, f, c):
    return 'Context.add_variable' in A.callee_names(f, c)


def _parses_value(c):
    return isinstance(c.func, ast.Attribute) and c.func.attr in ('rvalue', '_rvalue')


def _order_violation(A, root, scope):
    """Is there an execution of `root` (calls into `scope` functions followed)
    in which a declaration precedes the parsing of a value? -> (function,
    declaring call, value call) or None."""
    memo = {}

    def summary(g, stack=()):
        """(may declare, may parse a value, violation) for g"""
        if g in memo:
            return memo[g]
        if g in stack:
            return (False, False, None)
        memo[g] = (False, False, None)
        cfg = A.cfg(g)
        firsts, seconds = [], []
        viol = None
        for n in cfg.nodes:
            seen_first = None
            for c in n.calls():
                f1 = _declares(A, g, c)
                f2 = _parses_value(c)
                for h in A.callees(g, c):
                    if h in scope and h is not g:
                        d, v, w = summary(h, stack + (g,))
                        f1, f2 = f1 or d, f2 or v
                        if w and viol is None:
                            viol = w
                if f2 and seen_first is not None and viol is None:
                    viol = (g, seen_first, c)
                if f1:
                    firsts.append((n, c))
                    seen_first = seen_first or c
                if f2:
                    seconds.append((n, c))
        if viol is None:
            for n, c in firsts:
                after = set(x.id for x in cfg.reachable_from(
                    [m for m, _l in n.succs]))
                for m, c2 in seconds:
                    if m.id in after:
                        viol = (g, c, c2)
                        break
                if viol:
                    break
        memo[g] = (bool(firsts), bool(seconds), viol)
        return memo[g]
    return summary(root)


@rule('R06.o', ('C06', 'C04'), 'a variable is declared only after the '
      'expressions that give it its first value have been compiled',
      floor=2,
      decides='using an undefined name is rejected - also when the name is '
              'the very variable the statement is about to create '
              '(`assign x {x + 1}`, `repeat with i from i to 5`)')
def r06o(R):
    A = R.A
    asg = A.func(PARSE, 'Parser._assignment')
    lp = A.cls(LOOP, 'LoopParser')
    pre = lp.methods['_pre_loop']
    scope_loop = set(m for c in lp.mro() for m in c.methods.values()
                     if m.name not in ('_loop_body', 'repeat', '_loop_post'))
    for root, scope, what in ((asg, {asg}, 'the assigned variable'),
                              (pre, scope_loop, 'the loop variables')):
        d, v, viol = _order_violation(A, root, scope)
        if not (d and v):
            raise AnalysisError('%s: declaration / value parsing not found '
                                '(declares=%s, parses=%s)' % (root.short, d, v))
        R.check(root, '%s: every value is parsed before %s is declared'
                % (root.short, what), viol is None,
                'in %s the name is entered into the symbol table (%s) before '
                'a value is parsed (%s): an expression that mentions the '
                'not-yet-existing variable compiles, and the VM then pushes '
                'None ("pushing None onto eval stack") and stops' % (
                    viol[0].short if viol else '', norm(viol[1])[:50] if viol else '',
                    norm(viol[2])[:50] if viol else ''))


# ------------------------------------------------------------------ R09.h
CLOCK = 'bardolph.lib.clock'


@rule('R09.h', ('C09', 'C11'), 'the clock never blocks on its tick event '
      'without having seen the run flag set', floor=1,
      decides='a delay or time-of-day wait entered after the clock was '
              'stopped returns at once: the stopped script ends and the next '
              'job starts (stop() wakes nobody; only ticks do, and the ticker '
              'ends with the flag)')
def r09h(R):
    A = R.A
    clock = A.cls(CLOCK, 'Clock')
    stop = clock.methods['stop']
    flags = [t.attr for n in walk_own(stop.node) if isinstance(n, ast.Assign)
             and isinstance(n.value, ast.Constant) and n.value.value is False
             for t in n.targets if self_attr(t)]
    if len(flags) != 1:
        raise AnalysisError('Clock.stop: run flag not found (%s)' % flags)
    flag = 'self.' + flags[0]
    seen = 0
    for m in clock.methods.values():
        cfg = A.cfg(m)
        for n in cfg.nodes:
            for c in n.calls():
                if not (isinstance(c.func, ast.Attribute) and c.func.attr == 'wait'
                        and self_attr(c.func.value)):
                    continue
                if c.args or c.keywords:
                    continue            # a wait with a timeout comes back
                seen += 1
                facts = A.path_facts(m, n)
                R.check(m, '%s guarded by %s' % (norm(c), flag),
                        (flag, True) in facts,
                        'this wait has no timeout and is reached without a '
                        'test of %s: stop() only clears the flag and the '
                        'ticker thread stops firing once it sees that, so a '
                        'job thread that gets here after the last tick never '
                        'wakes up - the stopped script hangs and the queue '
                        'behind it is never served' % flag, line=c.lineno)
    if seen < 1:
        raise AnalysisError('Clock: no blocking wait on the tick event found')


# ------------------------------------------------------------------ R16.i
@rule('R16.i', ('C16', 'C03'), 'a parameter list is ended only by something '
      'that cannot be a parameter: a routine name (the body starts with a '
      'call), never a variable or macro of the same name', floor=1,
      decides='any documented name can be used as a parameter, also one that '
              'is already a global variable or a macro (the parameter hides '
              'it inside the routine)')
def r16i(R):
    from ..const import EnumVal
    A = R.A
    f = A.func(PARSE, 'Parser._param_decl')
    ctx = A.cls('bardolph.parser.context', 'Context')
    n = 0
    for c in A.calls_in(f):
        for t in A.callees(f, c):
            if t.cls is not ctx:
                continue
            if not t.name.startswith(('has_', 'get_', 'in_')) and \
                    t.name != '__contains__':
                continue                # add_variable and the like
            n += 1
            ok = 'routine' in t.name
            if not ok and 'typed' in t.name:
                kinds = [A.try_fold(a, f) for a in c.args[1:]]
                ok = bool(kinds) and all(
                    isinstance(k, EnumVal) and k.member == 'ROUTINE' for k in kinds)
            R.check(f, norm(c), ok,
                    'the parameter list consults the symbol table for more '
                    'than routine names (%s): a second or later parameter '
                    'spelled like an existing variable or macro ends the '
                    'list, is taken for the start of the body and the '
                    'script is rejected with "Unknown name"' % t.short,
                    line=c.lineno)
    if n < 1:
        raise AnalysisError('_param_decl: no symbol-table test found')


# ------------------------------------------------------------------ R20.p
WEBAPP = 'web.web_app'


def _empty_atoms(var):
    return {('len(%s) == 0' % var, True), ('0 == len(%s)' % var, True),
            (var, False), ("%s == ''" % var, True), ("'' == %s" % var, True),
            ('len(%s) > 0' % var, False), ('len(%s)' % var, False),
            ('len(%s) != 0' % var, False), ('%s is None' % var, True)}


@rule('R20.p', ('C20',), 'a path or title given by the manifest is used as it '
      'is; the derivation from the file name applies only when none is given',
      floor=2,
      decides='a request for path p starts the script the manifest lists for '
              'p: the key a script is registered under is the listed path '
              'itself (default paths and titles follow the documented '
              'derivation)')
def r20p(R):
    A = R.A
    app = A.cls(WEBAPP, 'WebApp')
    for mname, key in (('get_script_path', 'path'), ('get_script_title', 'title')):
        m = app.methods[mname]
        cfg = A.cfg(m)
        rets = [r for r in cfg.return_nodes() if r.ret_expr is not None]
        gets = [n for n in cfg.nodes if n.kind == 'stmt' and isinstance(n.ast, ast.Assign)
                and isinstance(n.ast.value, ast.Call)
                and isinstance(n.ast.value.func, ast.Attribute)
                and n.ast.value.func.attr == 'get' and n.ast.value.args
                and A.try_fold(n.ast.value.args[0], m) == key
                and isinstance(n.ast.targets[0], ast.Name)]
        if len(gets) != 1 or not rets:
            R.check(m, mname, False, 'the manifest\'s %r is not read with '
                    '.get(%r, <empty>) into a local' % (key, key))
            continue
        var = gets[0].ast.targets[0].id
        stores = [n for n in cfg.nodes if n.kind == 'stmt'
                  and isinstance(n.ast, (ast.Assign, ast.AugAssign))
                  and any(isinstance(t, ast.Name) and t.id == var for t in (
                      n.ast.targets if isinstance(n.ast, ast.Assign)
                      else [n.ast.target]))]
        given = [n for n in stores if isinstance(n.ast, ast.Assign)
                 and isinstance(n.ast.value, ast.Call)
                 and isinstance(n.ast.value.func, ast.Attribute)
                 and n.ast.value.func.attr == 'get' and n.ast.value.args
                 and A.try_fold(n.ast.value.args[0], m) == key]
        if len(given) != 1:
            R.check(m, mname, False, 'the manifest\'s %r is not read with '
                    '.get(%r, <empty>)' % (key, key))
            continue
        empties = _empty_atoms(var)
        # tests of the manifest's own value (nothing re-binds it before)
        tests = []
        for t in cfg.nodes:
            if t.kind != 'cond':
                continue
            atom, pol = A.canonical_atom(t.ast)
            for text, truth in empties:
                if atom == text:
                    lab = truth if pol else not truth
                    if not any(t in cfg.reachable_from([x for x, _l in s_.succs])
                               for s_ in stores if s_ is not given[0]):
                        tests.append((t, lab))
        def derived_only(n):
            # reachable only through a "nothing given" edge
            return any(n.id not in reachable_without_edges(
                cfg, cfg.entry, {(t.id, lab)}) for t, lab in tests)
        bad = [n for n in stores if n is not given[0] and not derived_only(n)]
        # what is returned when something was given is that value itself
        wrong_ret = [r for r in rets if not derived_only(r)
                     and not (isinstance(r.ret_expr, ast.Name)
                              and r.ret_expr.id == var)]
        if wrong_ret and not bad:
            R.check(m, '%s: the given %s is returned as it is' % (mname, key),
                    False, 'when the manifest gives a %s, %s returns `%s` '
                    'instead of the given value' % (
                        key, mname, norm(wrong_ret[0].ret_expr)[:50]))
            continue
        R.check(m, '%s: %d derivation step(s), all under "no %s given"'
                % (mname, len(stores) - 1, key), not bad,
                'the %s the manifest gives is modified (%s) although it is '
                'not empty: the script is registered under / shown with '
                'another string than the one listed - a request for the '
                'listed path finds nothing, and an unlisted path can start '
                'it' % (key, norm(bad[0].ast)[:60] if bad else ''),
                line=bad[0].ast.lineno if bad else 0)
