"""Rules added after the fourth round of seeded changes and the second batch
of triaged mutants: emitted-code templates (evaluation-stack balance, guarded
divisions), one order relation in SortedList, white-space blindness of the
token regex."""
import ast

from ..analysis import PROPERTY_TEXT, self_attr  # noqa: F401
from ..const import EnumVal
from ..index import AnalysisError, norm
from ..report import rule
from ..resolve import walk_own
from .. import template as T

MACHINE = 'bardolph.vm.machine'
LOOP = 'bardolph.parser.loop_parser'
SORTED = 'bardolph.lib.sorted_list'
LEX = 'bardolph.parser.lex'


def _stack_neutral_ops(A):
    """op-codes whose Machine handler does not touch the evaluation stack"""
    machine = A.cls(MACHINE, 'Machine')
    members = A.cls('bardolph.vm.vm_codes', 'OpCode').enum_members()
    neutral, touching = set(), set()
    for m in members:
        h = machine.lookup('_' + m.lower())
        if h is None:
            continue
        nodes = [h.node] + ([h.original_node] if getattr(
            h, 'original_node', None) is not None else [])
        if any(isinstance(x, ast.Attribute) and x.attr == '_vm_math'
               for nd in nodes for x in ast.walk(nd)):
            touching.add(m)
        else:
            neutral.add(m)
    if not {'PUSH', 'PUSHQ', 'POP', 'OP'} <= touching:
        raise AnalysisError('Machine: PUSH/PUSHQ/POP/OP handlers no longer '
                            'use the evaluation stack (%s)' % sorted(touching))
    return neutral


def _templates(A):
    neutral = _stack_neutral_ops(A)
    out = []
    for f in A.repo.all_functions('bardolph.parser'):
        for first, tmpl in T.segments(A, f):
            if isinstance(tmpl, Exception):
                continue
            res = T.execute(tmpl, neutral)
            out.append((f, first, tmpl, res))
    return out


@rule('R01.l', ('C01', 'C04', 'C05'), 'emitted instruction sequences leave the '
      'evaluation stack as they found it, on both arms of every emitted if',
      floor=3,
      decides='values pushed for one computation are consumed by it: a loop '
              'prologue leaves nothing behind for a later POP to pick up and '
              'takes nothing that is not its own')
def r01l(R):
    A = R.A
    seen = 0
    for f, first, tmpl, res in _templates(A):
        if f.cls is not None and f.cls.name == 'CodeGen' and not res.ifs:
            # building blocks: binop leaves its result on purpose
            continue
        # an if that is opened in one run of statements and closed in another
        # (Python code in between) is R05.b's business
        if any(p[0] in ('opaque', 'structure') for p in res.problems):
            continue
        seen += 1
        bad = [p for p in res.problems if p[0] == 'imbalance']
        what = 'sequence from line-independent statement `%s`' % norm(first)[:60]
        if bad:
            R.fail(f, what, bad[0][1])
            continue
        R.check(f, what + ': net stack effect %+d' % res.net, res.net == 0,
                'the emitted sequence changes the depth of the evaluation '
                'stack by %+d: a value is left behind (the next POP of an '
                'enclosing computation gets it) or one is taken that the '
                'sequence did not push' % res.net)
    if seen < 3:
        raise AnalysisError('only %d emitted sequences analysed' % seen)


@rule('R04.k', ('C04', 'C01'), 'every division a loop prologue emits is '
      'guarded by an emitted test that its divisor is not zero', floor=2,
      decides='a loop that runs once (or not at all) is set up without a '
              'division by zero, which would stop the script')
def r04k(R):
    A = R.A
    seen = 0
    for f, first, tmpl, res in _templates(A):
        for dividend, divisor, conds in res.divisions:
            seen += 1
            R.check(f, '%s / %s under %s' % (
                T.show(dividend), T.show(divisor),
                ' and '.join('%s%s' % ('' if t else 'not ', T.show(c))
                             for c, t in conds) or 'no condition'),
                T.nonzero_on_path(divisor, conds),
                'the emitted code divides by %s, and no emitted test on the '
                'way excludes %s: the VM raises ZeroDivisionError, the machine '
                'stops and the rest of the script is not executed' % (
                    T.show(divisor),
                    'zero' if divisor[0] != 'op' else
                    '%s == %s' % (T.show(divisor[2]), T.show(divisor[3]))))
    if seen < 2:
        raise AnalysisError('only %d emitted divisions found' % seen)


# ------------------------------------------------------------------ R13.g
ORDER_FUNCS = {'sorted', 'sort', 'bisect', 'bisect_left', 'bisect_right',
               'insort', 'insort_left', 'insort_right', 'min', 'max'}


@rule('R13.g', ('C13', 'C04'), 'SortedList orders by one relation: every '
      'sort, bisection and insertion uses the same key and direction',
      floor=5,
      decides='the name lists are sorted in the order the look-ups assume: '
              'has / add / remove / next / prev find what the constructor put in')
def r13g(R):
    A = R.A
    sl = A.cls(SORTED, 'SortedList')
    sigs = []
    for m in sl.methods.values():
        for c in A.calls_in(m):
            fn = c.func.attr if isinstance(c.func, ast.Attribute) else (
                c.func.id if isinstance(c.func, ast.Name) else None)
            if fn not in ORDER_FUNCS:
                continue
            kw = {k.arg: norm(k.value) for k in c.keywords
                  if k.arg in ('key', 'reverse')}
            if kw.get('reverse') == 'False':
                del kw['reverse']
            if kw.get('key') == 'None':
                del kw['key']
            sigs.append((m, c, tuple(sorted(kw.items()))))
    if len(sigs) < 5:
        raise AnalysisError('SortedList: only %d ordering calls' % len(sigs))
    from collections import Counter
    common = Counter(s for _m, _c, s in sigs).most_common(1)[0][0]
    for m, c, s in sigs:
        R.check(m, norm(c)[:70], s == common,
                'this call orders by %s while the other SortedList operations '
                'order by %s: elements are stored in an order the bisections '
                'do not assume (has() misses present names, add() inserts '
                'duplicates, next() skips or repeats lights)' % (
                    dict(s) or 'the natural order', dict(common) or
                    'the natural order'))


# ------------------------------------------------------------------ R16.h
WS = [' ', '\t', '\r', '\f', '\v']


def _leaf_matches(op, av, ch):
    """does this regex leaf match character ch? None: not a character leaf"""
    import re._constants as C
    name = str(op)
    code = ord(ch)
    if name == 'LITERAL':
        return av == code
    if name == 'NOT_LITERAL':
        return av != code
    if name == 'ANY':
        return ch != '\n'
    if name == 'IN':
        neg = False
        hit = False
        for o, a in av:
            o = str(o)
            if o == 'NEGATE':
                neg = True
            elif o == 'LITERAL':
                hit = hit or a == code
            elif o == 'RANGE':
                hit = hit or a[0] <= code <= a[1]
            elif o == 'CATEGORY':
                hit = hit or _category(str(a), ch)
        return hit != neg
    if name == 'CATEGORY':
        return _category(str(av), ch)
    return None


def _category(cat, ch):
    base = {'CATEGORY_SPACE': ch.isspace(), 'CATEGORY_DIGIT': ch.isdigit(),
            'CATEGORY_WORD': ch.isalnum() or ch == '_'}
    if cat in base:
        return base[cat]
    if cat.startswith('CATEGORY_NOT_'):
        return not base.get('CATEGORY_' + cat[len('CATEGORY_NOT_'):], False)
    return False


def _leaves(items):
    for op, av in items:
        name = str(op)
        if name in ('LITERAL', 'NOT_LITERAL', 'ANY', 'IN', 'CATEGORY'):
            yield op, av
        elif name == 'BRANCH':
            for alt in av[1]:
                yield from _leaves(alt)
        elif name == 'SUBPATTERN':
            yield from _leaves(av[3])
        elif name in ('MAX_REPEAT', 'MIN_REPEAT', 'POSSESSIVE_REPEAT'):
            yield from _leaves(av[2])
        elif name in ('ASSERT', 'ASSERT_NOT'):
            yield from _leaves(av[1])
        elif name == 'ATOMIC_GROUP':
            yield from _leaves(av)


@rule('R16.h', ('C16',), 'no alternative of the token regex tells one '
      'white-space character from another', floor=10,
      decides='changing spaces to tabs (or a line end to CR LF) does not '
              'change how the text is cut into tokens')
def r16h(R):
    import re._parser as sre
    from .c16 import token_alternatives
    A = R.A
    lex, alts = token_alternatives(A)
    n = 0
    for name, spec in alts:
        try:
            tree = sre.parse(spec)
        except Exception as e:          # noqa: BLE001
            R.fail(lex, name, 'the alternative is not a valid regex: %s' % e)
            continue
        for op, av in _leaves(tree):
            hits = [_leaf_matches(op, av, ch) for ch in WS]
            n += 1
            some = [repr(ch) for ch, h in zip(WS, hits) if h]
            R.check(lex, '%s: %s %s' % (name, op, str(av)[:40]),
                    all(hits) or not any(hits),
                    'this part of the alternative matches %s but not %s: a '
                    'script laid out with the other white-space character is '
                    'cut into different tokens' % (
                        ', '.join(some),
                        ', '.join(repr(ch) for ch, h in zip(WS, hits) if not h)))
    if n < 10:
        raise AnalysisError('token regex: only %d character leaves' % n)


# ------------------------------------------------------------------ R05.i
CONTEXT = 'bardolph.parser.context'


def _flag_writers(A, ctx):
    """{flag attribute: {method: set of constant values stored}} for the
    boolean flags Context.__init__ creates"""
    # flags: attributes of self that only ever get constant booleans
    stores = {}
    for m in ctx.methods.values():
        for n in walk_own(m.node):
            if isinstance(n, ast.Assign):
                for t in n.targets:
                    if self_attr(t):
                        stores.setdefault(t.attr, []).append(n.value)
    flags = set(a for a, vs in stores.items() if all(
        isinstance(v, ast.Constant) and isinstance(v.value, bool) for v in vs))
    out = {f: {} for f in flags}
    for m in ctx.methods.values():
        for n in walk_own(m.node):
            if isinstance(n, ast.Assign):
                for t in n.targets:
                    if self_attr(t) and t.attr in flags:
                        v = n.value.value if isinstance(n.value, ast.Constant) \
                            else '?'
                        out[t.attr].setdefault(m, set()).add(v)
    return out


@rule('R05.i', ('C05', 'C06'), 'a parsing-mode flag stays set for the whole '
      'construct: nothing reachable between enter_x() and exit_x() clears it',
      floor=1,
      decides='a definition inside a routine body is rejected wherever in the '
              'body it stands: routine bodies are never nested in the '
              'generated code')
def r05i(R):
    A = R.A
    ctx = A.cls(CONTEXT, 'Context')
    writers = _flag_writers(A, ctx)
    if len(writers) < 2:
        raise AnalysisError('Context: %d mode flags found' % len(writers))
    seen = 0
    for flag, ws in sorted(writers.items()):
        setters = [m for m, vals in ws.items() if True in vals
                   and m.name not in ('__init__',)]
        clearers = [m for m, vals in ws.items() if vals != {True}
                    and m.name != '__init__']
        for enter in setters:
            for site in A.rs.callers(enter):
                g = site.func
                if g.cls is ctx:
                    continue
                cfg = A.cfg(g)
                ent = A.calls_nodes(g, enter.short)
                # the matching exit: a clearer of this flag called in g
                exits = [n for c in clearers for n in A.calls_nodes(g, c.short)]
                if not ent or not exits:
                    continue
                inside = cfg.reachable_from([m for n in ent for m, _l in n.succs],
                                            avoid=exits)
                roots = set()
                for n in inside:
                    if n in exits:
                        continue
                    for c in n.calls():
                        roots.update(A.callees(g, c))
                roots.discard(g)
                reach = A.rs.reachable(list(roots), stop=(g,))
                bad = [f for f in reach if f in clearers]
                seen += 1
                path = ''
                if bad:
                    for r in roots:
                        p = A.rs.call_path(r, bad[0])
                        if p and g not in p:
                            path = ' -> '.join(x.short for x in p)
                            break
                R.check(g, '%s: %s() ... %s()' % (
                    flag, enter.name, '/'.join(sorted(set(
                        c.name for c in clearers if A.calls_nodes(g, c.short))))),
                    not bad,
                    'while %s is parsing the construct (flag %s set), %s can '
                    'be reached (%s) and clears the flag: from there on the '
                    'parser believes the construct is over - a `define` in '
                    'the rest of a routine body is accepted and its body is '
                    'generated inside the enclosing one' % (
                        g.short, flag, bad[0].short if bad else '', path))
    if seen < 1:
        raise AnalysisError('no enter/exit region found')


@rule('R04.l', ('C04', 'C14'), 'a cycle range is spread over 65536 in raw '
      'units and over 360 in every other unit mode', floor=3,
      decides='`with v cycle [s]` gives s + k * (full turn) / n, the full '
              'turn being 360 degrees unless the script works in raw units')
def r04l(R):
    A = R.A
    lp = A.cls(LOOP, 'LoopParser')
    f = lp.methods['_cycle_var_range']
    members = A.cls('bardolph.controller.units', 'UnitMode').enum_members()
    want = {m: (65536 if m == 'RAW' else 360) for m in members}
    neutral = _stack_neutral_ops(A)
    got = {m: set() for m in members}
    found = False
    for first, tmpl in T.segments(A, f):
        if isinstance(tmpl, Exception):
            continue
        res = T.execute(tmpl, neutral)
        for value, conds in res.pushes:
            # the candidates for a "full turn": numeric literals of that size
            if not (value[0] == 'const' and isinstance(value[1], (int, float))
                    and not isinstance(value[1], bool) and value[1] >= 256):
                continue
            found = True
            for m in members:
                ok = True
                for cond, truth in conds:
                    t = _mode_truth(cond, m)
                    if t is None:
                        continue        # a test on something else (the count)
                    if t != truth:
                        ok = False
                if ok:
                    got[m].add(value[1])
    if not found:
        raise AnalysisError('_cycle_var_range: the pushed full turn was not found')
    for m in sorted(members):
        R.check(f, 'unit mode %s: full turn %s' % (m, sorted(got[m])),
                got[m] == {want[m]},
                'in unit mode %s the emitted prologue divides %s by the '
                'number of passes; the documented full turn is %d' % (
                    m, sorted(got[m]) or 'nothing', want[m]))


def _mode_truth(cond, member):
    """truth of an emitted test on the unit-mode register when the register
    holds `member`; None when the test is about something else"""
    if cond[0] != 'op' or len(cond) != 4 or cond[1] not in ('EQ', 'NOTEQ'):
        return None
    a, b = cond[2], cond[3]
    if a[0] == 'const' and b[0] == 'loc':
        a, b = b, a
    if not (a[0] == 'loc' and a[1].endswith('UNIT_MODE') and b[0] == 'const'
            and isinstance(b[1], EnumVal)):
        return None
    same = b[1].member == member
    return same if cond[1] == 'EQ' else not same
