"""C07 - Transmitted colours and durations are in protocol range and
numerically exact."""
import ast

from ..analysis import PROPERTY_TEXT, self_attr
from ..const import Unfoldable
from ..index import AnalysisError, norm
from ..report import rule
from ..resolve import walk_own
from .c01 import provenance_ok

LANLIGHT = 'bardolph.controller.lifx_lan_light'
LANAPI = 'bardolph.controller.lifx_lan_api'
LIGHTSET = 'bardolph.controller.light_set'
PARAMH = 'bardolph.lib.param_helper'
UNITS = 'bardolph.controller.units'
MATRIX = 'bardolph.controller.color_matrix'
MACHINE = 'bardolph.vm.machine'

PROPERTY_TEXT['C07'] = (
    'range safety, completely for the code as written: every colour, power, '
    'duration and zone argument of a call into the network layer (the lifxlan '
    'objects) is the result of param_16 / param_32 / param_color / '
    'ColorMatrix.get_colors (R07.a), and those helpers clamp to 0..0xffff / '
    '0..0xffffffff and round (R07.b); every unit-conversion function scales '
    'by exactly the documented factor - linear coefficient of each component '
    'computed symbolically: 65535/360, 65535/100, 1000 and their inverses '
    '(R07.c); the VM converts before it transmits on every command path '
    '(R01.b).',
    'rounding of particular values, hue wrap at 360, rgb<->hsb agreement, the '
    'raw round trip.')

# lifxlan API (external library, trusted): role of each positional argument
NETWORK_SINKS = {
    'set_color': ['color', 'duration', None],
    'set_power': ['power', 'duration', None],
    'set_zone_color': ['zone', 'zone', 'color', 'duration', None, None],
    'set_color_all_lights': ['color', 'duration', None],
    'set_power_all_lights': ['power', 'duration', None],
    'get_color_zones': ['zone', 'zone'],
}
SANITIZERS = {
    'color': ('param_helper.param_color',),
    'duration': ('param_helper.param_32',),
    'power': ('param_helper.param_16',),
    'zone': ('param_helper.param_16',),
}
PAYLOAD_KEYS = {'duration': ('param_helper.param_32',),
                'colors': ('ColorMatrix.get_colors',)}


@rule('R07.a', ('C07', 'C12'), 'every value reaching the network layer is clamped '
      'and rounded', floor=14,
      decides='every colour component, power level and duration handed to a '
              'light is an integer the protocol can carry, whatever the '
              'register contents')
def r07a(R):
    A = R.A
    funcs = [f for f in A.repo.all_functions(LANLIGHT)] + \
        [f for f in A.repo.all_functions(LANAPI)]
    for f in funcs:
        cfg = A.cfg(f)
        for n in cfg.nodes:
            for call in n.calls():
                if not isinstance(call.func, ast.Attribute):
                    continue
                recv = self_attr(call.func.value)
                if recv not in ('_impl', '_lifxlan'):
                    continue
                m = call.func.attr
                if m in NETWORK_SINKS:
                    roles = NETWORK_SINKS[m]
                    for i, arg in enumerate(call.args):
                        role = roles[i] if i < len(roles) else None
                        if role is None:
                            continue
                        if isinstance(arg, ast.Constant) and arg.value is None:
                            continue
                        ok, why = provenance_ok(A, f, n, arg, SANITIZERS[role])
                        if not ok and role == 'zone':
                            # `x = param_16(x)` under `if x is not None`
                            ok, why = _optional_sanitized(A, f, n, arg,
                                                          SANITIZERS[role])
                        R.check(f, '%s(.. %s=%s ..)' % (norm(call.func), role,
                                                         norm(arg)), ok,
                                'the %s handed to the network layer is not the '
                                'result of %s (%s): an out-of-range or '
                                'fractional register value reaches the packet '
                                'encoder' % (role, '/'.join(SANITIZERS[role]), why),
                                line=call.lineno)
                elif m in ('fire_and_forget', 'req_with_resp'):
                    for arg in call.args:
                        d = arg
                        if isinstance(arg, ast.Name):
                            defs = [x for x in walk_own(f.node)
                                    if isinstance(x, ast.Assign)
                                    and norm(x.targets[0]) == arg.id
                                    and isinstance(x.value, ast.Dict)]
                            d = defs[0].value if defs else None
                        if not isinstance(d, ast.Dict):
                            continue
                        for k, v in zip(d.keys, d.values):
                            key = A.try_fold(k, f)
                            if key in PAYLOAD_KEYS:
                                ok, why = provenance_ok(A, f, n, v,
                                                        PAYLOAD_KEYS[key])
                                R.check(f, 'payload[%r] = %s' % (key, norm(v)),
                                        ok, 'tile payload field %r is not '
                                        'sanitised by %s (%s)' % (
                                            key, '/'.join(PAYLOAD_KEYS[key]), why),
                                        line=call.lineno)
    # LightSet broadcasts go through the sanitisers as well
    ls = A.cls(LIGHTSET, 'LightSet')
    for name, roles in (('set_color_all_lights', ['color', 'duration']),
                        ('set_power_all_lights', ['power', 'duration'])):
        m = ls.methods[name]
        cfg = A.cfg(m)
        for n in cfg.nodes:
            for call in n.calls():
                if isinstance(call.func, ast.Attribute) and call.func.attr == name \
                        and norm(call.func.value) != 'self':
                    for role, arg in zip(roles, call.args):
                        conv = SANITIZERS[role] + ('param_helper.param_bool',
                                                   'color.rounded_color')
                        ok, why = provenance_ok(A, m, n, arg, conv)
                        if not ok and isinstance(arg, ast.Call) and arg.args:
                            ok, why = provenance_ok(A, m, n, arg.args[0], conv)
                        R.check(m, '%s(.. %s=%s ..)' % (norm(call.func), role,
                                                         norm(arg)), ok,
                                'broadcast %s is not sanitised (%s)' % (role, why),
                                line=call.lineno)


def _optional_sanitized(A, f, node, arg, conv):
    """`if x is not None: x = param_16(..)` then x used: every reaching
    definition is either the sanitiser or the parameter under `x is None`."""
    from .c01 import reaching_defs
    if not isinstance(arg, ast.Name):
        return False, 'not a local'
    defs = reaching_defs(A.cfg(f), node, arg.id)
    if not defs:
        return False, 'no definition'
    for d in defs:
        if not (d.kind == 'stmt' and isinstance(d.ast, ast.Assign)
                and isinstance(d.ast.value, ast.Call)
                and all(x in conv for x in A.callee_names(f, d.ast.value))
                and A.callee_names(f, d.ast.value)):
            return False, 'defined by %s' % d.text()
    # the unsanitised parameter may still reach the call when the guard is
    # false; accept only a guard of the form `x is not None`
    cfg = A.cfg(f)
    guards = [c for c in cfg.nodes if c.kind == 'cond'
              and norm(c.ast) == '%s is not None' % arg.id]
    return (bool(guards), 'guarded by `is not None`' if guards
            else 'parameter can reach the call unsanitised')


# ---------------------------------------------------------------- R07.b
def nan_absorbed(e, param):
    """Does [round](e) stay finite when `param` is NaN? min(a, b) and
    max(a, b) return their FIRST argument whenever a comparison with NaN is
    involved (`b < a` / `b > a` is False), so a clamp absorbs NaN only if a
    finite bound is the first argument of an enclosing call."""
    if isinstance(e, ast.Call) and norm(e.func) == 'round' and len(e.args) == 1:
        e = e.args[0]

    def nan(x):
        if isinstance(x, ast.Name):
            return x.id == param
        if isinstance(x, ast.Call) and norm(x.func) in ('min', 'max') \
                and len(x.args) == 2:
            a, b = nan(x.args[0]), nan(x.args[1])
            return a if (a or b) else False
        if isinstance(x, ast.Call):
            return any(nan(a) for a in x.args)
        if isinstance(x, (ast.BinOp,)):
            return nan(x.left) or nan(x.right)
        if isinstance(x, ast.UnaryOp):
            return nan(x.operand)
        return False
    return not nan(e)


def clamp_interval(A, f, e, param, env=None):
    """(lo, hi, rounded) such that e == [round](clamp(param, lo, hi))."""
    rounded = False
    env = env or {}

    def const(x):
        if isinstance(x, ast.Name) and x.id in env:
            return env[x.id]
        return A.try_fold(x, f)
    if isinstance(e, ast.Call) and norm(e.func) == 'round' and len(e.args) == 1:
        rounded = True
        e = e.args[0]

    def rec(x):
        if isinstance(x, ast.Name) and x.id == param:
            return (float('-inf'), float('inf'))
        if isinstance(x, ast.Call) and norm(x.func) in ('min', 'max') \
                and len(x.args) == 2:
            a, b = x.args
            ka, kb = const(a), const(b)
            if isinstance(ka, (int, float)) and not isinstance(kb, (int, float)):
                k, inner = ka, rec(b)
            elif isinstance(kb, (int, float)):
                k, inner = kb, rec(a)
            else:
                return None
            if inner is None:
                return None
            lo, hi = inner
            if norm(x.func) == 'min':
                return (lo, min(hi, k))
            return (max(lo, k), hi)
        return None
    r = rec(e)
    if r is None:
        return None
    return r[0], r[1], rounded


@rule('R07.b', ('C07',), 'the sanitisers clamp to the protocol range and round',
      floor=7, decides='out-of-range results are clamped, values are integers')
def r07b(R):
    A = R.A
    want = {'param_8': 0xff, 'param_16': 0xffff, 'param_32': 0xffffffff}
    for name, hi in sorted(want.items()):
        f = A.func(PARAMH, name)
        rets = [n for n in walk_own(f.node) if isinstance(n, ast.Return)]
        iv = clamp_interval(A, f, rets[0].value, f.params[0]) \
            if len(rets) == 1 else None
        if iv is None and len(rets) == 1 and isinstance(rets[0].value, ast.Call):
            # return _helper(param, LIMIT): evaluate the helper's return with
            # the constant arguments substituted
            call = rets[0].value
            callees = A.callees(f, call)
            if len(callees) == 1:
                h = callees[0]
                hrets = [n for n in walk_own(h.node) if isinstance(n, ast.Return)]
                if len(hrets) == 1 and len(call.args) == len(h.params):
                    env = {}
                    xparam = None
                    for p, a in zip(h.params, call.args):
                        if isinstance(a, ast.Name) and a.id == f.params[0]:
                            xparam = p
                        else:
                            v = A.try_fold(a, f)
                            if v is not None:
                                env[p] = v
                    if xparam is not None:
                        iv = clamp_interval(A, h, hrets[0].value, xparam, env)
        R.check(f, rets[0].value if rets else name,
                iv is not None and iv[0] == 0 and iv[1] == hi and iv[2],
                '%s must be round(clamp(x, 0, %d)); found %s' % (name, hi, iv))
        if iv is not None and len(rets) == 1 and f in A.live_functions() \
                and clamp_interval(
                    A, f, rets[0].value, f.params[0]) is not None:
            R.check(f, 'NaN: %s' % norm(rets[0].value),
                    nan_absorbed(rets[0].value, f.params[0]),
                    '%s does not absorb NaN: min / max hand back their first '
                    'argument when a comparison involves NaN, so with the '
                    'value as the first argument of the outer call a register '
                    'holding NaN (`{big - big}` with an overflowing literal) '
                    'reaches round(), which raises, and the machine stops '
                    'instead of sending an in-range value' % name)
    pc = A.func(PARAMH, 'param_color')
    ok = False
    for n in walk_own(pc.node):
        if isinstance(n, ast.Return) and n.value is not None:
            got = A.whole_map(pc, n.value)
            ok = got is not None and isinstance(got[1], ast.Call) \
                and 'param_helper.param_16' in A.callee_names(pc, got[1]) \
                and norm(got[0]) == pc.params[0] \
                and [norm(a) for a in got[1].args] == [got[2]]
    R.check(pc, 'param_16 over every component', ok,
            'param_color no longer clamps every component with param_16')
    sr = A.func(MATRIX, 'ColorMatrix._standardize_raw')
    cfg = A.cfg(sr)
    lows = highs = rounds = 0
    for n in cfg.nodes:
        if n.kind == 'cond' and isinstance(n.ast, ast.Compare):
            k = A.try_fold(n.ast.comparators[0], sr)
            tgt = [m for m, lab in n.succs if lab is True]
            val = None
            if tgt and tgt[0].kind == 'stmt' and isinstance(tgt[0].ast, ast.Assign):
                val = A.try_fold(tgt[0].ast.value, sr)
            if isinstance(n.ast.ops[0], ast.Lt) and k == 0 and val == 0:
                lows += 1
            if isinstance(n.ast.ops[0], ast.Gt) and k == 65535 and val == 65535:
                highs += 1
        if n.kind == 'stmt' and isinstance(n.ast, ast.Assign) and \
                isinstance(n.ast.value, ast.Call) and norm(n.ast.value.func) == 'round':
            rounds += 1
    # ... or every component goes through param_16 (checked above)
    via16 = [c for n in cfg.nodes for c in n.calls()
             if 'param_helper.param_16' in A.callee_names(sr, c)]
    if via16 and not (lows or highs or rounds):
        R.ok(sr, 'components sanitised by param_16')
    else:
        R.check(sr, 'x < 0 -> 0; x > 65535 -> 65535; else round(x)',
                lows == 1 and highs == 1 and rounds == 1,
                'matrix cells are not clamped to 0..65535 and rounded')
        # NaN fails both comparisons and falls through to round()
        nan_tests = [n for n in cfg.nodes if n.kind == 'cond' and (
            'isnan' in norm(n.ast) or (
                isinstance(n.ast, ast.Compare) and isinstance(n.ast.ops[0], ast.NotEq)
                and norm(n.ast.left) == norm(n.ast.comparators[0])))]
        R.check(sr, 'NaN: a component that fails both range tests is not '
                'rounded', bool(nan_tests) or rounds == 0,
                'a NaN component of a matrix cell is neither below 0 nor above '
                '65535, so it reaches round(), which raises: the machine '
                'stops, while the same register value is sent as 0 to a plain '
                'light (param_16 absorbs NaN)')
    # every component is kept, and only a missing cell stays None
    loops = [n for n in cfg.nodes if n.kind == 'for'
             and norm(n.ast.iter) == sr.params[0]]
    appends = [n for n in cfg.nodes for c in n.calls()
               if isinstance(c.func, ast.Attribute) and c.func.attr == 'append']
    ok = len(loops) == 1 and bool(appends)
    if ok:
        lp = loops[0]
        body = [m for m, lab in lp.succs if lab is True]
        app_calls = [c for c in appends[0].calls()
                     if isinstance(c.func, ast.Attribute) and c.func.attr == 'append']
        target = norm(app_calls[0].func.value) if app_calls else ''
        ok = cfg.find_path(body, lambda n: n is lp, avoid=appends) is None and any(
            r.ret_expr is not None and norm(r.ret_expr) == target
            for r in cfg.return_nodes())
    R.check(sr, 'every component of the cell is kept (appended, list returned)',
            ok, 'a standardised cell does not contain all four components')
    none_rets = [r for r in cfg.return_nodes() if r.ret_expr is not None
                 and isinstance(r.ret_expr, ast.Constant) and r.ret_expr.value is None]
    okn = all(('%s is None' % sr.params[0], True) in A.path_facts(sr, r)
              for r in none_rets)
    R.check(sr, 'None only for a missing cell', okn,
            'a real cell colour is turned into None (the test for a missing '
            'cell is reversed): the tile message carries no colours')
    gc = A.func(MATRIX, 'ColorMatrix.get_colors')
    ok = any(isinstance(n, ast.ListComp) and isinstance(n.elt, ast.Call)
             and 'ColorMatrix._standardize_raw' in A.callee_names(gc, n.elt)
             and not n.generators[0].ifs for n in walk_own(gc.node))
    R.check(gc, 'every cell through _standardize_raw', ok,
            'get_colors no longer standardises every cell')
    rc = A.func('bardolph.lib.color', 'rounded_color')
    ok = any(isinstance(n, ast.ListComp) and isinstance(n.elt, ast.Call)
             and norm(n.elt.func) == 'round' for n in walk_own(rc.node))
    R.check(rc, 'round() over every component', ok,
            'rounded_color no longer rounds every component')


# ---------------------------------------------------------------- R07.c
class NotLinear(Exception):
    pass


def linear(A, f, e, env):
    """Evaluate e to {symbol: coeff, 1: const}. env: name -> linear form.
    `x % k` becomes the symbol ('mod', sym, k); subscripts of the parameter
    become symbols 'p[i]'."""
    if isinstance(e, ast.Constant) and isinstance(e.value, (int, float)) \
            and not isinstance(e.value, bool):
        return {1: float(e.value)}
    if isinstance(e, ast.Name):
        if e.id in env:
            return dict(env[e.id])
        v = A.try_fold(e, f)
        if isinstance(v, (int, float)) and not isinstance(v, bool):
            return {1: float(v)}
        raise NotLinear(e.id)
    if isinstance(e, ast.Subscript):
        t = norm(e)
        if t in env:
            return dict(env[t])
        return {t: 1.0}
    if isinstance(e, ast.Call):
        fn = norm(e.func)
        if fn in ('float', 'round') and len(e.args) == 1:
            return linear(A, f, e.args[0], env)
        raise NotLinear(fn)
    if isinstance(e, ast.UnaryOp) and isinstance(e.op, ast.USub):
        return {k: -v for k, v in linear(A, f, e.operand, env).items()}
    if isinstance(e, ast.BinOp):
        a = linear(A, f, e.left, env)
        b = linear(A, f, e.right, env)

        def const(x):
            return x.get(1, 0.0) if all(k == 1 for k in x) else None
        if isinstance(e.op, ast.Add):
            return {k: a.get(k, 0) + b.get(k, 0) for k in set(a) | set(b)}
        if isinstance(e.op, ast.Sub):
            return {k: a.get(k, 0) - b.get(k, 0) for k in set(a) | set(b)}
        if isinstance(e.op, ast.Mult):
            ca, cb = const(a), const(b)
            if cb is not None:
                return {k: v * cb for k, v in a.items()}
            if ca is not None:
                return {k: v * ca for k, v in b.items()}
        if isinstance(e.op, ast.Div):
            cb = const(b)
            if cb:
                return {k: v / cb for k, v in a.items()}
        if isinstance(e.op, ast.Mod):
            cb = const(b)
            syms = [k for k in a if k != 1]
            if cb and len(syms) == 1 and a.get(1, 0) == 0 and a[syms[0]] == 1:
                return {('mod', syms[0], cb): 1.0}
        raise NotLinear(norm(e))
    if isinstance(e, ast.IfExp):
        # `0.0 if -eps < x < eps else <linear>`: the general branch
        return general_branch(A, f, e.test, linear(A, f, e.body, env),
                              linear(A, f, e.orelse, env), env)
    raise NotLinear(norm(e))


def _is_const(form):
    return all(k == 1 or v == 0 for k, v in form.items())


def _windows(A, f, test, env):
    """[(lo, hi, variable form)] for a disjunction of `lo < x < hi` chains
    (or abs(x) < eps); None when the test has another shape."""
    parts = test.values if isinstance(test, ast.BoolOp) and \
        isinstance(test.op, ast.Or) else [test]
    out = []
    for c in parts:
        if not isinstance(c, ast.Compare):
            return None
        if len(c.ops) == 2 and all(isinstance(o, (ast.Lt, ast.LtE)) for o in c.ops):
            lo, hi = A.try_fold(c.left, f), A.try_fold(c.comparators[1], f)
            var = c.comparators[0]
        elif len(c.ops) == 1 and isinstance(c.ops[0], (ast.Lt, ast.LtE)) and \
                isinstance(c.left, ast.Call) and norm(c.left.func) == 'abs':
            hi = A.try_fold(c.comparators[0], f)
            lo = -hi if isinstance(hi, (int, float)) else None
            var = c.left.args[0]
        elif len(c.ops) == 1 and isinstance(c.ops[0], (ast.Lt, ast.LtE, ast.Gt, ast.GtE)):
            # one-sided: a half line
            l, r = A.try_fold(c.left, f), A.try_fold(c.comparators[0], f)
            less = isinstance(c.ops[0], (ast.Lt, ast.LtE))
            if isinstance(r, (int, float)) and not isinstance(l, (int, float)):
                var = c.left
                lo, hi = (float('-inf'), r) if less else (r, float('inf'))
            elif isinstance(l, (int, float)) and not isinstance(r, (int, float)):
                var = c.comparators[0]
                lo, hi = (l, float('inf')) if less else (float('-inf'), l)
            else:
                return None
        else:
            return None
        if not isinstance(lo, (int, float)) or not isinstance(hi, (int, float)):
            return None
        try:
            out.append((float(lo), float(hi), linear(A, f, var, env)))
        except NotLinear:
            return None
    return out


def general_branch(A, f, test, body_form, else_form, env):
    """Of the two branches of a special-casing test return the general one.
    The special branch must be a constant, its windows must be narrow and the
    general formula must give (nearly) that constant at their centres -
    otherwise the special case changes values it has no business changing."""
    if _is_const(body_form) == _is_const(else_form):
        if body_form == else_form:
            return body_form
        raise NotLinear('both branches of `%s` are %s' % (
            norm(test), 'constants' if _is_const(body_form) else 'formulas'))
    special_is_body = _is_const(body_form)
    const = (body_form if special_is_body else else_form).get(1, 0.0)
    general = else_form if special_is_body else body_form
    cond = test
    if not special_is_body:
        if isinstance(cond, ast.UnaryOp) and isinstance(cond.op, ast.Not):
            cond = cond.operand
        else:
            return general          # shape not analysed: formula only
    wins = _windows(A, f, cond, env)
    if wins is None:
        return general
    for lo, hi, var in wins:
        vs = _single(var)
        periodic = vs is not None and any(
            isinstance(k, tuple) and k[0] == 'mod' and k[1] == vs[0]
            for k in general)
        half_line = hi - lo == float('inf')
        if half_line and not periodic:
            # a saturating clamp: legitimate when it continues the formula
            mid = hi if lo == float('-inf') else lo
        elif hi - lo > 1e-3:
            raise NotLinear('special case `%s` replaces the formula by %g on '
                            'a range %g wide' % (norm(cond), const, hi - lo))
        else:
            mid = (lo + hi) / 2.0
        if vs is None or vs[1] != 1.0:
            continue
        total = general.get(1, 0.0)
        for k, coeff in general.items():
            if k == 1:
                continue
            if k == vs[0]:
                total += coeff * mid
            elif isinstance(k, tuple) and k[0] == 'mod' and k[1] == vs[0]:
                total += coeff * (mid % k[2])
            else:
                total = None
                break
        width = 0.0 if half_line else hi - lo
        if total is not None and abs(total - const) > \
                max(abs(c) for c in general.values()) * width + 1e-9:
            raise NotLinear('special case `%s` yields %g where the formula '
                            'gives %g' % (norm(cond), const, total))
    return general


def _close(a, b):
    return abs(a - b) <= 1e-12 * max(1.0, abs(b))


def _single(form):
    syms = [(k, v) for k, v in form.items() if k != 1 and v != 0]
    if len(syms) != 1 or not _close(form.get(1, 0.0), 0.0):
        return None
    return syms[0]


def _returned_components(A, f):
    """The list display returned by a conversion function + local env."""
    env = {}
    ret = None
    for st in f.node.body:
        if isinstance(st, ast.Assign) and len(st.targets) == 1:
            t = st.targets[0]
            if isinstance(t, ast.Name):
                try:
                    env[t.id] = linear(A, f, st.value, env)
                except NotLinear:
                    env.pop(t.id, None)
            elif isinstance(t, ast.Tuple) and isinstance(st.value, ast.ListComp):
                # r, g, b = [p[i] / 100.0 for i in range(0, 3)]
                comp = st.value
                rng = A.try_fold(comp.generators[0].iter, f)
                if rng is not None and len(rng) == len(t.elts):
                    for name, i in zip(t.elts, rng):
                        sub = ast.parse(norm(comp.elt).replace(
                            '[%s]' % norm(comp.generators[0].target), '[%d]' % i),
                            mode='eval').body
                        try:
                            env[name.id] = linear(A, f, sub, env)
                        except NotLinear:
                            pass
            elif isinstance(t, ast.Tuple) and isinstance(st.value, ast.Call) \
                    and norm(st.value.func).startswith('colorsys.'):
                # h, s, v = colorsys.rgb_to_hsv(r, g, b): outputs are new
                # symbols in 0..1; inputs must be the unit-scaled components
                for i, (name, arg) in enumerate(zip(t.elts, st.value.args)):
                    env['<in:%s:%d>' % (norm(st.value.func), i)] = \
                        linear(A, f, arg, env)
                    env[name.id] = {'unit:%d' % i: 1.0}
        elif isinstance(st, ast.If):
            # hue special-casing: `if <window>: h = 0.0 else: h = <formula>`
            def assigns(stmts):
                out = {}
                for sub in stmts:
                    if isinstance(sub, ast.Assign) and len(sub.targets) == 1 \
                            and isinstance(sub.targets[0], ast.Name):
                        try:
                            out[sub.targets[0].id] = linear(A, f, sub.value, env)
                        except NotLinear:
                            pass
                return out
            a, b = assigns(st.body), assigns(st.orelse)
            for name in set(a) & set(b):
                try:
                    env[name] = general_branch(A, f, st.test, a[name], b[name], env)
                except NotLinear as ex:
                    env.pop(name, None)
                    notes = env.setdefault('<notes>', [])
                    notes.append(str(ex))
        elif isinstance(st, ast.Return):
            ret = st.value
    return ret, env


# expected coefficient of each returned component w.r.t. its input symbol
def _expectations(param):
    p = param
    return {
        'logical_to_raw': [(('mod', '%s[0]' % p, 360.0), 65535.0 / 360.0),
                           None, None, ('%s[3]' % p, 1.0)],
        'raw_to_logical': [('%s[0]' % p, 360.0 / 65535.0),
                           ('%s[1]' % p, 100.0 / 65535.0),
                           ('%s[2]' % p, 100.0 / 65535.0), None],
        'rgb_to_raw': [None, None, None, ('%s[3]' % p, 1.0)],
        'rgb_to_logical': [('unit:0', 360.0), ('unit:1', 100.0),
                           ('unit:2', 100.0), ('%s[3]' % p, 1.0)],
        'raw_to_rgb': [('unit:0', 100.0), ('unit:1', 100.0), ('unit:2', 100.0),
                       ('%s[3]' % p, 1.0)],
        'logical_to_rgb': [('unit:0', 100.0), ('unit:1', 100.0),
                           ('unit:2', 100.0), ('%s[3]' % p, 1.0)],
    }


COLORSYS_INPUT_SCALE = {     # function -> expected scale of each colorsys input
    'rgb_to_raw': 1 / 100.0, 'rgb_to_logical': 1 / 100.0,
    'raw_to_rgb': 1 / 65535.0,
    'logical_to_rgb': [1 / 360.0, 1 / 100.0, 1 / 100.0],
}


@rule('R07.c', ('C07', 'C14'), 'unit conversions scale by exactly the '
      'documented factors (symbolic linear coefficients)', floor=18,
      decides='hue = degrees/360*65535, saturation/brightness = '
              'percent/100*65535, durations = seconds*1000; inverses likewise')
def r07c(R):
    A = R.A
    units = A.repo.module(UNITS)

    def fn(name):
        f = units.functions.get(name)
        if f is None:
            raise AnalysisError('units.%s vanished' % name)
        return f
    # scalar helpers
    for name, want in (('time_raw', 1000.0), ('time_logical', 1 / 1000.0),
                       ('_pct_to_raw', 65535.0 / 100.0)):
        f = fn(name)
        p = f.params[0]
        env = {p: {p: 1.0}}
        got = None
        for st in f.node.body:
            if isinstance(st, ast.Assign) and isinstance(st.targets[0], ast.Name):
                try:
                    env[st.targets[0].id] = linear(A, f, st.value, env)
                except NotLinear:
                    pass
            if isinstance(st, ast.Return):
                try:
                    got = _single(linear(A, f, st.value, env))
                except NotLinear:
                    got = None
        R.check(f, '%s: coefficient %s' % (name, got[1] if got else None),
                got is not None and got[0] == p and _close(got[1], want),
                'units.%s must multiply by %.10g' % (name, want))
    # colour conversions
    for name in ('logical_to_raw', 'raw_to_logical', 'rgb_to_raw',
                 'rgb_to_logical', 'raw_to_rgb', 'logical_to_rgb'):
        f = fn(name)
        p = f.params[0]
        ret, env = _returned_components(A, f)
        if not isinstance(ret, ast.List) or len(ret.elts) != 4:
            R.fail(f, name, 'does not return a 4-component list')
            continue
        exp = _expectations(p)[name]
        for i, (elt, want) in enumerate(zip(ret.elts, exp)):
            if want is None:
                continue
            # max(x, 0.0) wrappers: a lower clamp at zero (and nothing else)
            e = elt
            clamp_ok = True
            while isinstance(e, ast.Call) and norm(e.func) in ('max', 'round') \
                    and e.args:
                if norm(e.func) == 'max':
                    others = [A.try_fold(a, f, 'x') for a in e.args[1:]]
                    if len(e.args) != 2 or others != [0]:
                        clamp_ok = False
                e = e.args[0]
            if not clamp_ok:
                R.fail(f, elt, 'component %d of units.%s is clamped from '
                       'below at something other than 0: small values are '
                       'raised to the clamp (e.g. hue 0 comes back as 1)'
                       % (i, name))
                continue
            why = ''
            try:
                got = _single(linear(A, f, e, env))
            except NotLinear as ex:
                got = None
                why = '; '.join([str(ex)] + env.get('<notes>', []))
            R.check(f, '%s[%d] = %s' % (name, i, norm(elt)),
                    got is not None and got[0] == want[0] and _close(got[1], want[1]),
                    'component %d of units.%s must be %.10g * %s (found %s%s)'
                    % (i, name, want[1], want[0], got,
                       ': ' + why if why else ''))
        # inputs handed to colorsys are scaled to 0..1
        scale = COLORSYS_INPUT_SCALE.get(name)
        if scale is not None:
            ins = sorted((k, v) for k, v in env.items()
                         if isinstance(k, str) and k.startswith('<in:'))
            for j, (k, form) in enumerate(ins):
                want = scale[j] if isinstance(scale, list) else scale
                got = _single(form)
                R.check(f, '%s: colorsys input %d scale %s' % (
                    name, j, got[1] if got else None),
                    got is not None and _close(got[1], want),
                    'input %d of the colorsys call in units.%s must be scaled '
                    'by %.10g' % (j, name, want))
    # percent components of logical_to_raw / raw_to_logical
    f = fn('logical_to_raw')
    pct = [c for c in A.calls_in(f) if 'units._pct_to_raw' in A.callee_names(f, c)]
    R.check(f, 'saturation and brightness through _pct_to_raw',
            sorted(norm(c.args[0]) for c in pct) ==
            ['%s[1]' % f.params[0], '%s[2]' % f.params[0]],
            'saturation/brightness are not converted with _pct_to_raw')
    # (the VM taking raw time as milliseconds: R14.d, per unit mode)
