"""C18 - snapshot scripts; C19 - print/println/printf; C20 - web front end."""
import ast
import os
import string

from ..analysis import PROPERTY_TEXT, path_text, self_attr
from ..cfg import reachable_without_edges
from ..const import EnumVal, Unfoldable
from ..index import AnalysisError, ClassInfo, FuncInfo, norm
from ..report import rule
from ..resolve import walk_own

SNAPSHOT = 'bardolph.controller.snapshot'
WEBAPP = 'web.web_app'
FRONT = 'web.front_end'
LEX = 'bardolph.parser.lex'
IOPARSER = 'bardolph.parser.io_parser'
VMIO = 'bardolph.vm.vm_io'
STDOUT = 'bardolph.lib.std_out_output'
MACHINE = 'bardolph.vm.machine'
JOBS = 'bardolph.lib.job_control'

PROPERTY_TEXT['C18'] = (
    'the generated script switches to raw units before the first register '
    'setting (captured values are raw) (R18.a); every template the script '
    'generator appends consists of keywords the lexer knows, register names '
    'and fields, with light names only inside double quotes (R18.b); all four '
    'colour components are emitted, in register/component correspondence, '
    'the plain-light path also emits power, the multizone path one set per '
    'enumerated zone, the matrix path one stage per cell (R18.c); the web '
    'capture uses the same generator with a well-formed call (R18.d, R20.d); '
    'a light that does not answer does not abort the capture (R12.c).',
    'equality of the device state after replay; names ending in a backslash.')

PROPERTY_TEXT['C19'] = (
    'a sink that keeps state between calls is bound as one object when it is '
    'injected per call (R19.a); the compile-time count of fields that consume '
    'a value and the run-time choice of named fields are complementary over '
    'the same Formatter.parse tuples (truth table over the three atoms) '
    '(R19.b); output is flushed on every exit of a run (R19.c); printf '
    'replaces backslash-n before formatting and formats positional then named '
    'values; PRINT_END ends the line; the sink separates successive outputs '
    'with one space and owes a final newline (R19.d).',
    'the bytes written; numbered fields that repeat or skip indices.')

PROPERTY_TEXT['C20'] = (
    'in the web tier jobs are created only in WebApp.queue_script, which is '
    'reached from route handlers only with a value that came from '
    'get_script_control (a copy of a manifest entry) (R20.a); every string '
    'field of a script entry is HTML-escaped at construction and no template '
    'disables escaping (R20.b); every caller of get_script_control tests the '
    'result for None before it is dereferenced or rendered (R20.c); calls '
    'bind their callee\'s parameters (R20.d); a running script is not queued '
    'again: the queue call is guarded by `running`, which is asked of the '
    'controller under the very name the job is queued with (R20.e); stop '
    'routes reach the right controller calls (R09.d); status and capture do '
    'not fail on a silent light (R12.c).',
    'path/title derivation (value-level string functions); rendering.')


# ===================================================================== C18
def _appended_templates(A, cls):
    """[(method, template string or None, call node)] for self.append(...)."""
    out = []
    for m in cls.methods.values():
        for c in A.calls_in(m):
            if isinstance(c.func, ast.Attribute) and c.func.attr == 'append' \
                    and norm(c.func.value) == 'self' and c.args:
                a = c.args[0]
                tmpl = None
                if isinstance(a, ast.Call) and isinstance(a.func, ast.Attribute) \
                        and a.func.attr == 'format':
                    tmpl = A.try_fold(a.func.value, m)
                    if tmpl is None and isinstance(a.func.value, ast.Name):
                        # fmt = 'on "{}"\n' if .. else 'off "{}"\n', or the
                        # same as an if statement: every binding of the local
                        for n in walk_own(m.node):
                            if isinstance(n, ast.Assign) and \
                                    norm(n.targets[0]) == a.func.value.id:
                                brs = [n.value.body, n.value.orelse] \
                                    if isinstance(n.value, ast.IfExp) else [n.value]
                                for br in brs:
                                    out.append((m, A.try_fold(br, m), c, a))
                                tmpl = 'SKIP'
                    if tmpl != 'SKIP':
                        out.append((m, tmpl, c, a))
                else:
                    out.append((m, A.try_fold(a, m), c, None))
    return out


@rule('R18.a', ('C18',), 'the captured script declares raw units before any '
      'register setting', floor=2,
      decides='replaying the script sets exactly the captured raw values')
def r18a(R):
    A = R.A
    ss = A.cls(SNAPSHOT, 'ScriptSnapshot')
    gen = ss.lookup('generate')
    start = ss.lookup('start_snapshot')
    # text appended by start_snapshot (following super())
    texts = []
    seen = set()
    todo = [start]
    while todo:
        f = todo.pop()
        if f in seen:
            continue
        seen.add(f)
        for c in A.calls_in(f):
            if isinstance(c.func, ast.Attribute) and c.func.attr == 'append' \
                    and norm(c.func.value) == 'self' and c.args:
                v = A.try_fold(c.args[0], f)
                if isinstance(v, str):
                    texts.append(v)
    ok = any(t.split() == ['units', 'raw'] and t.endswith('\n') for t in texts)
    R.check(start, 'start_snapshot appends "units raw"', ok,
            'captured values are raw device values but the generated script '
            'never says `units raw`: a captured hue 43690 is replayed as '
            '43690 degrees, saturation/brightness clamp at 100 percent')
    cfg = A.cfg(gen)
    st = [n for n in cfg.nodes for c in n.calls()
          if isinstance(c.func, ast.Attribute) and c.func.attr == 'start_snapshot']
    loops = [n for n in cfg.nodes if n.kind == 'for']
    R.check(gen, 'start_snapshot() before the light loop',
            bool(st and loops) and
            cfg.find_path([cfg.entry], lambda n: n in loops, avoid=st) is None,
            'settings can be emitted before the header of the script')


@rule('R18.b', ('C18',), 'script templates consist of known keywords, '
      'registers and fields; names only inside double quotes', floor=8,
      decides='the script always compiles, whatever characters the light '
              'names contain apart from quotes and line breaks')
def r18b(R):
    A = R.A
    ss = A.cls(SNAPSHOT, 'ScriptSnapshot')
    from .c06 import keyword_domain
    kw = set(keyword_domain(A)['values'])
    lex = A.cls(LEX, 'Lex')
    regs = set(A.fold(lex.class_attrs['_REG_LIST'], lex))
    for m, tmpl, call, fmt in _appended_templates(A, ss):
        if not isinstance(tmpl, str):
            R.fail(m, call, 'a template of the script generator is not a '
                   'constant string: its well-formedness cannot be decided')
            continue
        # fields and their arguments
        fields = [f for f in string.Formatter().parse(tmpl)]
        n_fields = sum(1 for f in fields if f[1] is not None)
        args = list(fmt.args) if fmt is not None else []
        problems = []
        if n_fields != len(args):
            problems.append('%d fields for %d arguments' % (n_fields, len(args)))
        pos = 0
        in_quote = False
        words = []
        for lit, name, spec, _conv in fields:
            for ch_word in lit.replace('"', ' " ').split():
                if ch_word == '"':
                    in_quote = not in_quote
                else:
                    words.append(ch_word)
            if name is not None:
                arg = args[pos] if pos < len(args) else None
                pos += 1
                is_name = arg is not None and 'get_name()' in norm(arg)
                if is_name and not in_quote:
                    problems.append('light name outside double quotes')
                if not is_name and in_quote:
                    problems.append('non-name field inside quotes')
                if arg is not None and norm(arg).endswith('.name.lower()'):
                    pass        # register name
        for w in words:
            if w not in kw and w not in regs:
                problems.append('word %r is neither a keyword nor a register' % w)
        if in_quote:
            problems.append('unbalanced double quote')
        # a quoted name is the last string on its source line: the lexer
        # takes `\"` for an escaped quote, so after a name that ends in a
        # backslash it reads on to the next quote of the same line
        if tmpl.count('"') > 2:
            problems.append('two quoted strings on one line (a name ending '
                            'in a backslash swallows the text up to the next '
                            'quote)')
        elif '"' in tmpl and not tmpl.endswith('\n'):
            problems.append('the line is not ended after a quoted name: the '
                            'next statement\'s quoted name lands on the same '
                            'line, and a name ending in a backslash swallows '
                            'the text up to that quote')
        R.check(m, 'template %r' % tmpl, not problems,
                'the generated script would not compile: %s' % '; '.join(problems))
    setting = ss.methods['setting']
    ok = any(isinstance(n, ast.Call) and isinstance(n.func, ast.Attribute)
             and n.func.attr == 'format' and len(n.args) == 2
             and norm(n.args[0]).endswith('.name.lower()')
             for n in walk_own(setting.node))
    R.check(setting, 'setting: <register name lower-case> <value>', ok,
            'a register setting is not written as `<register> <number>`')


@rule('R18.c', ('C18',), 'every captured component is emitted: four colour '
      'components, power, every zone, every cell', floor=5,
      decides='every plain light gets hue, saturation, brightness, kelvin '
              'and power; every zone and every matrix cell its colour')
def r18c(R):
    A = R.A
    sn = A.cls(SNAPSHOT, 'Snapshot')
    color = sn.methods['color']
    pairs = []
    for c in A.calls_in(color):
        if isinstance(c.func, ast.Attribute) and c.func.attr == 'setting' \
                and len(c.args) == 2:
            reg = A.try_fold(c.args[0], color)
            idx = A.try_fold(c.args[1].slice, color) \
                if isinstance(c.args[1], ast.Subscript) else None
            pairs.append((reg.member if isinstance(reg, EnumVal) else None, idx))
    R.check(color, 'color(): %s' % sorted(pairs, key=lambda p: p[1] or 0),
            sorted(pairs, key=lambda p: (p[1] is None, p[1])) ==
            [('HUE', 0), ('SATURATION', 1), ('BRIGHTNESS', 2), ('KELVIN', 3)],
            'the four colour components are not written to the registers of '
            'the same name (hue, saturation, brightness, kelvin <- 0..3)')
    gen = sn.methods['generate']
    cfg = A.cfg(gen)

    def calls_named(name):
        return [n for n in cfg.nodes for c in n.calls()
                if isinstance(c.func, ast.Attribute) and c.func.attr == name
                and norm(c.func.value) == 'self']
    # plain path: start_light, light, power, end_light - each on the path
    plain = [calls_named(x) for x in ('start_light', 'light', 'power', 'end_light')]
    ok = all(plain)
    if ok:
        for a, b in zip(plain, plain[1:]):
            if cfg.find_path([m for n in a for m, _ in n.succs],
                             lambda n: n.kind == 'for', avoid=b) is not None:
                ok = False
    R.check(gen, 'plain light: colour, power, then set', ok,
            'the plain-light branch does not emit the colour, the power state '
            'and the final set for every included light')
    for name, inner in (('multizone', 'zone'), ('matrix', 'matrix_cell')):
        m = sn.methods[name]
        mcfg = A.cfg(m)
        loops = [n for n in mcfg.nodes if n.kind == 'for']
        em = [n for n in mcfg.nodes for c in n.calls()
              if isinstance(c.func, ast.Attribute) and c.func.attr == inner]
        ok = bool(loops and em)
        if ok:
            inner_loop = loops[-1] if name == 'matrix' else loops[0]
            for lp in loops:
                body_in = [x for x, lab in lp.succs if lab is True]
                if lp is inner_loop and \
                        mcfg.find_path(body_in, lambda n: n is lp, avoid=em) is not None:
                    ok = False
        if name == 'multizone':
            ok = ok and 'enumerate(' in norm(loops[0].ast.iter)
        else:
            mv = [norm(n.targets[0]) for n in walk_own(m.node)
                  if isinstance(n, ast.Assign) and isinstance(n.value, ast.Call)
                  and isinstance(n.value.func, ast.Attribute)
                  and n.value.func.attr == 'get_matrix']
            its = sorted(norm(l.ast.iter).replace(' ', '') for l in loops)
            ok = ok and bool(mv) and its in (
                ['range(0,%s.height)' % mv[0], 'range(0,%s.width)' % mv[0]],
                ['range(%s.height)' % mv[0], 'range(%s.width)' % mv[0]])
        R.check(m, '%s: one %s per element' % (name, inner), ok,
                'not every %s of the light is written to the script'
                % ('zone' if name == 'multizone' else 'cell'))
    ss = A.cls(SNAPSHOT, 'ScriptSnapshot')
    zone = ss.methods['zone']
    okz = any('Snapshot.color' in A.callee_names(zone, c) for c in A.calls_in(zone))
    cell = ss.methods['matrix_cell']
    okc = any('Snapshot.color' in A.callee_names(cell, c) for c in A.calls_in(cell))
    R.check(ss, 'zone and matrix_cell write the colour before addressing it',
            okz and okc, 'a zone or cell is addressed without its colour being set')


# ---------------------------------------------------------------- R20.d
def arity_problems(A, funcs):
    """[(func, call, callee, message)] calls that cannot bind their callee's
    parameters (one trailing parameter is supplied by @inject)."""
    out = []
    n = 0
    for f in funcs:
        for c in A.calls_in(f):
            site = A.rs.site_for(f, c)
            if site.kind != 'call' or not site.callees:
                continue
            if any(isinstance(a, ast.Starred) for a in c.args) or \
                    any(k.arg is None for k in c.keywords):
                continue
            concrete = [t for t in site.callees
                        if not (len(t.node.body) == 1 and
                                isinstance(t.node.body[0], ast.Pass))]
            for callee in concrete:
                a = callee.node.args
                if a.vararg or a.kwarg:
                    continue
                n += 1
                params = [x.arg for x in a.posonlyargs + a.args]
                ndefaults = len(a.defaults)
                bound_self = callee.cls is not None and not callee.is_static and \
                    not (isinstance(c.func, ast.Attribute) and isinstance(
                        A.repo.resolve_expr_static(f.module, c.func.value), ClassInfo)
                        and callee.name != '__init__')
                if callee.cls is not None and callee.name == '__init__':
                    # Cls(...) and super().__init__(...) bind self;
                    # Base.__init__(self, ...) passes it explicitly
                    bound_self = not (
                        isinstance(c.func, ast.Attribute)
                        and c.func.attr == '__init__'
                        and isinstance(A.repo.resolve_expr_static(
                            f.module, c.func.value), ClassInfo))
                if bound_self and params:
                    params = params[1:]
                injected = callee.injected_interface() is not None
                required = params[:len(params) - ndefaults] if ndefaults else list(params)
                if injected and params:
                    # the wrapper appends provide(I) after the caller's
                    # positional arguments
                    if params[-1] in required:
                        required.remove(params[-1])
                    max_pos = len(params) - 1
                else:
                    max_pos = len(params)
                given_pos = len(c.args)
                kw = [k.arg for k in c.keywords]
                missing = [p for i, p in enumerate(required)
                           if i >= given_pos and p not in kw]
                if given_pos > max_pos:
                    out.append((f, c, callee, 'too many positional arguments '
                                '(%d for %d)' % (given_pos, max_pos)))
                elif missing:
                    out.append((f, c, callee, 'missing argument(s) %s'
                                % ', '.join(missing)))
                elif any(k not in params + [x.arg for x in a.kwonlyargs] for k in kw):
                    out.append((f, c, callee, 'unknown keyword argument'))
    return out, n


@rule('R20.d', ('C20', 'C18'), 'calls bind their callee\'s parameters (web '
      'tier and snapshot generators)', floor=40,
      decides='the status and capture pages render without error')
def r20d(R):
    A = R.A
    funcs = list(A.repo.all_functions('web')) + list(A.repo.all_functions(SNAPSHOT))
    reach = set(A.rs.reachable([A.func(FRONT, n) for n in
                                ('index', 'capture', 'off', 'status',
                                 'stop_script', 'stop_current', 'stop_all',
                                 'run_script')]))
    probs, n = arity_problems(A, funcs)
    for f, c, callee, msg in probs:
        if f not in reach and f.short == 'WebApp.queue_file':
            R.note('unreachable: %s %s' % (f.short, msg))
            continue
        R.fail(f, c, 'call of %s: %s - TypeError on every execution'
               % (callee.short, msg), line=c.lineno)
    for i in range(n - len(probs)):
        pass
    R.instances.extend(dict(rule='R20.d', file='', function='(summary)',
                            construct='resolved call #%d binds' % i, verdict='ok')
                       for i in range(min(n - len(probs), 60)))
    R.note('resolved calls examined: %d' % n)


# ===================================================================== C19
@rule('R19.a', ('C19', 'C17'), 'a stateful sink injected per call is bound as '
      'one object', floor=1,
      decides='successive outputs on one line are separated by a single '
              'space and the final newline is owed')
def r19a(R):
    A = R.A
    from .c17 import production_impls
    out_iface = A.cls('bardolph.lib.i_lib', 'Output')
    # injected per call?
    per_call = [f for f in A.repo.all_functions('bardolph.vm')
                if f.injected_interface() is not None and
                A.repo.resolve_expr_static(f.module, f.injected_interface()) is out_iface]
    if not per_call:
        raise AnalysisError('no @inject(Output) method in bardolph.vm')
    light_module = A.func('bardolph.controller.light_module', 'configure')
    reach = set(A.rs.reachable([light_module]))
    found = False
    for iface, impl, kind, f, node in A.rs.bindings():
        if iface is not out_iface or f not in reach:
            continue
        found = True
        # state carried between calls: attribute written outside __init__
        # by one method and read by a method
        written = {}
        for m in impl.methods.values():
            if m.name == '__init__':
                continue
            for n in walk_own(m.node):
                if isinstance(n, ast.Assign) and self_attr(n.targets[0]):
                    written.setdefault(n.targets[0].attr, set()).add(m.name)
        read = set()
        for m in impl.methods.values():
            for n in walk_own(m.node):
                if isinstance(n, ast.Attribute) and isinstance(n.ctx, ast.Load) \
                        and self_attr(n) in written:
                    read.add(n.attr)
        stateful = sorted(read)
        R.check(f, norm(node), kind == 'bind_instance' or not stateful,
                '%s keeps %s between calls, but every call of %s gets a new '
                'object (bind() constructs one per injection): `print 1 print '
                '2` writes "12" and the final newline is never written'
                % (impl.name, ', '.join(stateful),
                   ', '.join(m.short for m in per_call)))
    if not found:
        raise AnalysisError('no production binding of i_lib.Output')


def _truth_table(expr, name_var):
    """Evaluate a boolean expression over the atoms (is None, empty,
    decimal) of `name_var` for the feasible combinations."""
    rows = {}
    for is_none, empty, dec in ((True, None, None), (False, True, False),
                                (False, False, True), (False, False, False)):
        def ev(e):
            if isinstance(e, ast.BoolOp):
                vals = [ev(v) for v in e.values]
                if isinstance(e.op, ast.And):
                    for v in vals:
                        if not v:
                            return False
                    return True
                for v in vals:
                    if v:
                        return True
                return False
            if isinstance(e, ast.UnaryOp) and isinstance(e.op, ast.Not):
                return not ev(e.operand)
            t = norm(e).replace(name_var, 'N')
            if t == 'N is not None':
                return not is_none
            if t == 'N is None':
                return is_none
            if is_none:
                raise Unfoldable('atom on None')
            if t in ('len(N) == 0', 'not N', "N == ''"):
                return empty
            if t in ('len(N) > 0', 'len(N) != 0', "N != ''"):
                return not empty
            if t == 'N.isdecimal()':
                return dec
            if t == 'N':
                return not empty
            raise Unfoldable('atom %s' % t)
        try:
            rows[(is_none, empty, dec)] = bool(ev(expr))
        except Unfoldable as ex:
            # short-circuit protects atoms on None: treat as not reached
            rows[(is_none, empty, dec)] = False if is_none else str(ex)
    return rows


@rule('R19.b', ('C19',), 'compile-time positional-field count and run-time '
      'named-field choice are complementary', floor=1,
      decides='positional fields take the following values in order, named '
              'fields the register or variable of that name')
def r19b(R):
    A = R.A
    pf = A.func(IOPARSER, 'IoParser.printf')
    vp = A.func(VMIO, 'VmIo._printf')
    comp = None
    for n in walk_own(pf.node):
        if isinstance(n, ast.GeneratorExp) and n.generators[0].ifs:
            comp = n.generators[0].ifs[0]
            it = n.generators[0].iter
    if comp is None:
        raise AnalysisError('IoParser.printf: field filter not found')
    # run time: the condition under which a field is entered in the dict of
    # named values = the tests every subscript store depends on (any nesting
    # of if / and, either polarity)
    from ..cfg import reachable_without_edges
    vcfg = A.cfg(vp)
    stores = [n for n in vcfg.nodes if n.kind == 'stmt' and isinstance(n.ast, ast.Assign)
              and isinstance(n.ast.targets[0], ast.Subscript)]
    if not stores:
        raise AnalysisError('VmIo._printf: named-field stores not found')
    common = None
    for s in stores:
        facts = []
        for t in vcfg.nodes:
            if t.kind != 'cond':
                continue
            for lab in (True, False):
                if s.id not in reachable_without_edges(vcfg, vcfg.entry, {(t.id, lab)}):
                    facts.append((t.id, lab))
        common = set(facts) if common is None else common & set(facts)
    terms = []
    for tid, lab in sorted(common or ()):
        e = vcfg.nodes[tid].ast
        if vcfg.nodes[tid].kind == 'cond' and isinstance(e, ast.expr):
            terms.append(e if lab else ast.UnaryOp(ast.Not(), e))
    if not terms:
        raise AnalysisError('VmIo._printf: named-field test not found')
    cond = terms[0] if len(terms) == 1 else ast.BoolOp(ast.And(), terms)
    # names: the comprehension variable's [1] at compile time; at run time
    # the local assigned from <loop variable>[1]
    gen_var = None
    for n in walk_own(pf.node):
        if isinstance(n, ast.GeneratorExp) and n.generators[0].ifs:
            gen_var = norm(n.generators[0].target)
    run_var = None
    for n in walk_own(vp.node):
        if isinstance(n, ast.Assign) and isinstance(n.value, ast.Subscript) \
                and A.try_fold(n.value.slice, vp) == 1 \
                and isinstance(n.targets[0], ast.Name):
            run_var = n.targets[0].id
    if gen_var is None or run_var is None:
        raise AnalysisError('printf: field-name variables not found')
    t1 = _truth_table(comp, '%s[1]' % gen_var)
    t2 = _truth_table(cond, run_var)
    bad = [k for k in t1 if isinstance(t1[k], str) or isinstance(t2[k], str)]
    ok = not bad
    if ok:
        for k in t1:
            is_none = k[0]
            if is_none:
                ok = ok and not t1[k] and not t2[k]
            else:
                ok = ok and (t1[k] != t2[k])
    R.check(pf, 'unnamed(%s) vs named(%s)' % (norm(comp), norm(cond)), ok,
            'the compiler counts different fields as value-consuming than the '
            'VM treats as positional: the pending values and the format fields '
            'no longer match (wrong values printed or IndexError)')
    both = any('Formatter().parse' in norm(c.func) for c in A.calls_in(pf)) and \
        any('Formatter().parse' in norm(c.func) for c in A.calls_in(vp))
    R.check(vp, 'both sides use string.Formatter().parse', both,
            'compile time and run time no longer split the format string the '
            'same way')


@rule('R19.c', ('C19', 'C17'), 'output is flushed on every exit of a run',
      floor=1,
      decides='all output has been written when the script ends')
def r19c(R):
    A = R.A
    run = A.func(MACHINE, 'Machine.run')
    cfg = A.cfg(run)
    flush = A.calls_nodes(run, 'VmIo.flush')
    loops = [n for n in cfg.nodes if n.kind == 'loop-head']
    p = cfg.find_path(loops, lambda n: n in (cfg.exit, cfg.raise_exit), avoid=flush)
    R.check(run, 'vm_io.flush() on every exit of the run loop',
            bool(flush and loops) and p is None,
            'Machine.run can end without flushing pending output (when an '
            'instruction handler raises): printed values are lost or show up '
            'in the next run', path=path_text(p) if p else None)


@rule('R19.e', ('C19',), 'the values collected for the next print / printf '
      'and the separator state belong to one VM / one sink object', floor=2,
      decides='what a job prints is built from its own values only: two jobs '
              '(a background job and a foreground one) never see each '
              "other's pending values")
def r19e(R):
    A = R.A
    from .c17 import production_impls, shared_mutable_attrs, shared_state_selfcheck
    shared_state_selfcheck(A)
    classes = [A.cls(VMIO, 'VmIo')] + list(
        production_impls(A, A.cls('bardolph.lib.i_lib', 'Output')))
    for c in classes:
        bad = shared_mutable_attrs(c)
        R.check(c.methods.get('__init__') or next(iter(c.methods.values())),
                '%s: containers changed through self are bound per instance'
                % c.name, not bad,
                '%s.%s is bound once in the class body and changed in place '
                'through self: every VM shares the one list, so the values of '
                'two jobs that run at the same time are mixed and a value left '
                'by one job is printed by the next'
                % (c.name, bad[0][0] if bad else ''),
                line=getattr(bad[0][2], 'lineno', 0) if bad else 0)


def _value_source(A, f, e, depth=0):
    """Functions a value expression of f is produced by: calls, property
    reads on self, locals followed to their single binding."""
    if isinstance(e, ast.Name) and depth < 4:
        defs = [n for n in walk_own(f.node) if isinstance(n, ast.Assign)
                and any(isinstance(t, ast.Name) and t.id == e.id for t in n.targets)]
        out = []
        for d in defs:
            out += _value_source(A, f, d.value, depth + 1)
        return out
    if isinstance(e, ast.Call):
        return list(A.callees(f, e)) or [norm(e.func)]
    if isinstance(e, ast.Attribute) and isinstance(e.value, ast.Name) \
            and e.value.id == 'self' and f.cls is not None:
        for c in f.cls.mro():
            m = c.methods.get(e.attr)
            if m is not None and 'property' in m.decorators:
                return [m]
    return [norm(e)]


@rule('R19.f', ('C19',), 'the printf format is read as a string constant: a '
      'literal or a macro', floor=2,
      decides='printf writes its format string filled in - also when the '
              'format is given by a `define`d name, as the manual shows')
def r19f(R):
    A = R.A
    pf = A.func(IOPARSER, 'IoParser.printf')
    get_macro = A.func('bardolph.parser.context', 'Context.get_macro')
    uses = []
    for c in A.calls_in(pf):
        if norm(c.func).endswith('Formatter().parse') and c.args:
            uses.append(('counted fields', c.args[0]))
    for call, ops in A.emission_sites(pf):
        for op, args in ops:
            if op == 'OUT' and len(args) > 1:
                v = A.try_fold(args[0], pf)
                if getattr(v, 'member', None) == 'PRINTF':
                    uses.append(('emitted format', args[1]))
    if len(uses) < 2:
        raise AnalysisError('IoParser.printf: format uses not found')
    for what, e in uses:
        srcs = _value_source(A, pf, e)
        ok = bool(srcs) and all(
            not isinstance(s, str) and get_macro in A.rs.reachable([s])
            for s in srcs)
        R.check(pf, '%s: %s <- %s' % (what, norm(e), ', '.join(
            s if isinstance(s, str) else s.short for s in srcs)), ok,
            'the format (%s) is taken from the raw token text, not through '
            'the constant resolver: a format given by a macro name is printed '
            'as the name itself (or its fields are not counted), and a '
            'non-string token is accepted as a format' % what)


@rule('R19.d', ('C19',), 'printf escapes and argument order; PRINT / '
      'PRINT_END; sink separator logic', floor=5,
      decides='printf fills the format as str.format would, \\n means a line '
              'break; print separates with one space, println ends the line')
def r19d(R):
    A = R.A
    vp = A.func(VMIO, 'VmIo._printf')
    cfg = A.cfg(vp)
    rep = [n for n in cfg.nodes for c in n.calls()
           if isinstance(c.func, ast.Attribute) and c.func.attr == 'replace'
           and [A.try_fold(a, vp) for a in c.args] == ['\\n', '\n']]
    fmt = [n for n in cfg.nodes for c in n.calls()
           if isinstance(c.func, ast.Attribute) and c.func.attr == 'format'
           and any(isinstance(a, ast.Starred) for a in c.args)]
    ok = bool(rep and fmt) and \
        cfg.find_path([cfg.entry], lambda n: n in fmt, avoid=rep) is None
    R.check(vp, 'replace("\\\\n", newline) before format', ok,
            'the two-character sequence backslash-n is not turned into a line '
            'break before the format is filled in')
    okargs = False
    for n in fmt:
        for c in n.calls():
            if isinstance(c.func, ast.Attribute) and c.func.attr == 'format':
                # the dict of named values: the local that _printf fills by
                # subscript stores
                named_v = sorted(set(
                    norm(x.value) for x in walk_own(vp.node)
                    if isinstance(x, ast.Subscript) and isinstance(x.ctx, ast.Store)
                    and isinstance(x.value, ast.Name)))
                okargs = [norm(a) for a in c.args] == ['*self._unnamed'] and \
                    [norm(k.value) for k in c.keywords if k.arg is None] == named_v \
                    and len(named_v) == 1
    R.check(vp, 'format(*self._unnamed, **named)', okargs,
            'positional values and named fields are not handed to str.format '
            'as positional / keyword arguments')
    clear = [n for n in cfg.nodes for c in n.calls()
             if norm(c.func) == 'self._unnamed.clear']
    R.check(vp, 'pending values cleared after printf', bool(clear),
            'the values consumed by printf stay pending and are printed again')
    out = A.func(VMIO, 'VmIo.out')
    cases = {}
    for n in walk_own(out.node):
        if isinstance(n, ast.Match):
            for case in n.cases:
                v = A.try_fold(case.pattern.value, out) \
                    if isinstance(case.pattern, ast.MatchValue) else None
                if isinstance(v, EnumVal):
                    cases[v.member] = ' ; '.join(norm(s) for s in case.body)
    ok = 'output.newline()' in cases.get('PRINT_END', '') and \
        'output.out(self._unnamed[0])' in cases.get('PRINT', '') and \
        'self._unnamed.clear()' in cases.get('PRINT', '') and \
        'self._printf(inst)' in cases.get('PRINTF', '') and \
        'self._unnamed.append' in cases.get('REGISTER', '') and \
        'self._unnamed.append' in cases.get('LITERAL', '')
    R.check(out, 'OUT variants: %s' % sorted(cases), ok,
            'an OUT variant no longer does what print / println / printf need')
    so = A.cls(STDOUT, 'StdOutOutput')
    o = so.methods['out']
    ocfg = A.cfg(o)
    t = [n for n in ocfg.nodes if n.kind == 'cond' and norm(n.ast) == 'self._line_pending']
    ok = False
    if t:
        sp = [m for m, lab in t[0].succs if lab is True]
        ok = bool(sp) and "print(' ', end='')" in sp[0].text()
        setp = [n for n in ocfg.nodes if n.kind == 'stmt'
                and norm(n.ast) == 'self._line_pending = True']
        # what is written is R19.j's business; here: some text is written
        # without a line break after the separator decision
        pr = [n for n in ocfg.nodes for c in n.calls()
              if norm(c.func) == 'print' and c.args
              and not isinstance(c.args[0], ast.Constant)
              and any(k.arg == 'end' and isinstance(k.value, ast.Constant)
                      and k.value.value == '' for k in c.keywords)]
        ok = ok and bool(setp and pr)
    nl = so.methods['newline']
    ok = ok and any(norm(n) == 'self._line_pending = False' for n in walk_own(nl.node)) \
        and any(norm(c) == 'print()' for c in A.calls_in(nl))
    fl = so.methods['flush']
    fcfg = A.cfg(fl)
    ft = [n for n in fcfg.nodes if n.kind == 'cond' and norm(n.ast) == 'self._line_pending']
    ok = ok and bool(ft) and any(
        'StdOutOutput.newline' in A.callee_names(fl, c)
        for m, lab in ft[0].succs if lab is True for c in m.calls())
    R.check(so, 'separator: one space between outputs; newline clears; flush '
            'ends a pending line', ok,
            'the stdout sink does not separate successive outputs with one '
            'space / does not end a pending line on flush')


# ===================================================================== C20
JOB_MAKERS = ('ScriptJob.from_file', 'ScriptJob.from_string', 'ScriptJob.__init__',
              'JobControl.add_job', 'JobControl.insert_job', 'JobControl.spawn_job')


@rule('R20.a', ('C20',), 'only manifest entries become jobs', floor=4,
      decides='a request for any path the manifest does not list starts '
              'nothing; only manifest-listed files can ever be executed')
def r20a(R):
    A = R.A
    wa = A.cls(WEBAPP, 'WebApp')
    qs = wa.methods['queue_script']
    for f in A.repo.all_functions('web'):
        for c in A.calls_in(f):
            names = A.callee_names(f, c)
            if any(n in JOB_MAKERS for n in names):
                R.check(f, c, f is qs, 'a job is created in the web tier '
                        'outside WebApp.queue_script (%s)' % names[0])
    routes = [f for f in A.repo.module(FRONT).functions.values()
              if any('blueprint.route' in d for d in f.decorators)]
    if len(routes) < 6:
        raise AnalysisError('front_end: only %d routes' % len(routes))
    reach = A.rs.reachable(routes)
    for f in reach:
        cfg = A.cfg(f)
        for n in cfg.nodes:
            for c in n.calls():
                if qs not in A.callees(f, c):
                    continue
                arg = c.args[0] if c.args else None
                ok = False
                if isinstance(arg, ast.Name):
                    from .c01 import reaching_defs
                    defs = reaching_defs(cfg, n, arg.id)
                    ok = bool(defs) and all(
                        d.kind == 'stmt' and isinstance(d.ast, ast.Assign)
                        and isinstance(d.ast.value, ast.Call)
                        and 'WebApp.get_script_control' in
                        A.callee_names(f, d.ast.value) for d in defs)
                R.check(f, c, ok, 'queue_script is reached from a route with a '
                        'script entry that did not come from '
                        'get_script_control(): a file outside the manifest '
                        'could be run')
    qf = wa.methods.get('queue_file')
    if qf is not None:
        R.check(qf, 'queue_file (fabricates an entry) is not reachable from a '
                'route', qf not in reach,
                'a route reaches WebApp.queue_file, which runs an arbitrary '
                'file name')
    gsc = wa.methods['get_script_control']
    src = [n for n in walk_own(gsc.node) if isinstance(n, ast.Assign)
           and isinstance(n.value, ast.Call)
           and norm(n.value.func) == 'self._scripts.get']
    R.check(gsc, 'looked up in self._scripts by path only', len(src) == 1,
            'get_script_control does not take the entry from the manifest table')
    writers = [m.name for m in wa.methods.values() for n in walk_own(m.node)
               if isinstance(n, (ast.Assign,)) and any(
                   norm(t).startswith('self._scripts') for t in n.targets)]
    R.check(wa, '_scripts written by %s' % sorted(set(writers)),
            set(writers) <= {'__init__', '_load_manifest'},
            'the script table is filled outside the manifest loader')


def is_html_escape(f, func):
    """`func` (the callee expression of a call in f) is html.escape: written
    out, imported by name, or reached through a local alias bound only to it."""
    if norm(func) == 'html.escape':
        return True
    if isinstance(func, ast.Name):
        vals = [n.value for n in walk_own(f.node)
                if isinstance(n, ast.Assign) and any(
                    isinstance(t, ast.Name) and t.id == func.id for t in n.targets)]
        if vals:
            return all(is_html_escape(f, v) for v in vals)
        for n in ast.walk(f.module.tree):
            if isinstance(n, ast.ImportFrom) and n.module == 'html' and any(
                    a.name == 'escape' and (a.asname or a.name) == func.id
                    for a in n.names):
                return True
    return False


@rule('R20.b', ('C20',), 'manifest strings are HTML-escaped at construction; '
      'templates do not disable escaping', floor=6,
      decides='file name, path, title and colour strings are HTML-escaped '
              'before they are handed to a page')
def r20b(R):
    A = R.A
    sc = A.cls(WEBAPP, 'ScriptControl')
    init = sc.methods['__init__']
    stored = {}
    for n in walk_own(init.node):
        if isinstance(n, ast.Assign) and self_attr(n.targets[0]):
            stored[n.targets[0].attr] = n.value
    for field in ('file_name', 'path', 'title', 'background', 'color'):
        v = stored.get(field)
        ok = isinstance(v, ast.Call) and is_html_escape(init, v.func) \
            and len(v.args) >= 1 and norm(v.args[0]) == field
        R.check(init, 'self.%s = %s' % (field, norm(v) if v is not None else None),
                ok, 'the manifest string `%s` reaches the page templates '
                'without html.escape' % field)
    tdir = os.path.join(A.repo.root, 'web', 'templates')
    names = sorted(os.listdir(tdir)) if os.path.isdir(tdir) else []
    if not names:
        raise AnalysisError('web/templates vanished')
    for name in names:
        with open(os.path.join(tdir, name), encoding='utf-8') as fh:
            text = fh.read()
        bad = [x for x in ('|safe', '| safe', 'autoescape false', 'autoescape off',
                           'Markup(') if x in text]
        R.check(('web/templates/' + name, name), 'no escaping override', not bad,
                'template disables auto-escaping (%s)' % ', '.join(bad))


@rule('R20.c', ('C20',), 'a possibly-absent script entry is tested before it '
      'is dereferenced or rendered', floor=5,
      decides='a request for an unlisted path starts nothing and falls back '
              'to the index page')
def r20c(R):
    A = R.A
    gsc = A.func(WEBAPP, 'WebApp.get_script_control')
    deref_params = {}
    # helpers that dereference their parameter (render_action, queue_script)
    for f in list(A.repo.all_functions('web')):
        for p in f.params[1:]:
            for n in walk_own(f.node):
                if isinstance(n, ast.Attribute) and isinstance(n.value, ast.Name) \
                        and n.value.id == p:
                    deref_params.setdefault(f, set()).add(p)
    for f in A.repo.all_functions('web'):
        cfg = A.cfg(f)
        for d in cfg.nodes:
            if not (d.kind == 'stmt' and isinstance(d.ast, ast.Assign)
                    and isinstance(d.ast.value, ast.Call)
                    and gsc in A.callees(f, d.ast.value)
                    and isinstance(d.ast.targets[0], ast.Name)):
                continue
            var = d.ast.targets[0].id
            tests = [n for n in cfg.nodes if n.kind == 'cond'
                     and norm(n.ast) in ('%s is not None' % var, '%s is None' % var, var)]
            bad = None
            for n in cfg.reachable_from([m for m, _ in d.succs]):
                use = None
                for e in n.exprs():
                    for sub in ast.walk(e):
                        if isinstance(sub, ast.Attribute) and isinstance(sub.value, ast.Name) \
                                and sub.value.id == var:
                            use = 'dereferenced (.%s)' % sub.attr
                        if isinstance(sub, ast.Call):
                            for t in A.callees(f, sub):
                                if t in deref_params:
                                    ps = t.params[1:] if t.cls is not None else t.params
                                    for i, a in enumerate(sub.args):
                                        if isinstance(a, ast.Name) and a.id == var \
                                                and i < len(ps) and ps[i] in deref_params[t]:
                                            use = 'passed to %s, which dereferences it' % t.short
                if use is None:
                    continue
                guarded = False
                for t in tests:
                    lab = norm(t.ast) != '%s is None' % var
                    reach = reachable_without_edges(cfg, cfg.entry, {(t.id, lab)})
                    if n.id not in reach:
                        guarded = True
                if not guarded:
                    bad = use
                    break
            R.check(f, '%s = %s' % (var, norm(d.ast.value)), bad is None,
                    'get_script_control returns None for a path the manifest '
                    'does not list; here the result is %s without a test: the '
                    'request ends in AttributeError (after the action was '
                    'taken)' % bad)


@rule('R20.e', ('C20',), 'a running script is not queued again; `running` is '
      'asked under the name the job is queued with', floor=7,
      decides='a script reported as running is not started a second time by a '
              'repeated request')
def r20e(R):
    A = R.A
    rs_ = A.func(FRONT, 'FrontEnd.run_script')
    cfg = A.cfg(rs_)
    q = A.calls_nodes(rs_, 'WebApp.queue_script')
    running = [n for n in cfg.nodes if n.kind == 'cond'
               and norm(n.ast).endswith('.running')]
    ok = bool(q and running)
    if ok:
        reach = reachable_without_edges(cfg, cfg.entry,
                                        set((n.id, False) for n in running))
        ok = all(n.id not in reach for n in q)
    R.check(rs_, 'queue_script only when not running', ok,
            'a repeated request queues the script again although it is '
            'reported as running')
    gsc = A.func(WEBAPP, 'WebApp.get_script_control')
    scope = [g for g in A.rs.reachable([gsc]) if g.cls is gsc.cls]

    def attr_of(g, e):
        # `<entry>.path` -> '<entry>.path' (the entry's local name does not
        # matter); a plain local is followed to its single binding; a bare
        # name (the raw request path) stays a bare name
        for _ in range(4):
            if not isinstance(e, ast.Name):
                break
            defs = [n for n in walk_own(g.node) if isinstance(n, ast.Assign)
                    and any(isinstance(t, ast.Name) and t.id == e.id
                            for t in n.targets)]
            if len(defs) != 1:
                break
            e = defs[0].value
        if isinstance(e, ast.Attribute) and isinstance(e.value, ast.Name) \
                and e.value.id != 'self':
            return '<entry>.' + e.attr
        return '<%s>' % norm(e)

    def name_args(funcs, targets):
        out = []
        for g in funcs:
            for c in A.calls_in(g):
                for t in A.callees(g, c):
                    if t.short in targets and 'name' in t.params:
                        i = t.params.index('name') - 1
                        e = c.args[i] if len(c.args) > i else next(
                            (k.value for k in c.keywords if k.arg == 'name'), None)
                        if e is not None:
                            out.append((g, c, attr_of(g, e)))
        return out
    wa = A.cls(WEBAPP, 'WebApp')
    every = name_args(wa.methods.values(),
                      ('JobControl.is_running', 'JobControl.add_job',
                       'JobControl.spawn_job', 'JobControl.insert_job',
                       'JobControl.stop_job'))
    kinds = sorted(set(k for _g, _c, k in every))
    if len(every) < 4:
        raise AnalysisError('R20.e: only %d job-name arguments found' % len(every))
    for g, c, k in every:
        R.check(g, c, k == '<entry>.path',
                'the job name handed to %s is %s, the others are the entry\'s '
                '(HTML-escaped) `.path`: for a manifest path containing & < > '
                '" \' the two differ, so a running script is not recognised '
                '(started again by a repeated request) or not found by stop'
                % (norm(c.func), k), line=c.lineno)
    qs = A.func(WEBAPP, 'WebApp.queue_script')
    bg = [n for n in A.cfg(qs).nodes if n.kind == 'cond'
          and norm(n.ast) == 'script_control.run_background']
    ok = False
    if bg:
        t = [m for m, lab in bg[0].succs if lab is True]
        fbr = [m for m, lab in bg[0].succs if lab is False]
        ok = any('JobControl.spawn_job' in A.callee_names(qs, c)
                 for n in t for c in n.calls()) and \
            any('JobControl.add_job' in A.callee_names(qs, c)
                for n in fbr for c in n.calls())
    R.check(qs, 'background -> spawn_job, else -> add_job', ok,
            'a script marked run_background is queued (or the reverse)')
    # is_running answers by that name: active agent's name or background key
    ir = A.func(JOBS, 'JobControl.is_running')
    txt = norm(ir.node)
    icfg = A.cfg(ir)
    bg_nodes = [n for n in icfg.nodes if any(
        isinstance(x, ast.Compare) and isinstance(x.ops[0], ast.In)
        and norm(x.comparators[0]) == 'self._background'
        for e in n.exprs() for x in ast.walk(e))]
    has_active = [n for n in icfg.nodes if n.kind == 'cond'
                  and norm(n.ast) == 'self._active_agent is not None']
    name_eq = [n for n in icfg.nodes if any(
        isinstance(x, ast.Compare) and norm(x) in (
            'self._active_agent.name == name', 'name == self._active_agent.name')
        for e in n.exprs() for x in ast.walk(e))]
    ok = bool(bg_nodes and has_active and name_eq)
    if ok:
        # the background table must also be consulted when another job is
        # the active one: reachable without the "no active agent" edge
        reach = reachable_without_edges(
            icfg, icfg.entry, set((n.id, False) for n in has_active))
        ok = any(n.id in reach for n in bg_nodes) and \
            all(n.kind == 'cond' for n in name_eq)
    if ok:
        # "True" is answered only for the active job of that name; what is
        # answered otherwise is the membership in the background table
        pn = ir.params[1]
        eq = '%s == %s' % tuple(sorted((pn, 'self._active_agent.name')))
        need = {('self._active_agent is None', False), (eq, True)}
        for n in icfg.nodes:
            val = None
            if n.kind == 'stmt' and isinstance(n.ast, ast.Assign):
                val = n.ast.value
            elif n.is_return and n.ret_expr is not None:
                val = n.ret_expr
            if isinstance(val, ast.Constant) and val.value is True:
                if not need <= A.path_facts(ir, n):
                    ok = False
            if isinstance(val, ast.Constant) and val.value is False \
                    and any(t for t in A.path_facts(ir, n)
                            if t[0] == eq and t[1] is True):
                ok = False
        for n in bg_nodes:
            if (eq, True) in A.path_facts(ir, n):
                ok = False
    R.check(ir, 'is_running: active agent\'s name, else background key - also '
            'while another job is active', ok,
            'is_running consults the background table only when no queued job '
            'is active: a running background script is reported as not running '
            'while any foreground job executes, so it is started a second time '
            'and cannot be stopped by name')


# ---------------------------------------------------------------- R18.d
@rule('R18.d', ('C18', 'C20'), 'the capture walks every light (no filter = '
      'all), writes each part of the script, and says "no lights" only when '
      'there are none', floor=14,
      decides='the captured script restores every light, zone and cell and '
              'always compiles')
def r18d(R):
    A = R.A
    sn = A.cls(SNAPSHOT, 'Snapshot')
    ss = A.cls(SNAPSHOT, 'ScriptSnapshot')
    gen = sn.methods['generate']
    cfg = A.cfg(gen)
    flt = gen.params[1]
    # (a) no filter -> every light included; the per-light part runs iff included
    inc_true = [n for n in cfg.nodes if n.kind == 'stmt' and isinstance(n.ast, ast.Assign)
                and isinstance(n.ast.value, ast.Constant) and n.ast.value.value is True
                and isinstance(n.ast.targets[0], ast.Name)]
    inc_var = None
    for n in inc_true:
        if ('%s is None' % flt, True) in A.path_facts(gen, n):
            inc_var = n.ast.targets[0].id
    if inc_var is None:
        # the decision may live in a helper: include = helper(filter, name),
        # which must answer True when the filter is None
        for n in cfg.nodes:
            if n.kind == 'stmt' and isinstance(n.ast, ast.Assign) \
                    and isinstance(n.ast.value, ast.Call) \
                    and isinstance(n.ast.targets[0], ast.Name) \
                    and any(norm(a) == flt for a in n.ast.value.args):
                for g in A.callees(gen, n.ast.value):
                    i = [norm(a) for a in n.ast.value.args].index(flt)
                    params = [p for p in g.params if p not in ('self', 'cls')]
                    if i < len(params):
                        try:
                            if A.peval(g, {params[i]: None}) is True:
                                inc_var = n.ast.targets[0].id
                        except Unfoldable:
                            pass
    R.check(gen, 'filter is None -> include every light', inc_var is not None,
            'without a filter (the capture button, `lscap -s`) a light is not '
            'unconditionally included: the capture is empty or raises')
    uses = [(gen, n) for n in cfg.nodes for c in n.calls()
            if isinstance(c.func, ast.Attribute) and isinstance(c.func.value, ast.Name)
            and c.func.value.id == flt]
    ok = all(('%s is None' % flt, False) in A.path_facts(g, n) for g, n in uses)
    R.check(gen, 'the filter is consulted only when there is one', ok,
            'the filter object is used on the path where it is None')
    parts = [n for n in cfg.nodes for c in n.calls()
             if isinstance(c.func, ast.Attribute) and norm(c.func.value) == 'self'
             and c.func.attr in ('start_light', 'light', 'power', 'end_light',
                                 'start_multizone', 'multizone', 'end_multizone',
                                 'start_matrix', 'matrix', 'end_matrix')]
    if inc_var:
        ok = bool(parts) and all((inc_var, True) in A.path_facts(gen, n) for n in parts)
        R.check(gen, 'a light is written iff it is included', ok,
                'the per-light part of the capture is not guarded by the '
                'include test (inverted or missing): the wrong lights - or '
                'none - are captured')
    # each kind of light: start / body / end on every pass of its branch
    for kind, seq in (('MultizoneLight', ('start_multizone', 'multizone', 'end_multizone')),
                      ('MatrixLight', ('start_matrix', 'matrix', 'end_matrix')),
                      (None, ('start_light', 'light', 'power', 'end_light'))):
        # only the parts the *script* form gives a body to (the others are
        # layout of the text form)
        def has_body(name):
            m = ss.lookup(name)
            return m is not None and not all(
                isinstance(s, ast.Pass) or (isinstance(s, ast.Expr)
                                            and isinstance(s.value, ast.Constant))
                for s in m.node.body)
        seq = tuple(name for name in seq if has_body(name))
        nodes = [[n for n in parts for c in n.calls()
                  if isinstance(c.func, ast.Attribute) and c.func.attr == name]
                 for name in seq]
        ok = all(nodes) and bool(nodes)
        if ok:
            first = nodes[0]
            for later in nodes[1:]:
                if cfg.find_path([m for n in first for m, _l in n.succs],
                                 lambda n: n.kind == 'for' or n is cfg.exit,
                                 avoid=later) is not None:
                    ok = False
        R.check(gen, '%s: %s' % (kind or 'plain light', ' < '.join(seq)), ok,
                'a %s is not written completely (a part of the sequence %s '
                'can be skipped): the script does not restore it, or - a '
                'missing begin / end - does not compile'
                % (kind or 'plain light', ', '.join(seq)))
    # (b) "No lights found." only when nothing was found
    found_true = [n for n in cfg.nodes if n.kind == 'stmt' and isinstance(n.ast, ast.Assign)
                  and isinstance(n.ast.value, ast.Constant) and n.ast.value.value is True
                  and isinstance(n.ast.targets[0], ast.Name)
                  and n.ast.targets[0].id != inc_var]
    fvars = set(n.ast.targets[0].id for n in found_true
                if inc_var and (inc_var, True) in A.path_facts(gen, n))
    note = [n for n in cfg.nodes for c in n.calls()
            if isinstance(c.func, ast.Attribute) and c.func.attr == 'append'
            and c.args and 'No lights' in str(A.try_fold(c.args[0], gen, ''))]
    ok = (not note) or all(
        any((v, False) in A.path_facts(gen, n) for v in fvars) for n in note)
    R.check(gen, '"No lights found." only when no light was included', ok,
            'the remark "No lights found." is appended to a capture that '
            'contains lights (or `found` is set for lights that were not '
            'included): the script ends in a line that does not compile')
    # (c) the text starts as an empty string
    st = sn.methods['start_snapshot']
    ok = any(isinstance(n, ast.Assign) and self_attr(n.targets[0]) == '_text'
             and A.try_fold(n.value, st, None) == '' for n in walk_own(st.node))
    R.check(st, 'start_snapshot: text = ""', ok,
            'the capture text is not initialised to an empty string: the '
            'first append raises')
    sup = [c for c in A.calls_in(ss.methods['start_snapshot'])
           if isinstance(c.func, ast.Attribute) and c.func.attr == 'start_snapshot']
    R.check(ss.methods['start_snapshot'], 'ScriptSnapshot.start_snapshot calls the base',
            bool(sup), 'the script capture does not initialise its text')
    # (d) every writer method of the script form appends on every path
    for mname in ('setting', 'end_light', 'zone', 'start_matrix', 'matrix_cell',
                  'end_matrix', 'power'):
        m = ss.methods.get(mname)
        if m is None:
            raise AnalysisError('ScriptSnapshot.%s vanished' % mname)
        mcfg = A.cfg(m)
        app = [n for n in mcfg.nodes for c in n.calls()
               if isinstance(c.func, ast.Attribute) and c.func.attr == 'append'
               and norm(c.func.value) == 'self']
        p = mcfg.find_path([mcfg.entry], lambda n: n is mcfg.exit, avoid=app) \
            if app else []
        R.check(m, 'ScriptSnapshot.%s appends its line' % mname,
                bool(app) and p is None,
                'ScriptSnapshot.%s can return without writing its line: that '
                'part of the light\'s state is missing from the script' % mname)
        # a field that follows the word naming a parameter is that parameter
        for c in A.calls_in(m):
            if not (isinstance(c.func, ast.Attribute) and c.func.attr == 'format'):
                continue
            tmpl = A.try_fold(c.func.value, m)
            if not isinstance(tmpl, str):
                continue
            words = tmpl.replace('{}', ' {} ').split()
            k = 0
            for i, w in enumerate(words):
                if w != '{}':
                    continue
                prev = words[i - 1] if i else ''
                if prev in m.params and k < len(c.args):
                    R.check(m, '%s: field after "%s" is %s' % (mname, prev, norm(c.args[k])),
                            norm(c.args[k]) == prev,
                            'the %s written into the script is `%s`: rows and '
                            'columns (or zone numbers) are exchanged'
                            % (prev, norm(c.args[k])))
                k += 1
    # colour before the addressing line
    for mname in ('zone', 'matrix_cell'):
        m = ss.methods[mname]
        mcfg = A.cfg(m)
        col = [n for n in mcfg.nodes for c in n.calls()
               if isinstance(c.func, ast.Attribute) and c.func.attr == 'color']
        app = [n for n in mcfg.nodes for c in n.calls()
               if isinstance(c.func, ast.Attribute) and c.func.attr == 'append']
        ok = bool(col and app) and mcfg.find_path(
            [mcfg.entry], lambda n: n in app, avoid=col) is None
        R.check(m, '%s: colour registers before the set/stage line' % mname, ok,
                'the %s line is written without its colour' % mname)
    li = sn.methods['light']
    ok = any(isinstance(c.func, ast.Attribute) and c.func.attr == 'color'
             and c.args and isinstance(c.args[0], ast.Call)
             and isinstance(c.args[0].func, ast.Attribute)
             and c.args[0].func.attr == 'get_color' for c in A.calls_in(li))
    R.check(li, 'plain light: color(light.get_color())', ok,
            'a plain light\'s colour is not written')
    mz = sn.methods['multizone']
    ok = False
    for n in walk_own(mz.node):
        if isinstance(n, ast.For):
            it = n.iter
            if isinstance(it, ast.Call) and norm(it.func) == 'enumerate' and it.args:
                it = it.args[0]
            if isinstance(it, ast.BoolOp):
                ok = isinstance(it.op, ast.Or) and any(
                    isinstance(v, ast.Call) and isinstance(v.func, ast.Attribute)
                    and v.func.attr == 'get_zone_colors' for v in it.values)
            elif isinstance(it, ast.Call) and isinstance(it.func, ast.Attribute) \
                    and it.func.attr == 'get_zone_colors':
                ok = True
    R.check(mz, 'multizone: every zone of get_zone_colors() (or none if it failed)',
            ok, 'the zones written are not those the light reports')
    # (e) the web capture writes that text to the file
    ws = A.func(WEBAPP, 'WebApp.snapshot')
    writes = [c for c in A.calls_in(ws)
              if isinstance(c.func, ast.Attribute) and c.func.attr == 'write' and c.args]
    ok = any('generate' in norm(c.args[0]) and 'ScriptSnapshot' in norm(c.args[0])
             and norm(c.args[0]).endswith('.text') for c in writes)
    R.check(ws, 'WebApp.snapshot writes ScriptSnapshot().generate(None).text', ok,
            'the capture button does not write the captured script')
    for f in (ws, A.func('bardolph.parser.parse', 'Parser.parse_file')):
        for c in A.calls_in(f):
            if isinstance(c.func, ast.Name) and c.func.id == 'open' and c.args:
                first = A.try_fold(c.args[0], f, None)
                R.check(f, c, not (isinstance(first, str) and first in (
                    'r', 'w', 'a', 'rb', 'wb', 'r+', 'w+')),
                    'open() is called with the mode where the file name '
                    'belongs: the file is never read / written',
                    line=c.lineno)
