"""C06 - The compiler always ends in accept or a line-numbered rejection,
never a crash."""
import ast

from ..analysis import PROPERTY_TEXT, path_text, self_attr
from ..cfg import reachable_without_edges
from ..const import EnumVal, Unfoldable
from ..index import AnalysisError, ClassInfo, FuncInfo, norm
from ..report import rule
from ..resolve import walk_own

PARSE = 'bardolph.parser.parse'
LEX = 'bardolph.parser.lex'
TOKEN = 'bardolph.parser.token'
SCRIPTJOB = 'bardolph.controller.script_job'

PROPERTY_TEXT['C06'] = (
    'every parse routine (computed closure from Parser._script and the command '
    'table) ends every path in True, a delegated result, a propagated failure '
    'or a failure reported through trigger_error - never by falling off the '
    'end or failing silently (R06.a/b); every command handler consumes a token '
    'on each successful path and every token-driven loop makes progress '
    '(R06.c); no word can impersonate a token class the lexer assigns by '
    'classification, and keyword lookup is case-preserving (R06.d); the '
    'conversions that can raise on user text (int/float, Formatter.parse, '
    'Enum[...], arithmetic on constants) are guarded (R06.e); a rejected '
    'compile leaves the job without a program (R06.f); every op-code / operand '
    'the compiler can emit has a VM handler (R01.a) and JSR names a known '
    'routine (R05.c); a result that is never None is not tested against None '
    '(R06.h).',
    'absence of every possible exception, run-time stack underflow, recursion '
    'depth on deeply nested input.')


# ------------------------------------------------------ parse routines
def parse_routines(A):
    """(P, predicates): P = functions of bardolph.parser whose result is used
    as a verdict (a condition or a returned value) by Parser._script, the
    command table or another member of P, closed over the call graph, minus
    the *predicates* (functions that cannot consume a token, emit or report)."""
    memo = A._memo.get('parse_routines')
    if memo:
        return memo
    script = A.func(PARSE, 'Parser._script')
    command = A.func(PARSE, 'Parser._command')
    next_token = A.func(PARSE, 'Parser.next_token')
    trigger = A.func(PARSE, 'Parser.trigger_error')
    add_inst = A.func('bardolph.parser.code_gen', 'CodeGen.add_instruction')
    effects = {next_token, trigger, add_inst}

    def is_parser(f):
        return f.module.name.startswith('bardolph.parser')

    reach_memo = {}

    def has_effect(f):
        if f not in reach_memo:
            reach_memo[f] = any(t in effects for t in A.rs.reachable([f]))
        return reach_memo[f]

    P = []
    todo = [script] + A.rs.callees(command, ('call',))
    while todo:
        f = todo.pop()
        if f in P or not is_parser(f) or f.is_property and False:
            continue
        if f.cls is not None and f.cls.name in ('Token', 'TokenTypes', 'Lex',
                                                'CodeGen', 'SymbolTable'):
            continue
        P.append(f)
        cfg = A.cfg(f)
        for n in cfg.nodes:
            exprs = []
            if n.kind == 'cond':
                exprs.append(n.ast)
            elif n.is_return and n.ret_expr is not None:
                exprs.append(n.ret_expr)
            elif n.kind == 'stmt' and isinstance(n.ast, ast.Assign) \
                    and isinstance(n.ast.value, ast.Call):
                # result = self.command_seq(); ... return result
                tgt = n.ast.targets[0]
                if isinstance(tgt, ast.Name) and any(
                        r.ret_expr is not None and norm(r.ret_expr) == tgt.id
                        for r in cfg.return_nodes()):
                    exprs.append(n.ast.value)
            for e in exprs:
                # only calls whose value *is* the tested / returned value
                for c in _verdict_calls(e):
                    for t in A.callees(f, c):
                        if t not in P:
                            todo.append(t)
    predicates = [f for f in P if not has_effect(f)]
    P = [f for f in P if f not in predicates]
    A._memo['parse_routines'] = (P, predicates)
    return P, predicates


def _verdict_calls(e):
    """Calls whose truth value decides expression e: e itself, operands of
    not / and / or."""
    if isinstance(e, ast.Call):
        return [e]
    if isinstance(e, ast.UnaryOp) and isinstance(e.op, ast.Not):
        return _verdict_calls(e.operand)
    if isinstance(e, ast.BoolOp):
        out = []
        for v in e.values:
            out += _verdict_calls(v)
        return out
    return []


def reports(A, f, call):
    """The call reaches Parser.trigger_error on every path (it is a
    reporter) - or is trigger_error itself."""
    trigger = A.func(PARSE, 'Parser.trigger_error')
    callees = A.callees(f, call)
    if not callees:
        return False
    must = A._memo.get('must_report')
    if must is None:
        must = {}
        A._memo['must_report'] = must
    ok = True
    for t in callees:
        if t is trigger:
            continue
        if t not in must:
            must[t] = _must_call(A, t, trigger, set())
        ok = ok and must[t]
    return ok


def _must_call(A, f, target, stack):
    if f in stack:
        return False
    cfg = A.cfg(f)
    hit = []
    for n in cfg.nodes:
        for c in n.calls():
            cs = A.callees(f, c)
            if cs and all(t is target or _must_call(A, t, target, stack | {f})
                          for t in cs):
                hit.append(n)
                break
    return cfg.find_path([cfg.entry], lambda n: n.is_return, avoid=hit) is None


@rule('R06.a', ('C06',), 'every parse routine ends every path with a verdict; '
      'a failure is propagated or reported with a line number', floor=60,
      decides='the compiler either accepts or rejects with at least one '
              'message that names a line; it never fails silently')
def r06a(R):
    A = R.A
    P, predicates = parse_routines(A)
    if len(P) < 50:
        raise AnalysisError('only %d parse routines found' % len(P))
    Pset = set(P)
    R.note('parse routines: %d, predicates split off: %d (%s)' % (
        len(P), len(predicates), ', '.join(sorted(p.short for p in predicates))))
    trigger = A.func(PARSE, 'Parser.trigger_error')
    for f in sorted(P, key=lambda x: x.short):
        if f is trigger:
            R.ok(f, 'the reporter itself: appends "Line N: ..." and returns False')
            continue
        cfg = A.cfg(f)
        n_fail = 0
        bad = False
        for r in cfg.return_nodes():
            if r.id not in set(x.id for x in cfg.reachable_from([cfg.entry])):
                continue
            kind, how = A.ret_class(f, r)
            if kind != 'fail':
                continue
            n_fail += 1
            # reported in the return expression itself?
            if isinstance(r.ret_expr, ast.Call) and r.ret_truth is None \
                    and reports(A, f, r.ret_expr):
                continue
            # synthetic falsy value of a parse-routine call: propagation
            if r.ret_truth is False:
                cs = [t for c in _verdict_calls(r.ret_expr)
                      for t in A.callees(f, c)]
                if cs and all(t in Pset for t in cs):
                    continue
            # walk backwards: every path into r must come through the False
            # edge of a parse-routine test or pass a reporter call
            p = _unjustified_path(A, f, r, Pset)
            if p is not None:
                bad = True
                R.fail(f, r.text() if r.kind != 'implicit-return'
                       else 'falls off the end of %s' % f.name,
                       'this exit yields a falsy value (%s) without a message '
                       'and without propagating a failed sub-parse: the script '
                       'is rejected silently (empty error output) or, for a '
                       'command handler, treated as a syntax error with no '
                       'explanation' % how, path=path_text(p), line=r.line)
        if not bad:
            R.ok(f, '%d failing exit(s) justified' % n_fail)


def _unjustified_path(A, f, rnode, Pset):
    """A path entry -> rnode along which no parse-routine failure is being
    propagated and nothing is reported; None when every path is justified."""
    cfg = A.cfg(f)
    seen = set()
    # state: node reached walking backwards
    todo = [(rnode, [rnode])]
    while todo:
        n, path = todo.pop()
        if n is cfg.entry:
            return list(reversed(path))
        for p, lab in n.preds:
            if (p.id, lab) in seen:
                continue
            seen.add((p.id, lab))
            # reporter call in p?
            if any(reports(A, f, c) for c in p.calls()):
                continue
            if p.kind == 'cond':
                cs = [t for c in _verdict_calls(p.ast) for t in A.callees(f, c)]
                if cs and all(t in Pset for t in cs) and lab is False:
                    continue        # propagation of a failed sub-parse
            if p.kind == 'stmt' and isinstance(p.ast, ast.Assign) and \
                    isinstance(p.ast.value, ast.Call) and \
                    rnode.ret_expr is not None and \
                    norm(p.ast.targets[0]) == norm(rnode.ret_expr):
                cs = A.callees(f, p.ast.value)
                if cs and all(t in Pset for t in cs):
                    continue
            todo.append((p, path + [p]))
    return None


# ---------------------------------------------------------------- R06.c
@rule('R06.c', ('C06',), 'the main loop makes progress: every command handler '
      'consumes a token on success; token-driven loops advance', floor=25,
      decides='the compiler finishes on every input')
def r06c(R):
    A = R.A
    next_token = A.func(PARSE, 'Parser.next_token')
    command = A.func(PARSE, 'Parser._command')
    script = A.func(PARSE, 'Parser._script')
    is_next = lambda t: t is next_token
    P0, preds0 = parse_routines(A)
    must = A.must_reach_call(script, is_next, verdict_funcs=P0 + preds0)
    handlers = [h for h in A.rs.callees(command, ('call',))
                if h.cls is not None and h.cls.name == 'Parser']
    for h in sorted(handlers, key=lambda x: x.short):
        R.check(h, 'consumes a token on every successful path',
                must.get(h, False),
                'this command handler can succeed without consuming its '
                'keyword: the statement loop calls it again on the same token '
                'for ever', path=None)
    # token-driven loops
    P, _pred = parse_routines(A)
    for f in P:
        cfg = A.cfg(f)
        for head in [n for n in cfg.nodes if n.kind == 'loop-head']:
            test = norm(head.ast.test)
            if 'current_token' not in test:
                continue
            conds = [m for m, _ in head.succs]
            body_entries = []
            seen = set()
            todo = list(conds)
            # the first nodes of the loop body: successors by True edges of
            # the test conds (test may be several cond nodes)
            test_nodes = []
            while todo:
                c = todo.pop()
                if c.id in seen or c.kind != 'cond' or \
                        c.ast not in list(ast.walk(head.ast.test)):
                    continue
                seen.add(c.id)
                test_nodes.append(c)
                for m, _lab in c.succs:
                    todo.append(m)
            body = [n for n in cfg.reachable_from(test_nodes, avoid=[head])
                    if n not in test_nodes]
            adv = [n for n in body if any(
                all(t is next_token or must.get(t, False)
                    for t in A.callees(f, c)) and A.callees(f, c)
                for c in n.calls())]
            starts = [m for c in test_nodes for m, _l in c.succs
                      if m not in test_nodes]
            nested = any(head.ast is not w and isinstance(w, ast.While)
                         and any(x is head.ast for x in ast.walk(w))
                         for w in ast.walk(f.node))
            if (f.short, 'inner') in PROGRESS_EXCEPTIONS and nested:
                R.note('not decided: %s inner loop - %s' % (
                    f.short, PROGRESS_EXCEPTIONS[(f.short, 'inner')]))
                continue
            from ..cfg import find_path_sensitive
            on_node, on_edge = A.token_type_hooks(f, adv)
            # enter the body through the True edges of the loop test
            p = _cycle_path(cfg, head, adv, on_node, on_edge)
            R.check(f, 'while %s' % test, p is None,
                    'the loop can go round without consuming a token: the '
                    'compiler does not terminate on some input',
                    path=path_text(p) if p else None)


PROGRESS_EXCEPTIONS = {
    ('ExpressionParser._expression', 'inner'):
        'progress of the precedence-climbing inner loop depends on the '
        'relation between its condition (prec > op.prec) and the entry '
        'condition of the recursive call (prec >= min_prec with min_prec = '
        'that same prec); a value relation, outside a structural rule',
}


def _cycle_path(cfg, head, adv, on_node, on_edge):
    """A feasible path head -> ... -> head that passes no advancing node."""
    from ..cfg import find_path_sensitive
    first = [True]

    def goal(n):
        return n is head and not first[0]
    # start from the successors of head so that reaching head again is a cycle
    starts = [m for m, _l in head.succs]
    first[0] = False
    return find_path_sensitive(cfg, starts, lambda n: n is head, avoid=adv,
                               on_node=on_node, on_edge=on_edge)


# ---------------------------------------------------------------- R06.d
def keyword_domain(A):
    """How Lex._token_type turns a word into a keyword token type:
    dict(kind='members'|'table', keys=set of words or None, case_fold=bool,
         values={word: member})."""
    f = A.func(LEX, 'Lex._token_type')
    word = f.params[1]
    for node in walk_own(f.node):
        if isinstance(node, ast.Call) and isinstance(node.func, ast.Attribute) \
                and node.func.attr == 'get' and node.args:
            base = norm(node.func.value)
            arg = node.args[0]
            fold_case = norm(arg) != word
            if base.endswith('.__members__'):
                enum = A.repo.resolve_expr_static(f.module, node.func.value.value)
                if isinstance(enum, ClassInfo) and enum.is_enum():
                    return dict(kind='members', case_fold=fold_case,
                                values={m.lower(): m for m in enum.enum_members()},
                                node=node, func=f)
            try:
                table = A.fold(node.func.value, f)
            except Unfoldable:
                continue
            if isinstance(table, dict) and table and all(
                    isinstance(v, EnumVal) for v in table.values()):
                return dict(kind='table', case_fold=fold_case,
                            values={k: v.member for k, v in table.items()},
                            node=node, func=f)
    raise AnalysisError('Lex._token_type: keyword lookup not found')


def classification_types(A):
    """Token classes the lexer assigns by classification (not by word)."""
    out = set()
    lex = A.cls(LEX, 'Lex')
    for name in ('tokens', '_token_type'):
        m = lex.methods[name]
        for node in walk_own(m.node):
            if isinstance(node, ast.Attribute):
                v = A.try_fold(node, m)
                if isinstance(v, EnumVal) and v.enum == 'TokenTypes':
                    out.add(v.member)
                # a table kept as a class attribute (self._PAIRS / Lex._PAIRS)
                if node.attr in lex.class_attrs and norm(node.value) in (
                        'self', 'Lex', 'cls'):
                    for x in ast.walk(lex.class_attrs[node.attr]):
                        if isinstance(x, ast.Attribute):
                            w = A.try_fold(x, lex)
                            if isinstance(w, EnumVal) and w.enum == 'TokenTypes':
                                out.add(w.member)
    return out


@rule('R06.d', ('C06', 'C16'), 'keyword lookup: case-preserving, lower-case '
      'keys, no word maps to a token class assigned by classification', floor=40,
      decides='no word can impersonate an internal token class (crash / '
              'silent truncation); names are case-sensitive and only the '
              'documented lower-case keywords are reserved')
def r06d(R):
    A = R.A
    dom = keyword_domain(A)
    f = dom['func']
    internal = classification_types(A)
    if len(internal) < 8:
        raise AnalysisError('classification token types: only %s' % internal)
    R.check(f, dom['node'], not dom['case_fold'],
            'the word is case-folded before the keyword lookup: `If`, `IF` '
            'etc. are treated as keywords and cannot be used as names')
    # members referenced by the parser proper
    used = set()
    for mod in A.repo.modules.values():
        if not mod.name.startswith('bardolph.parser') or \
                mod.name in (LEX, TOKEN):
            continue
        for node in ast.walk(mod.tree):
            if isinstance(node, ast.Attribute) and \
                    norm(node.value) == 'TokenTypes':
                used.add(node.attr)
    # ... or consulted through the token's text ('not', operator words)
    words_used = set()
    for mod in A.repo.modules.values():
        if mod.name.startswith('bardolph.parser') and mod.name != LEX:
            for node in ast.walk(mod.tree):
                if isinstance(node, ast.Constant) and isinstance(node.value, str) \
                        and node.value.isalpha() and node.value.islower():
                    words_used.add(node.value)
    used |= set(w.upper() for w in words_used)
    for word, member in sorted(dom['values'].items()):
        ok = member not in internal
        R.check(f, 'word %r -> TokenTypes.%s' % (word, member), ok,
                'the word %r is lexed as a token of class %s, which the parser '
                'expects only from the lexer\'s own classification: the text is '
                'silently cut short (EOF) or a conversion of its content '
                'raises (NUMBER, TIME_PATTERN, ...)' % (word, member))
        if ok:
            R.check(f, 'keyword %r is lower-case and consulted by the parser'
                    % word, word == word.lower() and member in used,
                    'the reserved word %r is not a lower-case keyword the '
                    'parser knows: it cannot be used as a name for no reason'
                    % word)


# ---------------------------------------------------------------- R06.e
NUMERIC_TYPES = {'int', 'float', 'Number', 'numbers.Number'}


def _guarded_by(A, f, node_ast, kind):
    """Is the construct dominated by a suitable guard?
    kind 'number-token': is_a(TokenTypes.NUMBER) true-edge dominates;
    kind 'isinstance-num': isinstance(x, (int, float)) true-edge dominates;
    kind 'try:<Exc>': inside a try whose handler catches Exc."""
    cfg = A.cfg(f)
    nodes = [n for n in cfg.nodes
             if any(sub is node_ast for e in n.exprs() for sub in ast.walk(e))]
    if not nodes:
        return False, 'construct not in CFG'
    if kind.startswith('try:'):
        exc = kind[4:]
        for t in walk_own(f.node):
            if isinstance(t, ast.Try) and any(
                    sub is node_ast for s in t.body for sub in ast.walk(s)):
                for h in t.handlers:
                    names = norm(h.type) if h.type is not None else 'BaseException'
                    if exc in names or 'Exception' == names:
                        return True, 'try/except %s' % names
        return False, 'no enclosing try handles %s' % exc
    for c in cfg.nodes:
        if c.kind != 'cond':
            continue
        label = None
        t = c.ast
        if kind == 'number-token' and isinstance(t, ast.Call) and t.args:
            v = A.try_fold(t.args[0], f)
            if isinstance(v, EnumVal) and v.member == 'NUMBER' and \
                    isinstance(t.func, ast.Attribute) and t.func.attr == 'is_a':
                label = True
        if kind == 'isinstance-num' and isinstance(t, ast.Call) and \
                norm(t.func) == 'isinstance' and len(t.args) == 2:
            types = t.args[1].elts if isinstance(t.args[1], ast.Tuple) else [t.args[1]]
            if all(norm(x) in NUMERIC_TYPES for x in types):
                label = True
        if label is None:
            continue
        reach = reachable_without_edges(cfg, cfg.entry, {(c.id, label)})
        if all(n.id not in reach for n in nodes):
            return True, 'dominated by %s' % norm(t)
        # IfExp form: int(x) if <guard> else ...  handled by caller
    return False, 'no dominating guard'


LAZY_WRAPPERS = {'iter', 'map', 'filter', 'enumerate', 'zip', 'reversed'}


def _lazy_uses(f, call, depth=0):
    """Loads of the locals that hold the still unconsumed iterator returned
    by `call` (directly, or wrapped in a generator expression / iter / map /
    filter / enumerate): the places where it is consumed or handed on."""
    def holds(v, src_names):
        if v is call:
            return True
        if isinstance(v, ast.Name) and v.id in src_names:
            return True
        if isinstance(v, ast.GeneratorExp):
            return holds(v.generators[0].iter, src_names)
        if isinstance(v, ast.Call) and norm(v.func) in LAZY_WRAPPERS:
            return any(holds(a, src_names) for a in v.args)
        return False
    names = set()
    stores = set()
    changed = True
    while changed:
        changed = False
        for st in walk_own(f.node):
            if isinstance(st, ast.Assign) and len(st.targets) == 1 \
                    and isinstance(st.targets[0], ast.Name) \
                    and holds(st.value, names) and st.targets[0].id not in names:
                names.add(st.targets[0].id)
                changed = True
    uses = []
    for st in walk_own(f.node):
        if isinstance(st, ast.Assign) and len(st.targets) == 1 \
                and isinstance(st.targets[0], ast.Name) \
                and st.targets[0].id in names and holds(st.value, names):
            # a lazy re-binding is not a consumption
            for sub in ast.walk(st.value):
                stores.add(id(sub))
    for n in walk_own(f.node):
        if isinstance(n, ast.Name) and isinstance(n.ctx, ast.Load) \
                and n.id in names and id(n) not in stores:
            uses.append(n)
    return uses



@rule('R06.e', ('C06',), 'conversions of user text that can raise are guarded',
      floor=4,
      decides='the compiler never fails with an internal error on any text')
def r06e(R):
    A = R.A
    for f in A.repo.all_functions('bardolph.parser'):
        if f.name == 'main' or f.name.startswith('_init_args'):
            continue
        for node in walk_own(f.node):
            # int(text) / float(text)
            if isinstance(node, ast.Call) and norm(node.func) in ('int', 'float') \
                    and node.args and _is_token_text(A, f, node.args[0]):
                ok, why = _guarded_by(A, f, node, 'number-token')
                if not ok:
                    ok, why = _guarded_by(A, f, node, 'try:ValueError')
                R.check(f, node, ok, '%s of token text without a NUMBER-class '
                        'guard or ValueError handler (%s): arbitrary text '
                        'raises ValueError out of the compiler'
                        % (norm(node.func), why))
            # string.Formatter().parse(...)
            if isinstance(node, ast.Call) and isinstance(node.func, ast.Attribute) \
                    and node.func.attr == 'parse' and 'Formatter' in norm(node.func.value):
                ok, why = _guarded_by(A, f, node, 'try:ValueError')
                R.check(f, node, ok, 'the format string comes from the script; '
                        'Formatter.parse raises ValueError on an unbalanced '
                        'brace and nothing here handles it (%s)' % why)
                # parse() returns a generator: the ValueError is raised where
                # the fields are consumed, not where parse() is called
                for use in _lazy_uses(f, node):
                    ok, why = _guarded_by(A, f, use, 'try:ValueError')
                    R.check(f, use, ok, 'Formatter.parse returns a lazy '
                            'iterator: the ValueError for an unbalanced brace '
                            'is raised where `%s` is consumed, and that is '
                            'outside the handler (%s)' % (norm(use), why))
            # Enum[...] with a computed key
            if isinstance(node, ast.Subscript) and isinstance(node.ctx, ast.Load) \
                    and not isinstance(node.slice, ast.Constant):
                target = A.repo.resolve_expr_static(f.module, node.value)
                if isinstance(target, ClassInfo) and target.is_enum():
                    ok, why = _enum_subscript_guarded(A, f, node, target)
                    R.check(f, node, ok, 'Enum lookup by a name computed from '
                            'the token (%s): an unexpected token raises '
                            'KeyError out of the compiler' % why)
            # arithmetic on a compile-time constant taken from the token
            if isinstance(node, ast.AugAssign) and isinstance(node.target, ast.Name) \
                    and isinstance(node.op, (ast.Mult, ast.Add, ast.Sub, ast.Div)):
                src = _defined_from_constant(A, f, node.target.id)
                if src:
                    ok, why = _guarded_by(A, f, node, 'isinstance-num')
                    R.check(f, node, ok, 'arithmetic on the value of a literal '
                            'or macro that may be a string or a time pattern '
                            '(%s): TypeError out of the compiler' % why)


def _is_token_text(A, f, arg):
    """arg is the text of the current token: str(<token>), <token>.content,
    or a local assigned from one of those."""
    def texty(e):
        t = norm(e)
        return ('current_token' in t and (t.startswith('str(') or
                                          t.endswith('.content')))
    if texty(arg):
        return True
    if isinstance(arg, ast.Name):
        for node in walk_own(f.node):
            if isinstance(node, ast.Assign) and any(
                    isinstance(t, ast.Name) and t.id == arg.id
                    for t in node.targets) and texty(node.value):
                return True
    return False


def _enum_subscript_guarded(A, f, node, enum):
    """Enum[X.name] where X was tested `in (members...)` whose names all are
    members of `enum`, the failing branch leaving the function."""
    cfg = A.cfg(f)
    nodes = [n for n in cfg.nodes
             if any(sub is node for e in n.exprs() for sub in ast.walk(e))]
    members = set(enum.enum_members())
    key = norm(node.slice)
    for c in cfg.nodes:
        if c.kind != 'cond' or not isinstance(c.ast, ast.Compare):
            continue
        op = c.ast.ops[0]
        if not isinstance(op, (ast.In, ast.NotIn)):
            continue
        if not key.startswith(norm(c.ast.left)):
            continue
        vals = A.try_fold(c.ast.comparators[0], f)
        if not vals or not all(isinstance(v, EnumVal) and v.member in members
                               for v in vals):
            continue
        label = isinstance(op, ast.In)
        reach = reachable_without_edges(cfg, cfg.entry, {(c.id, label)})
        if all(n.id not in reach for n in nodes):
            return True, 'guarded by %s' % norm(c.ast)
    return False, 'no membership guard covering the enum\'s members'


def _defined_from_constant(A, f, name):
    for node in walk_own(f.node):
        if isinstance(node, ast.Assign) and any(
                isinstance(t, ast.Name) and t.id == name for t in node.targets) \
                and isinstance(node.value, ast.Call):
            if any(x.split('.')[-1] in ('_current_constant', '_current_literal')
                   for x in A.callee_names(f, node.value)):
                return True
    return False


# ---------------------------------------------------------------- R06.f
@rule('R06.f', ('C06', 'C17'), 'a rejected compile leaves the job without a '
      'runnable program', floor=4,
      decides='a rejected text yields no program that could run')
def r06f(R):
    A = R.A
    job = A.cls(SCRIPTJOB, 'ScriptJob')
    for name in ('load_file', 'load_string'):
        m = job.methods[name]
        cfg = A.cfg(m)
        tests = [n for n in cfg.nodes if n.kind == 'cond' and any(
            x.startswith('Parser.parse') for c in n.calls()
            for x in A.callee_names(m, c))]
        if not tests:
            R.fail(m, name, 'the result of the compile is not tested')
            continue
        t = tests[0]
        fail_side = cfg.reachable_from([x for x, lab in t.succs if lab is False],
                                       avoid=[t])
        ok_side = cfg.reachable_from([x for x, lab in t.succs if lab is True],
                                     avoid=[t])
        stores = [n for n in fail_side if n not in ok_side and n.kind == 'stmt'
                  and isinstance(n.ast, ast.Assign)
                  and self_attr(n.ast.targets[0]) == '_program']
        good = stores and all(
            isinstance(n.ast.value, ast.Constant) and n.ast.value.value is None
            or (isinstance(n.ast.value, ast.List) and not n.ast.value.elts)
            for n in stores)
        R.check(m, 'failed compile: _program = %s' % (
            norm(stores[0].ast.value) if stores else '<unchanged>'), bool(good),
            'after a rejected compile the job keeps (or takes) a program: the '
            'partially generated code could be executed')
    ex = job.methods['execute']
    cfg = A.cfg(ex)
    runs = A.calls_nodes(ex, 'Machine.run')
    guards = [(n, True) for n in cfg.nodes if n.kind == 'cond'
              and norm(n.ast) in ('self._program is not None', 'self._program')]
    guards += [(n, False) for n in cfg.nodes if n.kind == 'cond'
               and norm(n.ast) == 'self._program is None']
    ok = bool(runs and guards)
    if ok:
        reach = reachable_without_edges(cfg, cfg.entry,
                                        set((g.id, lab) for g, lab in guards))
        ok = all(r.id not in reach for r in runs)
    R.check(ex, 'run only when a program exists', ok,
            'execute() runs the machine even when there is no compiled program')
    pf = A.func(PARSE, 'Parser.parse_file')
    pcfg = A.cfg(pf)
    handlers = [n for n in pcfg.nodes if n.kind == 'except']
    bad = []
    for h in handlers:
        for r in pcfg.reachable_from([h]):
            if r.is_return and A.ret_class(pf, r)[0] != 'fail':
                bad.append(r)
    R.check(pf, 'I/O error paths return a falsy value', not bad,
            'parse_file reports success although the file could not be read')


# ---------------------------------------------------------------- R06.h
def never_none(A, f, depth=0, stack=()):
    """Every value f can return is provably not None."""
    if depth > 4 or f in stack:
        return False
    cfg = A.cfg(f)
    rets = cfg.return_nodes()
    if not rets:
        return False
    for r in rets:
        if r.kind == 'implicit-return' or r.ret_expr is None:
            return False
        if not _expr_never_none(A, f, r.ret_expr, r, depth, stack + (f,)):
            return False
    return True


def _expr_never_none(A, f, e, node, depth, stack):
    if isinstance(e, ast.Constant):
        return e.value is not None
    if isinstance(e, ast.Call):
        target = A.repo.resolve_expr_static(f.module, e.func)
        if isinstance(target, ClassInfo):
            return True
        if isinstance(e.func, ast.Attribute) and e.func.attr == 'get' \
                and len(e.args) == 2:
            # container.get(k, <non-None default>) with only non-None stores
            if _expr_never_none(A, f, e.args[1], node, depth, stack):
                attr = self_attr(e.func.value)
                if attr and f.cls is not None:
                    stores = []
                    for m in f.cls.methods.values():
                        for n in walk_own(m.node):
                            if isinstance(n, ast.Assign) and isinstance(
                                    n.targets[0], ast.Subscript) and \
                                    self_attr(n.targets[0].value) == attr:
                                stores.append((m, n.value))
                    return bool(stores) and all(
                        _expr_never_none(A, m, v, None, depth, stack)
                        for m, v in stores)
            return False
        callees = A.callees(f, e)
        return bool(callees) and all(
            never_none(A, t, depth + 1, stack) for t in callees)
    if isinstance(e, ast.Name) and node is not None:
        from .c01 import reaching_defs
        defs = reaching_defs(A.cfg(f), node, e.id)
        return bool(defs) and all(
            d.kind == 'stmt' and isinstance(d.ast, ast.Assign)
            and _expr_never_none(A, f, d.ast.value, d, depth, stack)
            for d in defs)
    if isinstance(e, (ast.List, ast.Tuple, ast.Dict, ast.Set, ast.JoinedStr)):
        return True
    return False


@rule('R06.h', ('C06', 'C11'), 'a result that can never be None is not tested '
      'against None (sentinel mismatch)', floor=6,
      decides='invalid time patterns and undefined macro names are rejected '
              'where they are written')
def r06h(R):
    A = R.A
    from .c01 import reaching_defs
    for f in A.repo.all_functions('bardolph.parser'):
        cfg = A.cfg(f)
        for n in cfg.nodes:
            if n.kind != 'cond' or not isinstance(n.ast, ast.Compare):
                continue
            c = n.ast
            if len(c.ops) != 1 or not isinstance(c.ops[0], (ast.Is, ast.IsNot)) \
                    or not (isinstance(c.comparators[0], ast.Constant)
                            and c.comparators[0].value is None):
                continue
            sources = []
            if isinstance(c.left, ast.Call):
                sources = [(n, c.left)]
            elif isinstance(c.left, ast.Name):
                defs = reaching_defs(cfg, n, c.left.id)
                if defs and all(d.kind == 'stmt' and isinstance(d.ast, ast.Assign)
                                and isinstance(d.ast.value, ast.Call) for d in defs):
                    sources = [(d, d.ast.value) for d in defs]
            if not sources:
                continue
            calls = [(d, call) for d, call in sources
                     if A.callees(f, call)
                     and all(isinstance(t, FuncInfo) for t in A.callees(f, call))]
            if len(calls) != len(sources):
                continue
            nn = all(all(never_none(A, t) for t in A.callees(f, call))
                     for _d, call in calls)
            R.check(f, c, not nn,
                    '%s can never be None (every return of %s is an object), '
                    'so this test is dead: the failure it is meant to catch '
                    '(invalid pattern / undefined macro) goes unnoticed'
                    % (norm(c.left), ', '.join(
                        t.short for _d, call in calls
                        for t in A.callees(f, call))))


@rule('R06.i', ('C06', 'C03'), 'routine parameters are declared inside the '
      'routine\'s scope', floor=1,
      decides='a parameter name is unknown again once its routine has ended: '
              'using it afterwards without defining it is rejected, as any '
              'undefined name is')
def r06i(R):
    A = R.A
    rd = A.func(PARSE, 'Parser._routine_definition')
    cfg = A.cfg(rd)
    addv = A.func('bardolph.parser.context', 'Context.add_variable')
    enter = A.calls_nodes(rd, 'Context.enter_routine')
    leave = A.calls_nodes(rd, 'Context.exit_routine')
    # direct callees of the definition routine that declare variables without
    # running statements (the parameter list), i.e. reach add_variable but
    # not the statement dispatcher
    decl = []
    for n in cfg.nodes:
        for c in n.calls():
            for t in A.callees(rd, c):
                reach = A.rs.reachable([t])
                if addv in reach and not any(
                        g.short == 'Parser._command' for g in reach):
                    decl.append(n)
    if not decl or not enter or not leave:
        raise AnalysisError('R06.i: parameter declaration / enter_routine / '
                            'exit_routine not found in _routine_definition')
    p = cfg.find_path([cfg.entry], lambda n: n in decl, avoid=enter)
    q = cfg.find_path([m for n in leave for m, _l in n.succs], lambda n: n in decl)
    R.check(rd, 'enter_routine() < parameter declarations < exit_routine()',
            p is None and q is None,
            'the parameters are added to the symbol table while the context '
            'is not (yet / any more) inside the routine: add_variable files '
            'them as globals, exit_routine does not remove them, and a later '
            'use of the name outside the routine compiles instead of being '
            'rejected as unknown',
            path=path_text(p or q) if (p or q) else None)


@rule('R06.j', ('C06',), 'a failed sub-parse is never turned into a success',
      floor=60,
      decides='a text with an error is rejected: once a parse routine has '
              'reported a failure no caller goes on to accept the script')
def r06j(R):
    A = R.A
    P, _pred = parse_routines(A)
    Pset = set(P)
    n_tests = 0
    for f in sorted(P, key=lambda x: x.short):
        cfg = A.cfg(f)
        for n in cfg.nodes:
            if n.kind != 'cond' or not isinstance(n.ast, ast.Call):
                continue
            callees = A.callees(f, n.ast)
            if not callees or not all(t in Pset for t in callees):
                continue
            n_tests += 1
            starts = [m for m, lab in n.succs if lab is False]
            # a success exit reachable from the failure edge without another
            # verdict being consulted
            def blocked(m):
                return m.kind == 'cond' and m is not n
            p = cfg.find_path(
                starts, lambda m: m.is_return and A.ret_class(f, m)[0] == 'ok',
                avoid=[m for m in cfg.nodes if blocked(m)])
            R.check(f, n.ast, p is None,
                    '%s failed (and reported why), yet this routine can go on '
                    'to return success: the script is accepted - and partly '
                    'compiled - although an error was reported'
                    % norm(n.ast.func), path=path_text(p) if p else None,
                    line=n.ast.lineno)
    if n_tests < 60:
        raise AnalysisError('R06.j: only %d sub-parse tests found' % n_tests)
