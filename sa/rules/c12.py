"""C12 - Device faults and wrong-type targets never abort a script or disturb
others."""
import ast

from ..analysis import PROPERTY_TEXT, path_text, self_attr
from ..cfg import reachable_without_edges
from ..index import AnalysisError, norm
from ..report import rule
from ..resolve import walk_own

MACHINE = 'bardolph.vm.machine'
VMDISC = 'bardolph.vm.vm_discover'
SNAPSHOT = 'bardolph.controller.snapshot'
ICTL = 'bardolph.controller.i_controller'
LANLIGHT = 'bardolph.controller.lifx_lan_light'
LANAPI = 'bardolph.controller.lifx_lan_api'
LIGHTSET = 'bardolph.controller.light_set'
RETRY = 'bardolph.lib.retry'

PROPERTY_TEXT['C12'] = (
    'a capability-specific device method (matrix / multizone) is called only '
    'where an isinstance test of that capability dominates the call, directly, '
    'through a checking helper, or at every call site of the enclosing helper '
    '(R12.a); every method that talks to a device is wrapped in '
    '@tries(N <= 3, WorkflowException) and wrapped methods are not nested; the '
    'retry helper decrements on the handled exception only and logs when it '
    'gives up (R12.b); the fail value (None) of a wrapped method is tested '
    'before it is measured, iterated or dereferenced (R12.c); a light, group '
    'or location looked up by a name from the script is tested for None '
    'before use (R12.d); discovery converts network errors into a failed '
    'discovery and returns before touching the directory (R12.e); the '
    'group/location fan-out reaches every member (R01.e).',
    'that healthy devices receive exactly the same commands; faults raised '
    'from inside handlers on data-dependent conditions.')


def capability_methods(A):
    """{method name: interface ClassInfo} for methods declared only on the
    MatrixLight / MultizoneLight interfaces."""
    base = set(A.cls(ICTL, 'Light').methods)
    out = {}
    for cname in ('MatrixLight', 'MultizoneLight'):
        c = A.cls(ICTL, cname)
        for m in c.methods:
            if m not in base:
                out[m] = c
    return out


def _is_capability_type(A, f, type_expr, iface):
    types = type_expr.elts if isinstance(type_expr, ast.Tuple) else [type_expr]
    for t in types:
        r = A.repo.resolve_expr_static(f.module, t)
        if r is None or not hasattr(r, 'mro'):
            return False
        if iface not in r.mro():
            return False
    return bool(types)


def _checking_helpers(A, iface):
    """Functions h(x) that return truthy only when isinstance(x, iface)."""
    out = {}
    for f in A.repo.all_functions():
        if f.cls is None or len(f.params) < 2:
            continue
        cfg = A.cfg(f)
        for c in cfg.nodes:
            if c.kind == 'cond' and isinstance(c.ast, ast.Call) \
                    and norm(c.ast.func) == 'isinstance' and len(c.ast.args) == 2 \
                    and norm(c.ast.args[0]) in f.params \
                    and _is_capability_type(A, f, c.ast.args[1], iface):
                reach = reachable_without_edges(cfg, cfg.entry, {(c.id, True)})
                succ = [r for r in cfg.return_nodes()
                        if A.ret_class(f, r)[0] != 'fail']
                if succ and all(r.id not in reach for r in succ):
                    out[f] = f.params.index(norm(c.ast.args[0]))
    return out


def guarded_capability(A, f, node, recv, iface, helpers, depth=0):
    """The call at CFG `node` of f on local `recv` is dominated by a
    capability test for iface."""
    cfg = A.cfg(f)
    for c in cfg.nodes:
        if c.kind != 'cond' or not isinstance(c.ast, ast.Call):
            continue
        ok = False
        call = c.ast
        if norm(call.func) == 'isinstance' and len(call.args) == 2 \
                and norm(call.args[0]) == recv \
                and _is_capability_type(A, f, call.args[1], iface):
            ok = True
        else:
            for h in A.callees(f, call):
                if h in helpers:
                    idx = helpers[h] - (1 if h.cls is not None else 0)
                    if idx < len(call.args) and norm(call.args[idx]) == recv:
                        ok = True
        if not ok:
            continue
        reach = reachable_without_edges(cfg, cfg.entry, {(c.id, True)})
        if node.id not in reach:
            return True, 'dominated by %s' % norm(call)
    # receiver is a parameter: every resolved call site must be guarded
    if recv in f.params and depth < 2:
        sites = A.rs.param_args(f, recv)
        if sites:
            for arg, caller in sites:
                if not isinstance(arg, ast.Name):
                    return False, 'caller %s passes %s' % (caller.short, norm(arg))
                ccfg = A.cfg(caller)
                nodes = [n for n in ccfg.nodes
                         if any(sub is arg for e in n.exprs() for sub in ast.walk(e))]
                if not nodes:
                    return False, 'call site in %s not found' % caller.short
                ok, why = guarded_capability(A, caller, nodes[0], arg.id, iface,
                                             helpers, depth + 1)
                if not ok:
                    return False, 'call site in %s is not guarded' % caller.short
            return True, 'every call site is guarded'
    return False, 'no isinstance(%s, %s) test dominates the call' % (recv, iface.name)


@rule('R12.a', ('C12', 'C15'), 'capability check before a capability-specific '
      'device call', floor=6,
      decides='a zone, row or column command addressed to a light without '
              'that capability does not abort the script')
def r12a(R):
    A = R.A
    caps = capability_methods(A)
    helpers = {}
    for iface in set(caps.values()):
        helpers[iface] = _checking_helpers(A, iface)
    scope = list(A.repo.all_functions(MACHINE)) + \
        list(A.repo.all_functions(SNAPSHOT))
    for f in scope:
        cfg = A.cfg(f)
        for n in cfg.nodes:
            for c in n.calls():
                if not (isinstance(c.func, ast.Attribute) and c.func.attr in caps
                        and isinstance(c.func.value, ast.Name)
                        and c.func.value.id != 'self'):
                    continue
                iface = caps[c.func.attr]
                ok, why = guarded_capability(A, f, n, c.func.value.id, iface,
                                             helpers[iface])
                R.check(f, c, ok,
                        '%s() exists only on %s lights but is called on a light '
                        'of unknown kind (%s): on a plain bulb this raises '
                        'AttributeError, which Machine.run turns into "Machine '
                        'stopped" - the rest of the script is skipped'
                        % (c.func.attr, iface.name, why), line=c.lineno)


def tries_info(A, f):
    """(n_tries, exception text, fail value expr or None) for a @tries
    decorated function, else None."""
    for d in f.node.decorator_list:
        if isinstance(d, ast.Call) and norm(d.func).split('.')[-1] == 'tries':
            n = A.try_fold(d.args[0], f) if d.args else None
            exc = norm(d.args[1]) if len(d.args) > 1 else None
            fail = d.args[2] if len(d.args) > 2 else None
            for kw in d.keywords:
                if kw.arg == 'fail_value':
                    fail = kw.value
            return n, exc, fail
    return None


@rule('R12.b', ('C12',), 'every device request is retried at most three times '
      '(@tries), never nested; the retry helper is bounded and logs', floor=10,
      decides='each unanswered request is attempted at most three times and '
              'then abandoned with a log entry')
def r12b(R):
    A = R.A
    mod = A.repo.module(LANLIGHT)
    decorated = {}
    for cls in mod.classes.values():
        for m in cls.methods.values():
            touches = any(isinstance(n, ast.Attribute) and self_attr(n) == '_impl'
                          and isinstance(n.ctx, ast.Load)
                          for n in walk_own(m.node))
            info = tries_info(A, m)
            if info:
                decorated[m] = info
            if not touches or m.name == '__init__':
                continue
            ok = info is not None and isinstance(info[0], int) and \
                1 <= info[0] <= 3 and info[1] and 'WorkflowException' in info[1]
            R.check(m, '@tries(%s, %s)' % (info[0] if info else None,
                                            info[1] if info else None), ok,
                    'this method sends a request to the device without the '
                    'bounded retry (at most 3 attempts on WorkflowException): '
                    'an unanswered request raises into the VM and stops the '
                    'script, or is retried more than three times')
    for m in decorated:
        inner = [t for c in A.calls_in(m) for t in A.callees(m, c) if t in decorated]
        R.check(m, 'no nested retried call', not inner,
                'a retried method calls another retried method (%s): attempts '
                'multiply (up to 9)' % (inner[0].short if inner else ''))
    # the helper itself
    tries = A.func(RETRY, 'tries')
    inner = [f for f in A.repo.module(RETRY).all_functions
             if f.name == 'param_wrapper']
    if not inner:
        raise AnalysisError('retry.tries: wrapper not found')
    w = inner[0]
    cfg = A.cfg(w)
    heads = [n for n in cfg.nodes if n.kind == 'loop-head']
    decs = [n for n in cfg.nodes if n.kind == 'stmt'
            and isinstance(n.ast, ast.AugAssign) and isinstance(n.ast.op, ast.Sub)
            and A.try_fold(n.ast.value, w) == 1]
    handlers = [n for n in cfg.nodes if n.kind == 'except']
    ok = len(heads) == 1 and len(decs) == 1 and len(handlers) == 1 and \
        norm(heads[0].ast.test).replace(' ', '') == norm(decs[0].ast.target) + '>0'
    if ok:
        # the decrement is in the handler; the loop cannot go round without it
        h = handlers[0]
        ok = decs[0] in cfg.reachable_from([h], avoid=[heads[0]]) and \
            norm(h.ast.type) == 'ex_type'
        body_in = [m for m, _l in heads[0].succs]
        p = cfg.find_path(body_in, lambda n: n is heads[0], avoid=decs)
        # start nodes are the loop test conds: skip to their successors
        conds = [m for m, _ in heads[0].succs]
        after = [x for c in conds for x, lab in c.succs if lab is True]
        p = cfg.find_path(after, lambda n: n is heads[0], avoid=decs)
        ok = ok and p is None
    init = [n for n in cfg.nodes if n.kind == 'stmt' and isinstance(n.ast, ast.Assign)
            and decs and norm(n.ast.targets[0]) == norm(decs[0].ast.target)]
    ok = ok and len(init) == 1 and norm(init[0].ast.value) == 'num_tries'
    R.check(w, 'tries = num_tries; while tries > 0: try .. except ex_type: '
            'tries -= 1', ok,
            'the retry wrapper is not a loop bounded by num_tries that counts '
            'down on the handled exception only')
    logs = [n for n in cfg.nodes if any(norm(c.func).startswith('logging.')
                                        for c in n.calls())]
    give_up = [n for n in logs if n not in cfg.reachable_from(handlers, avoid=heads)]
    rets = [r for r in cfg.return_nodes() if r.ret_expr is not None
            and norm(r.ret_expr) == 'fail_value']
    ok = bool(give_up and rets) and all(
        cfg.find_path([cfg.entry], lambda n, r=r: n is r, avoid=give_up) is None
        for r in rets)
    R.check(w, 'log, then return fail_value', ok,
            'giving up is not logged before the fail value is returned')


@rule('R12.c', ('C12', 'C18', 'C20'), 'the fail value of a retried device '
      'method is tested before it is measured, iterated or dereferenced',
      floor=3,
      decides='discovery never raises; a light that does not answer does not '
              'abort the snapshot')
def r12c(R):
    A = R.A
    mod = A.repo.module(LANLIGHT)
    none_fail = {}
    for cls in mod.classes.values():
        for m in cls.methods.values():
            info = tries_info(A, m)
            if info and (info[2] is None or A.try_fold(info[2], m, 'x') is None):
                # methods whose own result is meaningful (not setters)
                rets = [n for n in walk_own(m.node)
                        if isinstance(n, ast.Return) and n.value is not None]
                if rets:
                    none_fail[m.name] = m
    base_names = set(A.cls(ICTL, 'Light').methods)
    for f in A.repo.all_functions():
        if f.module.name.startswith('bardolph.fakes'):
            continue
        parents = {}
        for node in walk_own(f.node):
            for ch in ast.iter_child_nodes(node):
                parents[id(ch)] = node
        for c in A.calls_in(f):
            if not (isinstance(c.func, ast.Attribute) and c.func.attr in none_fail):
                continue
            if norm(c.func.value).startswith(('self._impl', 'self._lifxlan')):
                continue        # the library object, not our wrapped method
            callees = A.callees(f, c)
            target = none_fail[c.func.attr]
            if callees and target not in callees and not any(
                    t.name == target.name for t in callees):
                continue
            if c.func.attr in base_names and not callees:
                # get_color / get_power on an untyped receiver: the base
                # Light versions have non-None fail values or are ints
                pass
            parent = parents.get(id(c))
            use = None
            if isinstance(parent, ast.Call) and c in parent.args and \
                    norm(parent.func) in ('len', 'enumerate', 'iter', 'list',
                                          'sorted', 'round'):
                use = '%s(...)' % norm(parent.func)
            elif isinstance(parent, ast.Attribute) and parent.value is c:
                use = 'attribute .%s' % parent.attr
            elif isinstance(parent, ast.Subscript) and parent.value is c:
                use = 'subscript'
            elif isinstance(parent, (ast.For, ast.comprehension)) and parent.iter is c:
                use = 'iteration'
            elif isinstance(parent, ast.Call) and c in parent.args and \
                    isinstance(parent.func, ast.Attribute) and \
                    parent.func.attr == 'format':
                spec = _format_spec_for(A, f, parent, parent.args.index(c))
                if spec:
                    use = 'formatted with spec %r' % spec
            elif isinstance(parent, ast.BinOp):
                use = 'arithmetic'
            elif isinstance(parent, ast.Assign) and isinstance(parent.targets[0], ast.Name):
                # local: every later dereference must be dominated by a test
                var = parent.targets[0].id
                bad = _undominated_use(A, f, parent, var)
                R.check(f, '%s = %s' % (var, norm(c)), bad is None,
                        '%s() returns None when the light does not answer; '
                        '`%s` is then %s without a test: TypeError / '
                        'AttributeError' % (c.func.attr, var, bad),
                        line=c.lineno)
                continue
            elif isinstance(parent, ast.BoolOp) and isinstance(parent.op, ast.Or):
                R.ok(f, '%s or <default>' % norm(c))
                continue
            elif isinstance(parent, ast.BoolOp) and isinstance(parent.op, ast.And) \
                    and parent.values[0] is c:
                gp = parents.get(id(parent))
                if isinstance(gp, ast.Call) and norm(gp.func) in (
                        'len', 'enumerate', 'iter', 'list', 'sorted'):
                    use = '`%s` handed to %s(): None and [...] is None' % (
                        norm(parent), norm(gp.func))
                elif isinstance(gp, ast.Call) and parent in gp.args and \
                        isinstance(gp.func, ast.Attribute) and \
                        gp.func.attr == 'format':
                    spec = _format_spec_for(A, f, gp, gp.args.index(parent))
                    if spec:
                        use = ('`%s` formatted with spec %r: None and x is '
                               'None' % (norm(parent), spec))
            if use is not None:
                R.fail(f, c, '%s() returns None when the light does not answer '
                       '(fail value of @tries); its result is used directly '
                       '(%s): TypeError / AttributeError' % (c.func.attr, use),
                       line=c.lineno)
            else:
                R.ok(f, c)


def _format_spec_for(A, f, fmt_call, index):
    """Format spec applied to positional argument `index` of
    '<literal>'.format(...); '' when none / unknown."""
    import string
    recv = fmt_call.func.value
    text = A.try_fold(recv, f)
    if text is None and isinstance(recv, ast.Name):
        parts = []
        for node in walk_own(f.node):
            if isinstance(node, ast.Assign) and norm(node.targets[0]) == recv.id:
                v = A.try_fold(node.value, f)
                if isinstance(v, str):
                    parts.append(v)
                elif isinstance(node.value, ast.IfExp):
                    for br in (node.value.body, node.value.orelse):
                        bv = A.try_fold(br, f)
                        if isinstance(bv, str):
                            parts.append(bv)
                elif isinstance(node.value, ast.BinOp):
                    # 'prefix' + str(expr) + 'suffix': keep literal pieces
                    lits = sorted(
                        ((x.lineno, x.col_offset, x.value)
                         for x in ast.walk(node.value)
                         if isinstance(x, ast.Constant) and isinstance(x.value, str)))
                    parts.append(''.join(v for _l, _c, v in lits))
        text = parts[0] if parts else None
    if not isinstance(text, str):
        return ''
    auto = 0
    try:
        for _lit, name, spec, _conv in string.Formatter().parse(text):
            if name is None:
                continue
            if name == '':
                pos = auto
                auto += 1
            elif name.isdecimal():
                pos = int(name)
            else:
                continue
            if pos == index:
                return spec or ''
    except ValueError:
        return ''
    return ''


def _undominated_use(A, f, assign, var):
    cfg = A.cfg(f)
    def_nodes = [n for n in cfg.nodes if n.ast is assign]
    if not def_nodes:
        return None
    starts = [m for d in def_nodes for m, _ in d.succs]
    return _deref_scan(A, f, starts, var, 0)


def _param_of(g, call, i):
    """name of the parameter of g that positional argument i of `call`
    binds to (None when out of range)."""
    off = 1 if g.cls is not None and not any(
        d in ('staticmethod',) for d in g.decorators) and \
        isinstance(call.func, ast.Attribute) else 0
    params = g.params
    return params[i + off] if i + off < len(params) else None


def _is_noneable(g):
    return any(d.split('.')[-1] == 'noneable' for d in g.decorators)


def _maybe_none(A, f, e, var, depth):
    """Can expression e be None because local `var` of f is None?"""
    if isinstance(e, ast.Name):
        return e.id == var
    if isinstance(e, ast.Call) and depth < 4:
        for i, a in enumerate(e.args):
            if _maybe_none(A, f, a, var, depth):
                for g in A.callees(f, e):
                    p = _param_of(g, e, i)
                    if p is not None and _returns_none_for(A, g, p, depth + 1):
                        return True
    return False


def _returns_none_for(A, g, p, depth):
    """g can return None when its parameter p is None: the noneable wrapper,
    or a return of p itself / of such a call on p."""
    if _is_noneable(g):
        return True
    if depth > 4:
        return False
    for n in walk_own(g.node):
        if isinstance(n, ast.Return) and n.value is not None and \
                _maybe_none(A, g, n.value, p, depth):
            return True
    return False


def _param_deref(A, g, p, depth):
    """How g uses its parameter p without testing it for None (or None)."""
    memo = A._memo.setdefault('param_deref', {})
    key = (g, p)
    if key in memo:
        return memo[key]
    memo[key] = None            # recursion guard
    if _is_noneable(g) or depth > 4:
        return None
    cfg = A.cfg(g)
    memo[key] = _deref_scan(A, g, [cfg.entry], p, depth)
    return memo[key]


def _deref_scan(A, f, starts, var, depth):
    cfg = A.cfg(f)
    tests = [n for n in cfg.nodes if n.kind == 'cond' and
             norm(n.ast) in (var, '%s is None' % var, '%s is not None' % var)]
    for n in cfg.reachable_from(starts):
        if n.kind == 'stmt' and isinstance(n.ast, ast.Assign) and any(
                isinstance(t, ast.Name) and t.id == var for t in n.ast.targets) \
                and n not in starts:
            pass        # re-bound later on: flow-insensitive, keep scanning
        for e in n.exprs():
            for sub in ast.walk(e):
                deref = None
                if isinstance(sub, ast.Attribute) and isinstance(sub.value, ast.Name) \
                        and sub.value.id == var:
                    deref = 'dereferenced (.%s)' % sub.attr
                if isinstance(sub, ast.Subscript) and isinstance(sub.value, ast.Name) \
                        and sub.value.id == var:
                    deref = 'subscripted'
                if isinstance(sub, ast.Call) and norm(sub.func) in ('len', 'enumerate') \
                        and sub.args and norm(sub.args[0]) == var:
                    deref = 'passed to %s()' % norm(sub.func)
                if n.kind == 'for' and norm(n.ast.iter) == var:
                    deref = 'iterated'
                if isinstance(sub, ast.comprehension) and norm(sub.iter) == var:
                    deref = 'iterated'
                if isinstance(sub, ast.Call) and deref is None and depth < 4 \
                        and norm(sub.func) not in ('len', 'enumerate'):
                    for i, a in enumerate(sub.args):
                        if not _maybe_none(A, f, a, var, depth):
                            continue
                        for g in A.callees(f, sub):
                            p = _param_of(g, sub, i)
                            d = _param_deref(A, g, p, depth + 1) if p else None
                            if d:
                                deref = 'passed on to %s, where it is %s' % (
                                    g.short, d)
                if deref is None:
                    continue
                guarded = False
                for t in tests:
                    lab = norm(t.ast) != '%s is None' % var
                    reach = reachable_without_edges(cfg, cfg.entry, {(t.id, lab)})
                    if n.id not in reach:
                        guarded = True
                if not guarded:
                    return deref
        # the value (or what a pass-through call makes of it) bound to
        # another local: follow that local from here on
        if n.kind == 'stmt' and isinstance(n.ast, ast.Assign) and depth < 4 \
                and len(n.ast.targets) == 1 and isinstance(n.ast.targets[0], ast.Name) \
                and n.ast.targets[0].id != var \
                and _maybe_none(A, f, n.ast.value, var, depth):
            guarded = False
            for t in tests:
                lab = norm(t.ast) != '%s is None' % var
                if n.id not in reachable_without_edges(cfg, cfg.entry, {(t.id, lab)}):
                    guarded = True
            if not guarded:
                d = _deref_scan(A, f, [m for m, _l in n.succs],
                                n.ast.targets[0].id, depth + 1)
                if d:
                    return 'bound to `%s`, which is %s' % (n.ast.targets[0].id, d)
        # tuple unpacking of the value
        if n.kind == 'stmt' and isinstance(n.ast, ast.Assign) and \
                isinstance(n.ast.targets[0], (ast.Tuple, ast.List)) and \
                isinstance(n.ast.value, ast.Name) and n.ast.value.id == var:
            guarded = False
            for t in tests:
                lab = norm(t.ast) != '%s is None' % var
                if n.id not in reachable_without_edges(cfg, cfg.entry, {(t.id, lab)}):
                    guarded = True
            if not guarded:
                return 'unpacked'
    return None


LOOKUPS = ('LightSet.get_light', 'LightSet.get_group_lights',
           'LightSet.get_location_lights', 'Machine._get_named_light',
           'VmDiscover._set_by_oper')


@rule('R12.d', ('C12',), 'a light, group or location looked up by a name from '
      'the script is tested for None before it is used', floor=9,
      decides='a script keeps running when a named light, group or location '
              'is unknown')
def r12d(R):
    lookup_checks(R, (MACHINE, VMDISC))


def lookup_checks(R, modules):
    A = R.A
    for f in [f for m in modules for f in A.repo.all_functions(m)]:
        for node in walk_own(f.node):
            if not (isinstance(node, ast.Assign) and isinstance(node.value, ast.Call)
                    and isinstance(node.targets[0], ast.Name)):
                continue
            names = A.callee_names(f, node.value)
            if not any(n in LOOKUPS for n in names):
                continue
            var = node.targets[0].id
            bad = _undominated_use(A, f, node, var)
            R.check(f, '%s = %s' % (var, norm(node.value)), bad is None,
                    'the look-up returns None for an unknown (or vanished) '
                    'name and `%s` is %s without a None test: AttributeError '
                    'stops the script' % (var, bad or ''), line=node.lineno)


@rule('R12.e', ('C12', 'C13'), 'discovery converts network errors into a '
      'failed discovery', floor=3,
      decides='discovery never raises: a discovery that cannot complete '
              'reports failure')
def r12e(R):
    A = R.A
    disc = A.func(LIGHTSET, 'LightSet.discover')
    cfg = A.cfg(disc)
    api = [n for n in cfg.nodes for c in n.calls()
           if isinstance(c.func, ast.Attribute) and c.func.attr == 'get_lights']
    handlers = [n for n in cfg.nodes if n.kind == 'except'
                and n.ast.type is not None and 'LightException' in norm(n.ast.type)]
    ok = bool(api and handlers) and all(
        any(lab == 'exc' and m in handlers for m, lab in n.succs) for n in api)
    R.check(disc, 'get_lights() inside try/except LightException', ok,
            'a network error during discovery propagates out of discover()')
    if handlers:
        after = cfg.reachable_from(handlers)
        rets = [r for r in after if r.is_return]
        okr = rets and all(A.ret_class(disc, r)[0] == 'fail' for r in rets)
        touched = [n for n in after if n.kind == 'stmt' and any(
            isinstance(s, ast.Attribute) and self_attr(s) in
            ('_lights', '_light_names', '_groups', '_locations')
            and not isinstance(s.ctx, ast.Load) for s in ast.walk(n.ast))]
        muts = [n for n in after for c in n.calls()
                if isinstance(c.func, ast.Attribute) and self_attr(c.func.value) in
                ('_lights', '_light_names', '_groups', '_locations')]
        R.check(disc, 'failed discovery returns falsy and leaves the directory',
                bool(okr) and not touched and not muts,
                'after a failed discovery the handler reports success or '
                'modifies the directory')
    gl = A.func(LANAPI, 'LifxLanApi.get_lights')
    gcfg = A.cfg(gl)
    build = [n for n in gcfg.nodes for c in n.calls()
             if any(x == 'LifxLanApi._build_light' for x in A.callee_names(gl, c))
             or norm(c.func) == 'self._lifxlan.get_lights']
    conv = [n for n in gcfg.nodes if n.kind == 'except'
            and 'WorkflowException' in norm(n.ast.type or '')]
    raised = [n for n in gcfg.reachable_from(conv)
              if n.kind == 'stmt' and isinstance(n.ast, ast.Raise)
              and 'LightException' in norm(n.ast.exc)] if conv else []
    ok = bool(build and conv and raised) and all(
        any(lab == 'exc' for _m, lab in n.succs) for n in build)
    R.check(gl, 'WorkflowException -> LightException around light construction',
            ok, 'a WorkflowException raised while lights are being built is '
            'not converted into LightException: discover() does not catch it')
    # the refresh thread survives a failed refresh
    lr = A.func(LIGHTSET, '_light_refresh')
    lcfg = A.cfg(lr)
    ref = [n for n in lcfg.nodes for c in n.calls()
           if isinstance(c.func, ast.Attribute) and c.func.attr == 'refresh']
    R.check(lr, 'refresh() inside try in the refresh loop',
            bool(ref) and all(any(lab == 'exc' for _m, lab in n.succs) for n in ref),
            'an exception from refresh() ends the background refresh thread')


LANAPI = 'bardolph.controller.lifx_lan_api'


@rule('R12.g', ('C12', 'C01', 'C07'), 'every device request of the wrapper '
      'classes reaches the library object', floor=10,
      decides='the commands a script issues reach the devices: no wrapper '
              'method sanitises its arguments and then sends nothing')
def r12g(R):
    A = R.A

    def lib_calls(f, cfg, attrs):
        return [n for n in cfg.nodes for c in n.calls()
                if isinstance(c.func, ast.Attribute)
                and self_attr(c.func.value) in attrs]

    def logs(cfg):
        return [n for n in cfg.nodes for c in n.calls()
                if norm(c.func) in ('logging.error', 'logging.warning')]
    n_methods = 0
    for modname, attrs in ((LANLIGHT, ('_impl',)), (LANAPI, ('_lifxlan',))):
        mod = A.repo.module(modname)
        for cls in mod.classes.values():
            for name, m in sorted(cls.methods.items()):
                is_req = tries_info(A, m) is not None or (
                    modname == LANAPI and name.startswith(('set_', 'get_')))
                if not is_req:
                    continue
                n_methods += 1
                cfg = A.cfg(m)
                sends = lib_calls(m, cfg, attrs)
                p = cfg.find_path([cfg.entry], lambda n: n is cfg.exit,
                                  avoid=sends + logs(cfg)) if sends else []
                R.check(m, '%s.%s -> self.%s.<request>' % (cls.name, name, attrs[0]),
                        bool(sends) and p is None,
                        '%s.%s can return without a request to the library '
                        'object (and without logging why): the command never '
                        'reaches the device' % (cls.name, name),
                        path=path_text(p) if p else None)
    if n_methods < 10:
        raise AnalysisError('R12.g: only %d device request methods found' % n_methods)
    # the kind of light object follows the product's features
    bl = A.func(LANAPI, 'LifxLanApi._build_light')
    cfg = A.cfg(bl)
    for kind, feature in (('MultizoneLight', 'multizone'), ('MatrixLight', 'matrix')):
        made = [n for n in cfg.nodes for c in n.calls()
                if norm(c.func).split('.')[-1] == kind]
        ok = bool(made)
        for n in made:
            facts = A.path_facts(bl, n)
            if not any(truth and ("'%s'" % feature) in text and '.get(' in text
                       for text, truth in facts):
                ok = False
        R.check(bl, '%s built iff the product has the %s feature' % (kind, feature),
                ok, 'a %s object is not built exactly for products with the '
                '"%s" feature: zone / matrix commands for such a light are '
                'refused or sent to a light that cannot take them'
                % (kind, feature))


@rule('R15.h', ('C15', 'C12'), 'the tile message covers the whole matrix of '
      'the one tile; the size is asked of the device when it is not given',
      floor=6,
      decides='a matrix set transmits the whole matrix exactly once, to the '
              'cells it is meant for')
def r15h(R):
    A = R.A
    ml = A.cls(LANLIGHT, 'MatrixLight')
    want = {'tile_index': 0, 'length': 1, 'x': 0, 'y': 0}
    for mname in ('set_matrix', 'get_matrix'):
        m = ml.methods[mname]
        payload = None
        for n in walk_own(m.node):
            if isinstance(n, ast.Dict) and len(n.keys) >= 5:
                payload = n
        if payload is None:
            raise AnalysisError('MatrixLight.%s: payload not found' % mname)
        got = {}
        for k, v in zip(payload.keys, payload.values):
            got[A.try_fold(k, m)] = v
        for key, val in sorted(want.items()):
            R.check(m, '%s payload[%r] = %s' % (mname, key, norm(got[key]) if key in got else None),
                    key in got and A.try_fold(got[key], m, 'x') == val,
                    'the tile message must address tile 0, one tile, origin '
                    '(0, 0): %r is %s' % (key, norm(got[key]) if key in got else 'missing'))
        R.check(m, '%s payload width/height = own size' % mname,
                self_attr(got.get('width')) == '_width'
                and self_attr(got.get('height')) == '_height',
                'the tile message does not carry the light\'s own width and '
                'height')
        if mname == 'set_matrix':
            c = got.get('colors')
            R.check(m, 'payload colors = matrix.get_colors()',
                    isinstance(c, ast.Call) and isinstance(c.func, ast.Attribute)
                    and c.func.attr == 'get_colors'
                    and norm(c.func.value) == m.params[1],
                    'the cells transmitted are not the (sanitised) cells of '
                    'the matrix handed in')
    # size discovery
    init = ml.methods['__init__']
    cfg = A.cfg(init)
    asks = A.calls_nodes(init, 'MatrixLight._get_size')
    ok = bool(asks)
    if ok:
        # asked whenever one of the two is missing: no path on which a None
        # test succeeded reaches the exit without asking
        tests = [t for t in cfg.nodes if t.kind == 'cond'
                 and A.canonical_atom(t.ast)[0] in (
                     'self._width is None', 'self._height is None')]
        ok = len(tests) >= 2
        for t in tests:
            _text, pol = A.canonical_atom(t.ast)
            starts = [x for x, lab in t.succs if lab is pol]
            if cfg.find_path(starts, lambda n: n is cfg.exit, avoid=asks) is not None:
                ok = False
    R.check(init, 'size asked of the device when height or width is not given',
            ok, 'a matrix light built without an explicit size does not ask '
            'the device for it: rows and columns are laid out wrongly')
    gs = ml.methods['_get_size']
    stored = set(self_attr(t) for n in walk_own(gs.node) if isinstance(n, ast.Assign)
                 for t in n.targets if self_attr(t))
    R.check(gs, '_get_size stores width and height', {'_width', '_height'} <= stored,
            '_get_size does not store both dimensions reported by the device')


@rule('R12.h', ('C12', 'C13'), 'wrapper objects are completely initialised: '
      'a subclass constructor runs its base constructor', floor=2,
      decides='discovery never raises: every light object built from a '
              'device has its name, group, location and device handle')
def r12h(R):
    A = R.A
    n = 0
    for modname in (LANLIGHT, 'bardolph.controller.light'):
        for cls in A.repo.module(modname).classes.values():
            init = cls.methods.get('__init__')
            if init is None:
                continue
            bases = [b for b in cls.mro()[1:] if '__init__' in b.methods and any(
                isinstance(x, ast.Attribute) and isinstance(x.ctx, ast.Store)
                and self_attr(x) for x in walk_own(b.methods['__init__'].node))]
            if not bases:
                continue
            n += 1
            cfg = A.cfg(init)
            sup = [m for m in cfg.nodes for c in m.calls()
                   if isinstance(c.func, ast.Attribute) and c.func.attr == '__init__'
                   and (norm(c.func.value).startswith('super()')
                        or norm(c.func.value).split('.')[-1] in [b.name for b in bases]
                        or any(t.cls in bases for t in A.callees(init, c)))]
            p = cfg.find_path([cfg.entry], lambda m: m is cfg.exit, avoid=sup) \
                if sup else []
            R.check(init, '%s.__init__ -> super().__init__()' % cls.name,
                    bool(sup) and p is None,
                    '%s is built without running the constructor of %s: the '
                    'attributes that one sets (%s) are missing and the first '
                    'use raises AttributeError - out of discovery'
                    % (cls.name, bases[0].name, ', '.join(sorted(set(
                        x.attr for x in walk_own(bases[0].methods['__init__'].node)
                        if isinstance(x, ast.Attribute) and isinstance(x.ctx, ast.Store)
                        and self_attr(x)))[:4])))
    if n < 2:
        raise AnalysisError('R12.h: only %d subclass constructors found' % n)


@rule('R12.i', ('C12', 'C15'), 'optional values are tested before they are '
      'sanitised, compared or used as a capability', floor=5,
      decides='a request with an omitted optional argument, a configuration '
              'without an expected count and a device with the zone call all '
              'work; none raises out of discovery or drops the command')
def r12i(R):
    A = R.A
    mod = A.repo.module(LANLIGHT)
    n = 0
    for cls in mod.classes.values():
        for m in cls.methods.values():
            defaults = {}
            a = m.node.args
            for arg, d in zip(a.args[len(a.args) - len(a.defaults):], a.defaults):
                if isinstance(d, ast.Constant) and d.value is None:
                    defaults[arg.arg] = True
            if not defaults:
                continue
            # the way the product calls it: every optional argument omitted
            live = A.nodes_under(m, {p: None for p in defaults})
            cfg = A.cfg(m)
            for node in cfg.nodes:
                for c in node.calls():
                    if norm(c.func).startswith('param_') and c.args \
                            and isinstance(c.args[0], ast.Name) \
                            and c.args[0].id in defaults:
                        n += 1
                        p = c.args[0].id
                        R.check(m, c, node not in live,
                                '%s(%s) runs when the optional arguments are '
                                'omitted (`%s` is None): round(None) raises '
                                'TypeError - in the constructor that means out '
                                'of discovery' % (norm(c.func), p, p),
                                line=c.lineno)
    # the capability test and the call it guards name the same attribute
    for cls in mod.classes.values():
        for m in cls.methods.values():
            cfg = A.cfg(m)
            tests = [t for t in cfg.nodes if t.kind == 'cond'
                     and isinstance(t.ast, ast.Call) and norm(t.ast.func) == 'hasattr']
            for t in tests:
                n += 1
                ok = len(t.ast.args) == 2 and self_attr(t.ast.args[0]) == '_impl' \
                    and isinstance(A.try_fold(t.ast.args[1], m), str)
                name = A.try_fold(t.ast.args[1], m) if ok else None
                calls = [x for x in cfg.nodes for c in x.calls()
                         if isinstance(c.func, ast.Attribute) and c.func.attr == name
                         and self_attr(c.func.value) == '_impl']
                ok = ok and bool(calls) and all(
                    (norm(t.ast), True) in A.path_facts(m, x) for x in calls)
                R.check(m, t.ast, ok,
                        'the device call is not made exactly when the library '
                        'object has it (hasattr test reversed, or its arguments '
                        'exchanged): the command is never sent')
    # a count that may be absent from the configuration
    gl = A.func(LANAPI, 'LifxLanApi.get_lights')
    cfg = A.cfg(gl)
    maybe = set()
    for s in walk_own(gl.node):
        if isinstance(s, ast.Assign) and isinstance(s.value, ast.Call) \
                and isinstance(s.value.func, ast.Attribute) \
                and s.value.func.attr == 'get_value' and (
                    len(s.value.args) == 1          # the default default
                    or (len(s.value.args) == 2
                        and isinstance(s.value.args[1], ast.Constant)
                        and s.value.args[1].value is None)):
            maybe |= set(norm(t) for t in s.targets)
    for node in cfg.nodes:
        if node.kind == 'cond' and isinstance(node.ast, ast.Compare) and \
                isinstance(node.ast.ops[0], (ast.Lt, ast.LtE, ast.Gt, ast.GtE)):
            names = set(norm(x) for x in [node.ast.left] + node.ast.comparators)
            for v in names & maybe:
                n += 1
                R.check(gl, node.ast, ('%s is None' % v, False) in A.path_facts(gl, node),
                        '`%s` comes from the configuration with default None '
                        'and is compared without a None test: with the shipped '
                        'defaults a successful discovery raises TypeError' % v)
    if n < 4:
        raise AnalysisError('R12.i: only %d optional-value uses found' % n)
    # library protocol: request class first, response class second; one datagram
    ml = A.cls(LANLIGHT, 'MatrixLight')
    for m in ml.methods.values():
        for c in A.calls_in(m):
            if isinstance(c.func, ast.Attribute) and c.func.attr == 'req_with_resp' \
                    and len(c.args) >= 2:
                a0, a1 = norm(c.args[0]), norm(c.args[1])
                R.check(m, c, a0.startswith('Get') and a1.startswith('State'),
                        'req_with_resp(%s, %s): the request class and the '
                        'response class are exchanged - the device never '
                        'answers' % (a0, a1), line=c.lineno)
            if isinstance(c.func, ast.Attribute) and c.func.attr == 'fire_and_forget':
                rep = [k.value for k in c.keywords if k.arg == 'num_repeats']
                R.check(m, c, not rep or A.try_fold(rep[0], m) == 1,
                        'the tile message is sent more than once',
                        line=c.lineno)


@rule('R12.j', ('C12', 'C13'), 'discover() answers True when it completed and '
      'False when it could not', floor=1,
      decides='a discovery that cannot complete reports failure (and only '
              'such a one)')
def r12j(R):
    A = R.A
    d = A.func('bardolph.controller.light_set', 'LightSet.discover')
    cfg = A.cfg(d)
    consts = [(r, r.ret_expr.value) for r in cfg.return_nodes()
              if isinstance(r.ret_expr, ast.Constant)]
    in_handler = set()
    for n in walk_own(d.node):
        if isinstance(n, ast.ExceptHandler):
            for x in ast.walk(n):
                if isinstance(x, ast.Return):
                    in_handler.add(id(x))
    ok = bool(consts)
    for r, v in consts:
        handler = id(getattr(r.ast, 'stmt', r.ast)) in in_handler or id(r.ast) in in_handler
        if handler and v is not False:
            ok = False
        if not handler and v is not True:
            ok = False
    R.check(d, 'discover: True after the loop, False in the exception handler',
            ok, 'discover() reports failure for a discovery that completed (or '
            'success for one that did not): the refresh thread waits the '
            'failure interval for ever / never retries')
