"""C05 - On every path, compiled control transfers stay in the script and
frames balance."""
import ast

from ..affine import AffineEval, Inst, Lin, NotAffine, Record, as_lin, straight_body
from ..analysis import PROPERTY_TEXT, path_text, self_attr
from ..const import EnumVal
from ..cfg import reachable_without_edges
from ..index import AnalysisError, norm
from ..report import rule
from ..resolve import walk_own

LOOP = 'bardolph.parser.loop_parser'
CODEGEN = 'bardolph.parser.code_gen'
CONTEXT = 'bardolph.parser.context'
PARSE = 'bardolph.parser.parse'
MPARSE = 'bardolph.parser.matrix_parser'
MACHINE = 'bardolph.vm.machine'
LOADER = 'bardolph.vm.loader'

PROPERTY_TEXT['C05'] = (
    'on every successful path of the emitting routine each opener (LOOP, '
    'CTX, ROUTINE, MATRIX, enter_loop/routine/matrix) is followed by its '
    'closer (R05.a, R03.b); every placeholder branch is patched (R05.b); JSR '
    'is only emitted for a routine the symbol table knows (R05.c); no routine '
    'body can be emitted inside an open branch span (R05.d); the loader only '
    'moves whole instructions, in order (R05.e); the offset arithmetic of '
    'if/else/end, back jumps, break patches (R05.f) and of the loader\'s '
    'routine addresses and prologue jump (R05.g) is affine-evaluated and '
    'lands on the intended instruction; the VM adds relative offsets to pc.',
    'run-time frame balance of a particular script; targets of jumps that '
    'depend on run-time data (there are none besides RETURN addresses).')


def pairing(R, f, openers, closers, what, fail_msg):
    A = R.A
    cfg = A.cfg(f)
    if not openers or not closers:
        R.fail(f, what, '%s: opener or closer no longer present' % what)
        return
    p = A.path_skipping(f, openers, closers)
    R.check(f, what, p is None, fail_msg, path=path_text(p) if p else None)
    after = cfg.reachable_from([m for n in closers for m, _ in n.succs])
    dup = [n for n in closers if n in after]
    if dup:
        R.fail(f, what + ' (closed twice)', 'the closer can be executed twice '
               'for one opener')


@rule('R05.a', ('C05', 'C17'), 'opener/closer pairing on every successful exit '
      'of the emitting routine', floor=6,
      decides='every loop or call that is entered is left again on every '
              'path; context flags are restored')
def r05a(R):
    A = R.A
    rp = A.func(LOOP, 'LoopParser.repeat')
    pairing(R, rp, A.emit_nodes(rp, 'LOOP'), A.emit_nodes(rp, 'END_LOOP'),
            'LOOP ... END_LOOP',
            'a loop can be compiled with LOOP but without END_LOOP: the loop '
            'frame is never popped')
    pairing(R, rp, A.calls_nodes(rp, 'Context.enter_loop'),
            A.calls_nodes(rp, 'Context.exit_loop'), 'enter_loop ... exit_loop',
            'the compile-time loop context is not popped on a successful path')
    rd = A.func(PARSE, 'Parser._routine_definition')
    ends = [n for n in A.emit_nodes(rd, 'END')]
    pairing(R, rd, A.emit_nodes(rd, 'ROUTINE'), ends, 'ROUTINE ... END',
            'a routine body can be emitted without its END: the loader runs '
            'the body into the following code')
    # END carries the routine name the ROUTINE carries
    names = {}
    for call, ops in A.emission_sites(rd):
        for op, args in ops:
            if op in ('ROUTINE', 'END') and args:
                names[op] = norm(args[0])
    R.check(rd, 'ROUTINE %s / END %s' % (names.get('ROUTINE'), names.get('END')),
            names.get('ROUTINE') is not None
            and names.get('ROUTINE') == names.get('END'),
            'END does not name the routine ROUTINE opened: the loader matches '
            'them by name')
    pairing(R, rd, A.calls_nodes(rd, 'Context.enter_routine'),
            A.calls_nodes(rd, 'Context.exit_routine'),
            'enter_routine ... exit_routine',
            'the in-routine flag stays set after a routine was compiled')
    ms = A.func(MPARSE, 'MatrixParser.matrix_spec')
    pairing(R, ms, A.emit_nodes(ms, 'MATRIX'), A.emit_nodes(ms, 'END'),
            'MATRIX ... END MATRIX',
            'a matrix block can be compiled without END MATRIX')
    bo = A.func(MPARSE, 'MatrixParser._block_operand')
    pairing(R, bo, A.calls_nodes(bo, 'Context.enter_matrix'),
            A.calls_nodes(bo, 'Context.exit_matrix'),
            'enter_matrix ... exit_matrix',
            'the in-matrix flag stays set after a matrix block was compiled')


MARKER_FUNCS = [(PARSE, 'Parser._if'), (LOOP, 'LoopParser.repeat'),
                (LOOP, 'LoopParser._calc_counter'), (LOOP, 'LoopParser._calc_incr'),
                (LOOP, 'LoopParser._cycle_var_range'),
                (CODEGEN, 'CodeGen.iter_lights'), (CODEGEN, 'CodeGen.iter_sets'),
                (CODEGEN, 'CodeGen.iter_members')]


@rule('R05.b', ('C05', 'C01'), 'every placeholder branch (if_true_start) is '
      'patched by if_end on every successful path', floor=8,
      decides='every branch leads to the statement the source says comes next '
              '(no unpatched jump with offset None)')
def r05b(R):
    A = R.A
    seen_creators = 0
    for f in A.repo.all_functions('bardolph.parser'):
        f = A.normalised(f)      # a marker may be closed by an extracted helper
        starts = A.calls_nodes(f, 'CodeGen.if_true_start')
        if f.cls is not None and f.cls.name == 'CodeGen' and f.name == 'if_true_start':
            continue
        for sn in starts:
            seen_creators += 1
            var = None
            if sn.kind == 'stmt' and isinstance(sn.ast, ast.Assign) \
                    and isinstance(sn.ast.targets[0], ast.Name):
                var = sn.ast.targets[0].id
            if var is None:
                R.fail(f, sn.ast, 'the marker returned by if_true_start() is '
                       'dropped: its jump can never be patched')
                continue
            ends = [n for n in A.calls_nodes(f, 'CodeGen.if_end')
                    if any(norm(c.args[0]) == var for c in n.calls()
                           if 'CodeGen.if_end' in A.callee_names(f, c) and c.args)]
            elses = [n for n in A.calls_nodes(f, 'CodeGen.if_else')
                     if any(norm(c.args[0]) == var for c in n.calls()
                            if 'CodeGen.if_else' in A.callee_names(f, c) and c.args)]
            p = A.path_skipping(f, [sn], ends)
            ok = bool(ends) and p is None
            cfg = A.cfg(f)
            after_end = cfg.reachable_from([m for n in ends for m, _ in n.succs])
            twice = any(n in after_end for n in ends + elses)
            R.check(f, '%s = if_true_start() ... if_end(%s)' % (var, var),
                    ok and not twice,
                    'a conditional jump can be left unpatched (or is patched '
                    'twice) on a successful path: its offset stays None / '
                    'stale', path=path_text(p) if p else None)
    if seen_creators < len(MARKER_FUNCS):
        raise AnalysisError('only %d if_true_start() creators found' % seen_creators)


@rule('R05.c', ('C05', 'C06'), 'JSR is emitted only for a routine the symbol '
      'table knows', floor=2,
      decides='every call names a routine that exists')
def r05c(R):
    A = R.A
    sites = []
    for f in A.repo.all_functions('bardolph.parser'):
        for call, ops in A.emission_sites(f):
            for op, args in ops:
                if op == 'JSR':
                    sites.append((f, call, args))
    for f, call, args in sites:
        if f.short == 'CodeGen.push_context':
            callers = A.rs.callers(f)
            R.check(f, call, not callers, 'CodeGen.push_context emits JSR with '
                    'an unchecked operand and now has a caller (%s)'
                    % (callers[0].func.short if callers else ''))
            continue
        cfg = A.cfg(f)
        ok = False
        why = 'the routine name does not come from a symbol-table lookup'
        if args and isinstance(args[0], ast.Attribute) \
                and isinstance(args[0].value, ast.Name):
            var = args[0].value.id
            src = [n for n in cfg.nodes if n.kind == 'stmt'
                   and isinstance(n.ast, ast.Assign)
                   and isinstance(n.ast.targets[0], ast.Name)
                   and n.ast.targets[0].id == var
                   and isinstance(n.ast.value, ast.Call)
                   and 'Context.get_routine' in A.callee_names(f, n.ast.value)]
            guards = [n for n in cfg.nodes if n.kind == 'cond'
                      and norm(n.ast) == var + '.undefined']
            if src and guards:
                jn = A.node_of_call(f, call)
                # JSR reachable only through the False edge of the guard
                from ..cfg import reachable_without_edges
                reach = reachable_without_edges(
                    cfg, cfg.entry, set((g.id, False) for g in guards))
                ok = all(j.id not in reach for j in jn)
                why = 'the JSR emission is reachable for an undefined routine'
        R.check(f, call, ok, 'JSR may name a routine that does not exist: ' + why)


@rule('R05.d', ('C05', 'C01'), 'no routine body can be emitted inside an open '
      'branch span', floor=2,
      decides='loading a script (moving routine bodies out of line) does not '
              'change where any branch leads')
def r05d(R):
    A = R.A
    # part 1: the loader does not rewrite relative offsets
    for name in ('Loader.load', 'Loader._load_routine'):
        f = A.func(LOADER, name)
        stores = [n for n in walk_own(f.node)
                  if isinstance(n, ast.Attribute) and isinstance(n.ctx, ast.Store)
                  and n.attr in ('param0', 'param1', 'op_code')]
        if stores:
            R.note('%s rewrites instruction fields; R05.d assumes it does not' % name)
    rd = A.func(PARSE, 'Parser._routine_definition')
    # part 2: who holds a marker open across a nested command sequence?
    holders = 0
    for f in A.repo.all_functions('bardolph.parser'):
        if f.cls is not None and f.cls.name == 'CodeGen':
            continue
        cfg = A.cfg(f)
        starts = A.calls_nodes(f, 'CodeGen.if_true_start') + \
            A.calls_nodes(f, 'CodeGen.mark')
        if not starts:
            continue
        ends = A.calls_nodes(f, 'CodeGen.if_end') + \
            A.calls_nodes(f, 'CodeGen.jump_back')
        region = cfg.reachable_from([m for n in starts for m, _ in n.succs],
                                    avoid=[])
        region = [n for n in region
                  if any(e in cfg.reachable_from([n]) for e in ends)]
        path = None
        for n in region:
            for c in n.calls():
                for t in A.callees(f, c):
                    if t is rd or not t.module.name.startswith('bardolph.parser'):
                        continue
                    cp = A.rs.call_path(t, rd)
                    if cp is not None:
                        # is the ROUTINE emission guarded against this context?
                        path = [f.short] + [x.short for x in cp]
                        break
                if path:
                    break
            if path:
                break
        if path is None:
            continue
        holders += 1
        guarded = _definition_rejected_in_spans(A, rd)
        R.check(f, 'open branch span reaches Parser._routine_definition',
                guarded,
                'a routine definition inside this if/repeat body is accepted; '
                'the loader moves the ROUTINE..END segment out of the main '
                'stream without adjusting the relative jumps that span it, so '
                'the branch lands past its target', path=path)
    if holders == 0:
        R.ok(rd, 'no open branch span reaches a routine definition')


def _definition_rejected_in_spans(A, rd):
    """_routine_definition refuses to run while a loop / conditional is
    open: a guard on a context query that covers both."""
    cfg = A.cfg(rd)
    emit = A.emit_nodes(rd, 'ROUTINE')
    guards = [n for n in cfg.nodes if n.kind == 'cond' and any(
        x in ('Context.in_loop', 'Context.in_branch', 'Context.in_block',
              'Context.in_conditional', 'Context.at_top_level')
        for c in n.calls() for x in A.callee_names(rd, c))]
    names = set(x for n in guards for c in n.calls()
                for x in A.callee_names(rd, c))
    covers_loop = 'Context.in_loop' in names or 'Context.in_block' in names \
        or 'Context.at_top_level' in names
    covers_if = bool(names & {'Context.in_branch', 'Context.in_block',
                              'Context.in_conditional', 'Context.at_top_level'})
    return bool(emit) and covers_loop and covers_if


@rule('R05.e', ('C05', 'C17'), 'the loader appends whole instruction objects, '
      'in order, to exactly one segment', floor=4,
      decides='loading does not change the program other than moving routine '
              'bodies out of line')
def r05e(R):
    A = R.A
    load = A.func(LOADER, 'Loader.load')
    lr = A.func(LOADER, 'Loader._load_routine')
    for f in (load, lr):
        appends = [c for c in A.calls_in(f)
                   if isinstance(c.func, ast.Attribute) and c.func.attr == 'append'
                   and self_attr(c.func.value) in ('_main_segment',
                                                   '_routine_segment')]
        srcs = set()
        for node in walk_own(f.node):
            if isinstance(node, ast.Assign) and isinstance(node.value, ast.Call) \
                    and 'Loader._next_inst' in A.callee_names(f, node.value):
                srcs.add(norm(node.targets[0]))
        srcs |= set(p for p in f.params if p in ('current_inst',))
        for c in appends:
            R.check(f, c, c.args and norm(c.args[0]) in srcs,
                    'the loader appends something other than the instruction '
                    'it just read: the image is no longer the compiled program')
        other = [c for c in A.calls_in(f)
                 if isinstance(c.func, ast.Attribute)
                 and c.func.attr in ('insert', 'appendleft', 'extend', 'pop',
                                     'remove', 'sort', 'reverse')
                 and self_attr(c.func.value) in ('_main_segment',
                                                 '_routine_segment')]
        R.check(f, 'segments only grow by append', not other,
                'the loader reorders or drops instructions (%s)'
                % (norm(other[0]) if other else ''))
    # a ROUTINE instruction goes to the routine segment, everything else to main
    cfg = A.cfg(load)
    tests = [n for n in cfg.nodes if n.kind == 'cond'
             and isinstance(n.ast, ast.Compare)
             and isinstance(A.try_fold(n.ast.comparators[0], load), EnumVal)
             and A.try_fold(n.ast.comparators[0], load).member == 'ROUTINE']
    ok = False
    if tests:
        t = tests[0]
        # label of the edge taken when the op-code IS ROUTINE
        is_label = isinstance(t.ast.ops[0], (ast.Is, ast.Eq))
        lr_nodes = [n for n in cfg.nodes for c in n.calls()
              if 'Loader._load_routine' in A.callee_names(load, c)]
        ap_nodes = [n for n in cfg.nodes for c in n.calls()
              if isinstance(c.func, ast.Attribute) and c.func.attr == 'append'
              and self_attr(c.func.value) == '_main_segment']
        wo_is = reachable_without_edges(cfg, cfg.entry, {(t.id, is_label)})
        wo_not = reachable_without_edges(cfg, cfg.entry, {(t.id, not is_label)})
        ok = bool(lr_nodes and ap_nodes) and all(n.id not in wo_is for n in lr_nodes) \
            and all(n.id not in wo_not for n in ap_nodes)
    R.check(load, 'ROUTINE -> routine segment, else -> main segment', ok,
            'the segment split no longer keys on OpCode.ROUTINE')
    # _load_routine stops at END <same name>
    ok = False
    # the local that holds the routine's name: bound to <instruction>.param0
    name_vars = [norm(n.targets[0]) for n in walk_own(lr.node)
                 if isinstance(n, ast.Assign) and isinstance(n.value, ast.Attribute)
                 and n.value.attr == 'param0' and isinstance(n.targets[0], ast.Name)]
    for n in walk_own(lr.node):
        if isinstance(n, ast.While):
            t = norm(n.test)
            names = set(x.id for x in ast.walk(n.test) if isinstance(x, ast.Name))
            ok = 'OpCode.END' in t and '.param0' in t and \
                any(v in names for v in name_vars)
    R.check(lr, 'routine segment ends at END <routine name>', ok,
            'the end of a routine body is no longer recognised by END <name>')


# ------------------------------------------------------------------ R05.f
def _confirm_codegen_model(A):
    """add_instruction appends exactly one Instruction(op, p0, p1) and
    returns it; current_offset is len(self._code)."""
    add = A.func(CODEGEN, 'CodeGen.add_instruction')
    appends = [c for c in A.calls_in(add) if isinstance(c.func, ast.Attribute)
               and c.func.attr == 'append' and self_attr(c.func.value) == '_code']
    loops = [n for n in walk_own(add.node) if isinstance(n, (ast.For, ast.While))]
    ctor = [c for c in A.calls_in(add)
            if norm(c.func) == 'Instruction'
            and [norm(a) for a in c.args] == add.params[1:4]]
    rets = [n for n in walk_own(add.node) if isinstance(n, ast.Return)]
    ok1 = len(appends) == 1 and not loops and len(ctor) == 1 and len(rets) == 1
    cur = A.func(CODEGEN, 'CodeGen.current_offset')
    r = [n for n in walk_own(cur.node) if isinstance(n, ast.Return)]
    ok2 = len(r) == 1 and norm(r[0].value) == 'len(self._code)'
    return ok1, ok2


def _fresh_marker(tag):
    j = Inst(Lin.sym('J' + tag))
    # invariant established by if_true_start / if_else: offset = index(jump)+1
    m = Record(jump=j, offset=Lin.sym('J' + tag) + 1)
    return m, j


@rule('R05.f', ('C05', 'C01', 'C04', 'C02'), 'offset arithmetic of if/else/end, back '
      'jump and break patch lands on the intended instruction (affine '
      'evaluation)', floor=10,
      decides='every branch, loop exit and break leads to the statement the '
              'source says comes next')
def r05f(R):
    A = R.A
    ok1, ok2 = _confirm_codegen_model(A)
    add = A.func(CODEGEN, 'CodeGen.add_instruction')
    R.check(add, 'appends exactly one Instruction(op_code, param0, param1) and '
            'returns it', ok1, 'CodeGen.add_instruction no longer appends '
            'exactly one instruction built from its arguments')
    R.check(A.func(CODEGEN, 'CodeGen.current_offset'),
            'current_offset == len(self._code)', ok2,
            'current_offset is no longer the length of the code list')
    if not (ok1 and ok2):
        return
    C = Lin.sym('C')

    def run(fname, env):
        f = A.func(CODEGEN, 'CodeGen.' + fname)
        ev = AffineEval(A, f, C, env)
        try:
            ev.run(straight_body(f))
        except NotAffine as ex:
            R.fail(f, fname, 'offset arithmetic is no longer affine / '
                   'straight-line: %s' % ex)
            return f, None
        return f, ev

    # if_true_start
    f, ev = run('if_true_start', {})
    if ev is not None:
        m = ev.returned
        ok = isinstance(m, Record) and isinstance(m.fields.get('jump'), Inst) \
            and as_lin(m.fields.get('offset')) == m.fields['jump'].index + 1 \
            and len(ev.emitted) == 1 and ev.emitted[0].param0 == \
            A.try_fold(ast.parse('JumpCondition.IF_FALSE', mode='eval').body, f)
        R.check(f, 'marker.offset == index(marker.jump) + 1; JUMP IF_FALSE',
                ok, 'if_true_start: the marker does not record the position '
                'right after its conditional jump (got %r)' % (m,))
    # if_else
    m, j = _fresh_marker('0')
    f, ev = run('if_else', {'marker': m})
    if ev is not None:
        new = [i for i in ev.emitted]
        okp = j.param1 is not None
        tgt_ok = okp and len(new) == 1 and \
            (j.index + as_lin(j.param1)) == new[0].index + 1
        R.check(f, 'true-branch jump lands right after the new JUMP ALWAYS '
                '(index + param1 = %r)' % ((j.index + as_lin(j.param1))
                                           if okp else None),
                tgt_ok, 'if_else: when the condition is false control must '
                'continue at the first instruction of the else part')
        inv = len(new) == 1 and m.fields.get('jump') is new[0] and \
            as_lin(m.fields.get('offset')) == new[0].index + 1
        R.check(f, 'marker now tracks the JUMP ALWAYS (offset == index + 1)',
                inv, 'if_else: the marker is not re-pointed at the new '
                'unconditional jump, so if_end patches the wrong instruction')
    # if_end
    m, j = _fresh_marker('1')
    f, ev = run('if_end', {'marker': m})
    if ev is not None:
        okp = j.param1 is not None and not ev.emitted
        R.check(f, 'pending jump lands on the next emitted instruction '
                '(index + param1 = %r, expected C)' % (
                    (j.index + as_lin(j.param1)) if j.param1 is not None else None),
                okp and (j.index + as_lin(j.param1)) == C,
                'if_end: the pending jump must land on the first instruction '
                'after the conditional block')
    # mark / jump_back
    f, ev = run('mark', {})
    if ev is not None:
        m = ev.returned
        R.check(f, 'mark().offset == C', isinstance(m, Record)
                and as_lin(m.fields.get('offset')) == C and not ev.emitted,
                'mark: the loop top is not the index of the next instruction')
    mk = Record(jump=None, offset=Lin.sym('M'))
    f, ev = run('jump_back', {'marker': mk})
    if ev is not None:
        ok = len(ev.emitted) == 1 and ev.emitted[0].param1 is not None and \
            (ev.emitted[0].index + as_lin(ev.emitted[0].param1)) == Lin.sym('M')
        R.check(f, 'back jump lands on marker.offset', ok,
                'jump_back: the jump does not return to the marked loop top')
    # break: the JUMP records its own index; fix_break_addrs turns it into a
    # displacement to the instruction emitted next
    brk = A.func(PARSE, 'Parser._break')
    ev = AffineEval(A, brk, C, {}, codegen_names=('self', 'self._code_gen'))
    jumps = []
    for call, ops in A.emission_sites(brk):
        for op, args in ops:
            if op == 'JUMP':
                jumps.append(args)
    ok = False
    if jumps and len(jumps[0]) >= 2:
        try:
            ok = as_lin(ev.ev(jumps[0][1])) == C
        except NotAffine:
            ok = False
    R.check(brk, 'break JUMP records its own index', ok,
            'the placeholder of a break no longer records the index of the '
            'jump itself, which fix_break_addrs subtracts')
    fix = A.func(CONTEXT, 'Context.fix_break_addrs')
    bj = Inst(Lin.sym('B'), None, None, Lin.sym('B'))
    ev = AffineEval(A, fix, C, {'<iter>': bj},
                    codegen_names=('code_gen', 'self'))
    try:
        ev.run(straight_body(fix))
        ok = (bj.index + as_lin(bj.param1)) == C
        R.check(fix, 'break lands on the instruction emitted next '
                '(index + param1 = %r, expected C)' % (bj.index + as_lin(bj.param1)),
                ok, 'fix_break_addrs: a break no longer lands on END_LOOP')
    except NotAffine as ex:
        R.fail(fix, 'fix_break_addrs', 'not affine: %s' % ex)
    # the VM adds the displacement to pc
    jmp = A.func(MACHINE, 'Machine._jump')
    rel = [n for n in walk_own(jmp.node) if isinstance(n, ast.AugAssign)
           and isinstance(n.op, ast.Add) and norm(n.target) == 'self._reg.pc']
    taken = [n for n in rel if norm(n.value).endswith('param1')]
    skip = [n for n in rel if A.try_fold(n.value, jmp) == 1]
    R.check(jmp, 'pc += param1 when taken, pc += 1 otherwise',
            len(taken) == 1 and len(skip) == 1,
            'Machine._jump does not treat param1 as a displacement relative to '
            'the jump instruction')
    # jump table: ALWAYS / IF_FALSE / IF_TRUE
    table = None
    for t, _n in A.tables_in(jmp):
        if all(isinstance(k, EnumVal) and k.enum == 'JumpCondition' for k in t) \
                and all(isinstance(v, dict) for v in t.values()):
            table = t
    want = {'ALWAYS': {True: True, False: True},
            'IF_FALSE': {True: False, False: True},
            'IF_TRUE': {True: True, False: False}}
    got = {k.member: v for k, v in (table or {}).items()}
    R.check(jmp, 'jump condition table', got == want,
            'the jump condition table does not implement ALWAYS / IF_FALSE / '
            'IF_TRUE (got %r)' % got)
    idx = [n for n in walk_own(jmp.node) if isinstance(n, ast.Subscript)
           and 'bool(self._reg.result)' in norm(n.slice)]
    R.check(jmp, 'condition is bool(result register)', bool(idx),
            'the branch condition is not the truth value of the result '
            'register (numbers must count as false when zero)')


@rule('R05.g', ('C05', 'C01'), 'loader: routine entry address and prologue '
      'jump are consistent with the final image layout (affine evaluation)',
      floor=4,
      decides='a call runs the routine body wherever at top level it was '
              'defined; execution starts at the first main instruction')
def r05g(R):
    A = R.A
    gc = A.func(LOADER, 'Loader.get_code')
    lr = A.func(LOADER, 'Loader._load_routine')
    # layout of the final image from get_code: prologue + routine + main
    S, Mn = Lin.sym('S'), Lin.sym('Mn')
    cfg = A.cfg(gc)
    # find the list display that starts the image and the two extends
    pro = None
    order = []
    for n in cfg.nodes:
        if n.kind == 'stmt' and isinstance(n.ast, ast.Assign) \
                and isinstance(n.ast.value, ast.List):
            pro = n.ast.value
        for c in n.calls():
            if isinstance(c.func, ast.Attribute) and c.func.attr == 'extend' and c.args:
                order.append(norm(c.args[0]))
    ok = pro is not None and order == ['self._routine_segment', 'self._main_segment']
    R.check(gc, 'image = [prologue] + routine segment + main segment', ok,
            'the final image is not laid out as prologue, routines, main')
    if not ok:
        return
    plen = len(pro.elts)
    jumps = [e for e in pro.elts if isinstance(e, ast.Call)
             and norm(e.func) == 'Instruction']
    okj = False
    if len(jumps) == 1 and len(jumps[0].args) == 3:
        op = A.try_fold(jumps[0].args[0], gc)
        cond = A.try_fold(jumps[0].args[1], gc)
        ev = AffineEval(A, gc, 0, {}, len_syms={'self._routine_segment': S})
        for st in straight_body(gc):
            if isinstance(st, ast.Assign) and isinstance(st.targets[0], ast.Name) \
                    and not isinstance(st.value, ast.List):
                try:
                    ev.stmt(st)
                except NotAffine:
                    pass
        try:
            disp = as_lin(ev.ev(jumps[0].args[2]))
            okj = isinstance(op, EnumVal) and op.member == 'JUMP' and \
                isinstance(cond, EnumVal) and cond.member == 'ALWAYS' and \
                disp == S + plen
        except NotAffine:
            okj = False
    R.check(gc, 'prologue jump displacement == len(prologue) + len(routines)',
            okj, 'the prologue jump at index 0 does not land on the first '
            'main instruction')
    # no-routine shortcut returns the main segment itself
    ev0 = AffineEval(A, gc, 0, {}, len_syms={'self._routine_segment': S})
    for st in straight_body(gc):
        if isinstance(st, ast.Assign) and isinstance(st.targets[0], ast.Name) \
                and not isinstance(st.value, ast.List):
            try:
                ev0.stmt(st)
            except NotAffine:
                pass

    def empty_test(e):
        if isinstance(e, ast.Compare) and len(e.ops) == 1 \
                and isinstance(e.ops[0], ast.Eq):
            try:
                sides = [as_lin(ev0.ev(e.left)), as_lin(ev0.ev(e.comparators[0]))]
            except NotAffine:
                return False
            return (sides[0] == S and sides[1] == Lin.const(0)) or \
                (sides[1] == S and sides[0] == Lin.const(0))
        return False
    def empty_test2(e):
        # `not self._routine_segment`, `len(...) < 1` and the other notations
        em = A.emptiness(e)
        return em is not None and em[0] == 'self._routine_segment'
    short = [n for n in cfg.nodes if n.kind == 'cond'
             and (empty_test(n.ast) or empty_test2(n.ast))]
    R.check(gc, 'no routines -> main segment unchanged', bool(short) and any(
        norm(r.ret_expr) == 'self._main_segment' for r in cfg.return_nodes()
        if r.ret_expr is not None), 'without routines the image must be the '
        'main segment')
    # routine address: final index of the instruction after ROUTINE
    ev = AffineEval(A, lr, 0, {'current_inst': ('opaque', 'inst')},
                    len_syms={'self._routine_segment': S})
    addr = None
    body = straight_body(lr)
    try:
        for s in body:
            if isinstance(s, ast.Expr) and isinstance(s.value, ast.Call) and \
                    isinstance(s.value.func, ast.Attribute) and \
                    s.value.func.attr == 'set_address':
                addr = as_lin(ev.ev(s.value.args[0]))
                break
            if isinstance(s, (ast.While, ast.If)):
                break
            try:
                ev.stmt(s)
            except NotAffine:
                continue
    except NotAffine:
        addr = None
    appended = ev.len_syms['self._routine_segment'] - S
    # the ROUTINE instruction sits at segment index S (0-based) => final index
    # plen + S; the first body instruction follows it
    want = S + plen + 1
    R.check(lr, 'set_address(%r) == final index of first body instruction %r'
            % (addr, want), addr is not None and appended == Lin.const(1)
            and addr == want,
            'the routine entry address does not point at the first instruction '
            'of the body in the final image (JSR would start at the wrong '
            'place)')
    # JSR uses it as an absolute pc; the return address is the next instruction
    jsr = A.func(MACHINE, 'Machine._jsr')
    abs_ = [n for n in walk_own(jsr.node) if isinstance(n, ast.Assign)
            and norm(n.targets[0]) == 'self._reg.pc'
            and norm(n.value).endswith('.get_address()')]
    ret = [c for c in A.calls_in(jsr) if 'CallStack.set_return' in
           A.callee_names(jsr, c) and c.args
           and norm(c.args[0]).replace(' ', '') == 'self._reg.pc+1']
    R.check(jsr, 'pc = routine address (absolute); return address = pc + 1',
            len(abs_) == 1 and len(ret) == 1,
            'JSR does not enter at the loader\'s absolute address or does not '
            'resume right after the call')
