"""C03 - Parameters are by-value locals hiding globals; return works from any
depth."""
import ast

from ..analysis import PROPERTY_TEXT, path_text, self_attr
from ..const import EnumVal
from ..index import AnalysisError, norm, store_targets
from ..report import rule
from ..resolve import walk_own

PARSE = 'bardolph.parser.parse'
MACHINE = 'bardolph.vm.machine'
STACK = 'bardolph.vm.call_stack'

PROPERTY_TEXT['C03'] = (
    'no VM / frame method reads an attribute its object cannot have (R03.a); '
    'the compiler emits CTX, one PARAM per declared parameter, JSR, END_CTX in '
    'that order on every successful path and the VM handlers push/pop frames '
    'as the table CTX:+call, LOOP:+loop, END_LOOP:-loop, RETURN: unwind then '
    '-call says (R03.b); a loop frame shares every looked-up field with its '
    'parent (R03.c); the container PARAM fills is not on the variable lookup '
    'chain before the call is entered (R03.d); lookup and assignment resolve '
    'parameters before globals (R03.e).',
    'scope semantics as a whole, by-value copying, recursion depth, '
    'compile-time MOVE/MOVEQ choice.')


# ---------------------------------------------------------------- R03.a
def _class_defines(cls, attr, rs):
    for c in cls.mro():
        if attr in c.methods or attr in c.class_attrs \
                or attr in c.instance_attr_names():
            return True
        if c.base_texts and not c.bases and c.base_texts != ['object']:
            # external base (Enum, list, Exception...): unknown members
            if not all(t in ('object',) for t in c.base_texts):
                return True
    return False


def undefined_attr_loads(A, classes):
    """[(func, attr node)] loads of self.<x> no class in the MRO defines."""
    out, examined = [], 0
    for cls in classes:
        for m in cls.methods.values():
            if m.is_static:
                continue
            selfname = m.params[0] if m.params else None
            if selfname != 'self':
                continue
            for node in walk_own(m.node):
                if isinstance(node, ast.Attribute) and isinstance(node.ctx, ast.Load) \
                        and isinstance(node.value, ast.Name) \
                        and node.value.id == 'self':
                    examined += 1
                    if node.attr.startswith('__') and node.attr.endswith('__'):
                        continue
                    if _class_defines(cls, node.attr, A.rs):
                        continue
                    # template-method hook: defined by every subclass that
                    # inherits this method, and the class itself is never
                    # instantiated
                    subs = cls.all_subclasses()
                    inheriting = [s for s in subs
                                  if s.lookup(m.name) is m]
                    instantiated = any(
                        isinstance(A.repo.resolve_expr_static(f.module, c.func),
                                   type(cls))
                        and A.repo.resolve_expr_static(f.module, c.func) is cls
                        for f in A.repo.all_functions()
                        for c in A.calls_in(f))
                    if inheriting and not instantiated and all(
                            _class_defines(s, node.attr, A.rs)
                            for s in inheriting):
                        continue
                    out.append((m, node))
    return out, examined


@rule('R03.a', ('C03',), 'no load of an attribute the object cannot have '
      '(frames and VM)', floor=100,
      decides='return / loop / call handlers do not fault: `return` ends only '
              'the current call from any depth')
def r03a(R):
    A = R.A
    classes = []
    for modname in (STACK, MACHINE, 'bardolph.vm.vm_math', 'bardolph.vm.vm_io',
                    'bardolph.vm.vm_discover', 'bardolph.vm.eval_stack',
                    'bardolph.vm.loader', 'bardolph.lib.symbol_table',
                    'bardolph.parser.context'):
        classes += list(A.repo.module(modname).classes.values())
    bad, examined = undefined_attr_loads(A, classes)
    badset = set(id(n) for _m, n in bad)
    for cls in classes:
        for m in cls.methods.values():
            loads = sorted(set(
                n.attr for n in walk_own(m.node)
                if isinstance(n, ast.Attribute) and isinstance(n.ctx, ast.Load)
                and isinstance(n.value, ast.Name) and n.value.id == 'self'))
            if loads and not any(mm is m for mm, _ in bad):
                R.ok(m, 'self.{%s}' % ', '.join(loads))
    for m, node in bad:
        R.fail(m, node, '%s has no attribute %r (not a method, property, class '
               'attribute nor assigned on self anywhere in the class or its '
               'bases): this statement raises AttributeError whenever it runs'
               % (m.cls.name, node.attr))
    R.note('self-attribute loads examined: %d' % examined)


# ---------------------------------------------------------------- R03.b
FRAME_EFFECT = {     # VM handler -> CallStack methods it must call, in order
    'Machine._ctx': ['CallStack.new_frame'],
    'Machine._loop': ['CallStack.enter_loop'],
    'Machine._end_loop': ['CallStack.exit_loop'],
    'Machine._jsr': ['CallStack.enter_routine', 'CallStack.set_return'],
    'Machine._return': ['CallStack.unwind_loops', 'CallStack.get_return',
                        'CallStack.exit_routine'],
}
STACK_EFFECT = {     # CallStack method -> effect on self._top
    'new_frame': 'push:StackFrame', 'enter_loop': 'push:LoopFrame',
    'exit_loop': 'pop', 'exit_routine': 'pop', 'unwind_loops': 'pop-while-loop',
}


def _top_effect(A, f):
    """Effect of a CallStack method on self._top read from its assignments."""
    effects = []
    for node in walk_own(f.node):
        if isinstance(node, ast.Assign) and len(node.targets) == 1 \
                and self_attr(node.targets[0]) == '_top':
            v = node.value
            if isinstance(v, ast.Call) and len(v.args) == 1 \
                    and norm(v.args[0]) == 'self._top':
                effects.append('push:' + norm(v.func))
            elif norm(v) == 'self._top.parent':
                effects.append('pop')
            else:
                effects.append('other:' + norm(v))
    loops = [n for n in walk_own(f.node) if isinstance(n, ast.While)]
    if loops and effects == ['pop']:
        t = norm(loops[0].test)
        if 'isinstance(self._top, LoopFrame)' in t:
            return 'pop-while-loop'
        return 'pop-while:' + t
    return '+'.join(effects) if effects else 'none'


@rule('R03.b', ('C03', 'C05', 'C01', 'C19'), 'calling sequence CTX/PARAM*/JSR/END_CTX and '
      'frame push/pop table of the VM handlers', floor=14,
      decides='each call has its own parameters and locals, gone afterwards; '
              'every loop or call entered is left again')
def r03b(R):
    A = R.A
    f = A.func(PARSE, 'Parser._call_routine')
    cfg = A.cfg(f)
    ctx, par, jsr, end = (A.emit_nodes(f, k) for k in
                          ('CTX', 'PARAM', 'JSR', 'END_CTX'))
    for name, nodes in (('CTX', ctx), ('PARAM', par), ('JSR', jsr),
                        ('END_CTX', end)):
        if not nodes:
            R.fail(f, 'emission of %s' % name, 'Parser._call_routine never '
                   'emits %s' % name)
            return
    p = A.path_skipping(f, [cfg.entry], ctx)
    R.check(f, 'CTX on every successful path', p is None,
            'a call can be compiled without CTX', path=path_text(p) if p else None)
    p = A.path_skipping(f, ctx, jsr)
    R.check(f, 'CTX ... JSR', p is None, 'a call can be compiled with CTX but '
            'without JSR', path=path_text(p) if p else None)
    p = A.path_skipping(f, jsr, end)
    R.check(f, 'JSR ... END_CTX', p is None, 'a call can be compiled without '
            'END_CTX after JSR', path=path_text(p) if p else None)
    # order: no CTX after JSR, no PARAM after JSR, no JSR twice
    for a, b, what in ((jsr, ctx, 'CTX after JSR'), (jsr, par, 'PARAM after JSR'),
                       (jsr, jsr, 'JSR twice'), (end, jsr, 'JSR after END_CTX'),
                       (ctx, ctx, 'CTX twice')):
        after = cfg.reachable_from([m for n in a for m, _ in n.succs])
        R.check(f, 'no ' + what, not any(x in after for x in b),
                'calling sequence out of order: ' + what)
    # PARAM once per declared parameter: inside the loop over the routine's
    # parameter list, with the parameter name as first operand
    for n in par:
        loops = [h for h in cfg.nodes if h.kind == 'for'
                 and n in cfg.reachable_from(
                     [m for m, lab in h.succs if lab is True], avoid=[h])]
        ok = any('params' in norm(h.ast.iter) for h in loops)
        site = [(c, ops) for c, ops in A.emission_sites(f) if c in n.calls()][0]
        args = [a for op, a in site[1] if op == 'PARAM'][0]
        loopvar = [norm(h.ast.target) for h in loops if 'params' in norm(h.ast.iter)]
        ok = ok and args and norm(args[0]) in loopvar
        R.check(f, site[0], ok, 'PARAM is not emitted once per declared '
                'parameter (loop over the routine\'s params, named by the loop '
                'variable)')
    # VM side
    for hname, wanted in sorted(FRAME_EFFECT.items()):
        h = A.func(MACHINE, hname)
        hcfg = A.cfg(h)
        seq_nodes = []
        for w in wanted:
            ns = A.calls_nodes(h, w)
            if not ns:
                R.fail(h, w, '%s no longer calls %s: frames are not %s' % (
                    hname, w, 'pushed/popped as the calling sequence needs'))
                seq_nodes = None
                break
            seq_nodes.append(ns)
        if seq_nodes is None:
            continue
        ok = True
        for i in range(len(seq_nodes) - 1):
            # every path to the later call passes the earlier one
            if hcfg.find_path([hcfg.entry], lambda n, s=seq_nodes[i + 1]: n in s,
                              avoid=seq_nodes[i]) is not None:
                ok = False
        # nothing else touching the frame stack
        others = []
        for c in A.calls_in(h):
            for nm in A.callee_names(h, c):
                if nm.startswith('CallStack.') and \
                        nm.split('.')[1] in STACK_EFFECT and nm not in wanted:
                    others.append(nm)
        R.check(h, ' -> '.join(wanted), ok and not others,
                'frame operations of %s are out of order or extra (%s)'
                % (hname, ', '.join(others) or 'order'))
    for mname, want in sorted(STACK_EFFECT.items()):
        m = A.func(STACK, 'CallStack.' + mname)
        got = _top_effect(A, m)
        R.check(m, 'effect on _top: %s' % got, got == want,
                'CallStack.%s must %s the frame stack but its effect is %s'
                % (mname, want, got))
    # _end: anything that is not the END of a matrix block returns
    e = A.func(MACHINE, 'Machine._end')
    R.check(e, 'END <routine> returns', bool(A.calls_nodes(e, 'Machine._return')),
            'END of a routine body no longer returns to the caller')


# ---------------------------------------------------------------- R03.c/d/e
def _lookup_fields(A):
    """Fields of the top frame the lookup / assignment code reads."""
    fields = []
    sf = A.cls(STACK, 'StackFrame')
    cs = A.cls(STACK, 'CallStack')
    for f in (sf.methods['get_variable'], sf.methods['get_parameter']):
        for node in walk_own(f.node):
            a = self_attr(node) if isinstance(node, ast.Attribute) else None
            if a and a not in fields:
                fields.append(a)
    for name in ('put_variable', 'put_param'):
        for node in walk_own(cs.methods[name].node):
            if isinstance(node, ast.Attribute) and norm(node.value) == 'self._top' \
                    and node.attr not in fields and node.attr in \
                    sf.instance_attr_names():
                fields.append(node.attr)
    return fields


@rule('R03.c', ('C03', 'C01', 'C04'), 'a loop frame shares every looked-up field with its '
      'parent frame', floor=4,
      decides='assigning to a parameter inside a loop never changes a global; '
              'a parameter hides a global for the whole body')
def r03c(R):
    A = R.A
    loop = A.cls(STACK, 'LoopFrame')
    fields = _lookup_fields(A)
    chain = [c.methods['__init__'] for c in loop.mro() if '__init__' in c.methods]
    for field in fields:
        value = None
        where = None
        for init in chain:        # most derived first: its assignment wins
            for node in walk_own(init.node):
                if isinstance(node, ast.Assign) and any(
                        self_attr(t) == field for t in node.targets):
                    value, where = node.value, init
            if value is not None:
                break
        ok = False
        if value is not None:
            t = norm(value)
            if t == 'parent.' + field:
                ok = True
            elif isinstance(value, ast.IfExp) and norm(value.body) == 'parent.' + field \
                    and norm(value.test) in ('parent is not None', 'parent'):
                ok = True
        R.check(where or loop, 'LoopFrame.%s = %s' % (field, norm(value)), ok,
                'inside a loop the top frame is a LoopFrame whose `%s` is not '
                'its parent\'s: lookups and assignments made in a loop body '
                'do not see the enclosing call\'s %s (a parameter assigned in '
                'a loop overwrites the hidden global instead)' % (field, field))


@rule('R03.d', ('C03', 'C02'), 'the parameter container being filled is not on the '
      'variable lookup chain before the call is entered', floor=2,
      decides='arguments are evaluated in the caller\'s scope, unaffected by '
              'the names of the callee\'s parameters')
def r03d(R):
    A = R.A
    cs = A.cls(STACK, 'CallStack')
    sf = A.cls(STACK, 'StackFrame')
    put = cs.methods['put_param']
    written = None
    for node in walk_own(put.node):
        if isinstance(node, ast.Subscript) and isinstance(node.ctx, ast.Store) \
                and isinstance(node.value, ast.Attribute) \
                and norm(node.value.value) == 'self._top':
            written = node.value.attr
    if written is None:
        raise AnalysisError('CallStack.put_param: written container not found')
    enter = cs.methods['enter_routine']
    activated = None
    for node in walk_own(enter.node):
        if isinstance(node, ast.Assign) and norm(node.value) == 'self._top.' + written:
            t = node.targets[0]
            if isinstance(t, ast.Attribute) and norm(t.value) == 'self._top':
                activated = t.attr
    R.check(enter, 'enter_routine activates %s via %s' % (written, activated),
            activated is not None,
            'enter_routine no longer makes the filled parameters the '
            'routine\'s variables')
    if activated is not None:
        cfg = A.cfg(enter)
        stores = [n for n in cfg.nodes if n.kind == 'stmt'
                  and isinstance(n.ast, ast.Assign)
                  and norm(n.ast.value) == 'self._top.' + written
                  and norm(n.ast.targets[0]) == 'self._top.' + activated]
        p = cfg.find_path([cfg.entry], lambda n: n is cfg.exit, avoid=stores)
        R.check(enter, 'the switch to the callee\'s own scope is unconditional',
                p is None,
                'enter_routine can return without replacing the variables '
                'inherited from the caller by the routine\'s own (on that path '
                'the callee reads and writes the caller\'s locals: its locals '
                'leak, recursion shares them, a caller\'s parameter hides a '
                'global inside the callee)', path=path_text(p) if p else None)
    gv = sf.methods['get_variable']
    chain = []
    for node in walk_own(gv.node):
        if isinstance(node, ast.For) and isinstance(node.iter, (ast.Tuple, ast.List)):
            chain = [self_attr(e) for e in node.iter.elts]
    if not chain:
        raise AnalysisError('StackFrame.get_variable: lookup chain not found')
    R.check(gv, 'lookup chain (%s)' % ', '.join(map(str, chain)),
            written not in chain,
            'get_variable consults `%s` directly: while the arguments of a call '
            'are being evaluated it already holds the callee\'s parameters, '
            'so an argument named like an earlier parameter reads the '
            'parameter instead of the caller\'s variable' % written)
    R.check(gv, 'activated field `%s` on the chain' % activated,
            activated in chain, 'the routine\'s variables are not looked up')


@rule('R03.e', ('C03',), 'parameters/locals are resolved before globals in '
      'lookup and in assignment', floor=2,
      decides='a parameter hides a global of the same name; assigning to a '
              'global name updates the global, any other name is local')
def r03e(R):
    A = R.A
    sf = A.cls(STACK, 'StackFrame')
    cs = A.cls(STACK, 'CallStack')
    gv = sf.methods['get_variable']
    chain = []
    for node in walk_own(gv.node):
        if isinstance(node, ast.For) and isinstance(node.iter, (ast.Tuple, ast.List)):
            chain = [self_attr(e) for e in node.iter.elts]
    ok = 'vars' in chain and 'globals' in chain and \
        chain.index('vars') < chain.index('globals')
    R.check(gv, 'lookup order (%s)' % ', '.join(map(str, chain)), ok,
            'globals are consulted before the routine\'s own variables: a '
            'parameter no longer hides a global of the same name')
    pv = cs.methods['put_variable']
    cfg = A.cfg(pv)
    from ..cfg import reachable_without_edges
    tests = [n for n in cfg.nodes if n.kind == 'cond'
             and isinstance(n.ast, ast.Compare)
             and isinstance(n.ast.ops[0], (ast.In, ast.NotIn))]
    stores = {}
    for n in cfg.nodes:
        if n.kind == 'stmt' and isinstance(n.ast, ast.Assign) \
                and isinstance(n.ast.targets[0], ast.Subscript):
            stores[norm(n.ast.targets[0].value).split('.')[-1]] = n   # whatever names the top frame

    def facts(store):
        """membership facts that hold whenever `store` executes"""
        out = set()
        for t in tests:
            name = norm(t.ast.comparators[0]).split('.')[-1]
            member = isinstance(t.ast.ops[0], ast.In)     # label of 'is in'
            if store.id not in reachable_without_edges(cfg, cfg.entry, {(t.id, member)}):
                out.add((name, True))
            if store.id not in reachable_without_edges(cfg, cfg.entry, {(t.id, not member)}):
                out.add((name, False))
        return out
    want = {'params': {('params', True)},
            'globals': {('params', False), ('globals', True)},
            'vars': {('params', False), ('globals', False)}}
    ok = set(stores) >= set(want)
    order = []
    for name, need in want.items():
        if name in stores:
            got = facts(stores[name])
            order.append('%s when %s' % (name, ' and '.join(
                '%s%s' % ('' if t else 'not in ', c) for c, t in sorted(got))))
            if not need <= got:
                ok = False
    R.check(pv, 'assignment resolution: params, else globals, else a local', ok,
            'put_variable must try the parameters, then the globals, and only '
            'then create a local')
