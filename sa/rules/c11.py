"""C11 - Time-of-day patterns match exactly the times they denote;
alternatives mean OR."""
import ast

from ..analysis import PROPERTY_TEXT, path_text, self_attr
from ..cfg import reachable_without_edges
from ..const import Regex, Unfoldable
from ..index import AnalysisError, norm
from ..report import rule
from ..resolve import walk_own

TIMEPAT = 'bardolph.lib.time_pattern'
LEX = 'bardolph.parser.lex'
MACHINE = 'bardolph.vm.machine'

PROPERTY_TEXT['C11'] = (
    'the hour and minute domains are the same (24 / 60) in the constant sets, '
    'the validators, the set expanders and the wildcard digit strings '
    '(R11.a); an alternative list is not merged field by field into a cross '
    'product (R11.b); the VM never calls a mutating method on a pattern '
    'object that aliases an instruction operand or macro value (R11.c); '
    'invalid patterns are rejected where they are written (R06.h); the lexer '
    'and the pattern class share one regular expression (R11.e); the '
    'position-wise wildcard match compares both digits (R11.f).',
    'exactness of match() against the denotation for all 15851 patterns; '
    'which minute a wait returns.')


def _upper_of_range(A, f, call):
    """exclusive upper bound of range(a, b) / range(b)."""
    if isinstance(call, ast.Call) and norm(call.func) == 'range':
        args = [A.try_fold(a, f) for a in call.args]
        if len(args) == 1:
            return args[0]
        if len(args) >= 2 and args[0] == 0:
            return args[1]
    return None


def _valid_upper(A, f):
    """exclusive upper bound accepted by hours_valid / minutes_valid:
    from the final comparison `0 <= x < N` (normalised)."""
    uppers = []
    for r in walk_own(f.node):
        if not (isinstance(r, ast.Return) and r.value is not None):
            continue
        for c in ast.walk(r.value):
            if not isinstance(c, ast.Compare):
                continue
            comps = [c.left] + c.comparators
            # a <= x < N  /  0 <= x and x < N  /  N > x ...: every adjacent
            # pair <variable> op <constant> (or the mirrored form)
            for i, op in enumerate(c.ops):
                lk, rk = A.try_fold(comps[i], f), A.try_fold(comps[i + 1], f)
                if isinstance(rk, int) and not isinstance(lk, int):
                    if isinstance(op, ast.Lt):
                        uppers.append(rk)
                    elif isinstance(op, ast.LtE):
                        uppers.append(rk + 1)
                elif isinstance(lk, int) and not isinstance(rk, int):
                    if isinstance(op, ast.Gt):
                        uppers.append(lk)
                    elif isinstance(op, ast.GtE):
                        uppers.append(lk + 1)
    return min(uppers) if uppers else None


def _valid_lower(A, f):
    """inclusive lower bound accepted by hours_valid / minutes_valid"""
    lowers = []
    for r in walk_own(f.node):
        if not (isinstance(r, ast.Return) and r.value is not None):
            continue
        for c in ast.walk(r.value):
            if not isinstance(c, ast.Compare):
                continue
            comps = [c.left] + c.comparators
            for i, op in enumerate(c.ops):
                lk, rk = A.try_fold(comps[i], f), A.try_fold(comps[i + 1], f)
                if isinstance(lk, int) and not isinstance(rk, int):
                    if isinstance(op, ast.LtE):
                        lowers.append(lk)
                    elif isinstance(op, ast.Lt):
                        lowers.append(lk + 1)
                elif isinstance(rk, int) and not isinstance(lk, int):
                    if isinstance(op, ast.GtE):
                        lowers.append(rk)
                    elif isinstance(op, ast.Gt):
                        lowers.append(rk + 1)
    return max(lowers) if lowers else None


def _digit_strings(A, f):
    out = []
    for n in walk_own(f.node):
        if isinstance(n, ast.Compare) and isinstance(n.ops[0], ast.In):
            v = A.try_fold(n.comparators[0], f)
            if isinstance(v, str) and v.isdigit():
                out.append(v)
    return out


@rule('R11.a', ('C11',), 'one domain, three spellings: constants, validators, '
      'expanders and wildcard digits agree on 24 hours / 60 minutes', floor=8,
      decides='every accepted pattern matches at least one time; hour above '
              '23 / minute above 59 are rejected; minute 59 and hour 23 can '
              'be matched')
def r11a(R):
    A = R.A
    tp = A.cls(TIMEPAT, 'TimePattern')
    for field, want, const, valid, init in (
            ('hour', 24, 'HOURS_24', 'hours_valid', '_init_hour_set'),
            ('minute', 60, 'MINUTES_60', 'minutes_valid', '_init_minute_set')):
        cv = A.try_fold(tp.class_attrs.get(const), tp) \
            if const in tp.class_attrs else None
        R.check(tp, '%s = 0..%s' % (const, (max(cv) if cv else '?')),
                cv is not None and set(cv) == set(range(want)),
                '%s must be exactly 0..%d' % (const, want - 1))
        vf = tp.methods[valid]
        up = _valid_upper(A, vf)
        R.check(vf, '%s: 0 <= x < %s' % (valid, up), up == want,
                '%s accepts %ss up to %s: a pattern naming %s %d compiles '
                'and can never match' % (valid, field, (up - 1) if up else '?',
                                         field, want) if (up or 0) > want else
                '%s rejects valid %ss (bound %s, expected %d)'
                % (valid, field, up, want))
        lo = _valid_lower(A, vf)
        R.check(vf, '%s: lower bound %s' % (valid, lo), lo in (0, None),
                '%s rejects %s 0 (lower bound %s): a valid pattern such as '
                '0:30 / 8:00 does not compile' % (valid, field, lo))
        inf = tp.methods[init]
        ups = [_upper_of_range(A, inf, n) for n in walk_own(inf.node)
               if isinstance(n, ast.Call) and norm(n.func) == 'range']
        ups = [u for u in ups if u is not None]
        R.check(inf, '%s: range(0, %s)' % (init, ups[0] if ups else '?'),
                len(ups) == 1 and ups[0] == want,
                '%s expands wildcards over 0..%s only: %s %d is never matched'
                % (init, (ups[0] - 1) if ups else '?', field, want - 1))
        digits = _digit_strings(A, vf)
        tens = ''.join(str(d) for d in sorted(set(x // 10 for x in range(want))))
        R.check(vf, '%s: leading digit in %r' % (valid, digits[0] if digits else '?'),
                digits == [tens],
                'the leading digits accepted before a wildcard must be %r' % tens)


@rule('R11.b', ('C11',), 'an alternative list is not a per-field product',
      floor=1,
      decides='`time at P1 or P2` is matched by P1 or by P2 and by no other '
              'combination of their fields')
def r11b(R):
    A = R.A
    tp = A.cls(TIMEPAT, 'TimePattern')
    match = tp.methods['match']
    union = tp.methods['union']
    # per-field containers that match() tests independently at top level
    fields = []
    for n in walk_own(match.node):
        if isinstance(n, ast.Return) and isinstance(n.value, ast.BoolOp) \
                and isinstance(n.value.op, ast.And):
            for v in n.value.values:
                if isinstance(v, ast.Compare) and isinstance(v.ops[0], ast.In) \
                        and self_attr(v.comparators[0]):
                    fields.append(v.comparators[0].attr)
    merged = []
    for n in walk_own(union.node):
        if isinstance(n, ast.Call) and isinstance(n.func, ast.Attribute) \
                and n.func.attr in ('update', 'union', 'extend', '__ior__') \
                and self_attr(n.func.value):
            merged.append(n.func.value.attr)
        if isinstance(n, ast.AugAssign) and self_attr(n.target):
            merged.append(n.target.attr)
    product = len(fields) >= 2 and all(f in merged for f in fields)
    R.check(union, 'union merges %s; match tests %s' % (
        sorted(set(merged)), fields or 'alternatives'), not product,
        'match() is a conjunction of independent per-field membership tests '
        'and union() merges each field on its own, so `8:00 or 9:30` also '
        'matches 8:30 and 9:00 (the cross product)')
    # match must consult what union extends
    reads = set(a.attr for a in ast.walk(match.node)
                if isinstance(a, ast.Attribute) and self_attr(a))
    R.check(match, 'match reads what union extends (%s)' % sorted(set(merged)),
            bool(set(merged) & reads),
            'union() extends %s but match() never looks at it: alternatives '
            'after the first are ignored' % sorted(set(merged)))


def mutating_methods(A, cls):
    """Methods (other than __init__) that store to / mutate self's state."""
    out = []
    for m in cls.methods.values():
        if m.name == '__init__':
            continue
        for n in walk_own(m.node):
            hit = False
            if isinstance(n, (ast.Assign, ast.AugAssign)):
                targets = n.targets if isinstance(n, ast.Assign) else [n.target]
                for t in targets:
                    base = t.value if isinstance(t, ast.Subscript) else t
                    if self_attr(base):
                        hit = True
            if isinstance(n, ast.Call) and isinstance(n.func, ast.Attribute) \
                    and self_attr(n.func.value) and n.func.attr in (
                        'update', 'extend', 'append', 'add', 'clear', 'remove',
                        'pop', 'discard', 'insert'):
                hit = True
            if hit and m not in out:
                out.append(m)
    return out


@rule('R11.c', ('C11', 'C17'), 'the VM does not mutate pattern objects that '
      'belong to the compiled program', floor=1,
      decides='using a pattern never changes what that or any other pattern '
              'matches later; execution does not alter the compiled program')
def r11c(R):
    A = R.A
    tp = A.cls(TIMEPAT, 'TimePattern')
    muts = set(m.name for m in mutating_methods(A, tp))
    f = A.func(MACHINE, 'Machine._time_pattern')
    aliases = []
    for n in walk_own(f.node):
        if isinstance(n, ast.Assign) and isinstance(n.targets[0], ast.Attribute):
            v = norm(n.value)
            if v.endswith('.param1') or v.endswith('.param0'):
                aliases.append((norm(n.targets[0]), n))
    called = []
    for vmf in A.repo.all_functions('bardolph.vm'):
        for c in A.calls_in(vmf):
            if isinstance(c.func, ast.Attribute) and c.func.attr in muts:
                called.append((vmf, c, norm(c.func.value)))
    bad = [(vmf, c) for vmf, c, recv in called
           if any(recv == a for a, _n in aliases)]
    R.check(f, 'register holds %s; mutators %s called on: %s' % (
        'an alias of the operand' if aliases else 'a private copy',
        sorted(muts), sorted(set(r for _f, _c, r in called))), not bad,
        'the time register aliases the TimePattern stored in the instruction '
        '(or macro table) and %s() then mutates it: after `define t 8:00 time '
        'at t or 9:30` the macro t also matches 9:30, and the compiled '
        'program has changed' % (bad[0][1].func.attr if bad else ''))
    # when INIT stores a copy, the copy must own every container the
    # mutating methods change in place
    mutated_attrs = set()
    for m in mutating_methods(A, tp):
        for n in walk_own(m.node):
            if isinstance(n, ast.Call) and isinstance(n.func, ast.Attribute) \
                    and self_attr(n.func.value):
                mutated_attrs.add(n.func.value.attr)
            if isinstance(n, ast.AugAssign) and self_attr(n.target):
                mutated_attrs.add(n.target.attr)
    for n in walk_own(f.node):
        if isinstance(n, ast.Assign) and norm(n.targets[0]) == 'self._reg.time' \
                and isinstance(n.value, ast.Call):
            cands = list(A.callees(f, n.value))
            if not cands and isinstance(n.value.func, ast.Attribute) and \
                    n.value.func.attr in tp.methods:
                cands = [tp.methods[n.value.func.attr]]
            for callee in cands:
                if callee.cls is not tp:
                    continue
                shared = []
                for st in walk_own(callee.node):
                    if isinstance(st, ast.Assign) and isinstance(st.targets[0], ast.Attribute) \
                            and st.targets[0].attr in mutated_attrs \
                            and not (isinstance(st.targets[0].value, ast.Name)
                                     and st.targets[0].value.id == 'self'):
                        v = st.value
                        fresh = isinstance(v, (ast.List, ast.ListComp, ast.Dict,
                                               ast.Set, ast.SetComp, ast.DictComp)) or (
                            isinstance(v, ast.Call) and norm(v.func) in (
                                'list', 'set', 'dict', 'tuple', 'sorted',
                                'copy.copy', 'copy.deepcopy')) or (
                            isinstance(v, ast.Call) and isinstance(v.func, ast.Attribute)
                            and v.func.attr == 'copy') or (
                            isinstance(v, ast.Subscript) and isinstance(v.slice, ast.Slice))
                        if not fresh:
                            shared.append(norm(st))
                untouched = [a for a in mutated_attrs if not any(
                    isinstance(st, ast.Assign) and isinstance(st.targets[0], ast.Attribute)
                    and st.targets[0].attr == a
                    and not (isinstance(st.targets[0].value, ast.Name)
                             and st.targets[0].value.id == 'self')
                    for st in walk_own(callee.node))]
                R.check(callee, '%s gives the copy its own %s' % (
                    callee.short, ', '.join(sorted(mutated_attrs))), not shared,
                    'the copy shares %s with the original; %s() then changes '
                    'both, i.e. the pattern stored in the program / macro table'
                    % (', '.join(shared), ', '.join(sorted(muts))))
    # the mutation target must be what INIT stored
    stores = [n for n in walk_own(f.node) if isinstance(n, ast.Assign)
              and norm(n.targets[0]) == 'self._reg.time']
    R.check(f, 'INIT stores into the time register', bool(stores),
            'TIME_PATTERN INIT no longer sets the time register')


@rule('R11.e', ('C11', 'C16'), 'lexer and pattern class share one regular '
      'expression', floor=2,
      decides='what the lexer classifies as a time pattern is what the '
              'pattern class parses')
def r11e(R):
    A = R.A
    lex = A.cls(LEX, 'Lex')
    tp = A.cls(TIMEPAT, 'TimePattern')
    spec = A.fold(tp.class_attrs['REGEX_SPEC'], tp)
    token_spec = A.fold(lex.class_attrs['_TOKEN_SPEC'], lex)
    R.check(lex, '_TOKEN_SPEC starts with TimePattern.REGEX_SPEC',
            isinstance(token_spec, str) and token_spec.startswith(spec + '|'),
            'the time-pattern alternative of the token regex is not '
            'TimePattern.REGEX_SPEC (or is no longer tried first)')
    rx = A.try_fold(tp.class_attrs['REGEX'], tp)
    lrx = A.try_fold(lex.class_attrs['_TIME_PATTERN'], lex)
    R.check(lex, '_TIME_PATTERN is TimePattern.REGEX',
            isinstance(rx, Regex) and isinstance(lrx, Regex)
            and rx.pattern == lrx.pattern == spec,
            'the classifier regex differs from the one from_string() uses')
    fs = tp.methods['from_string']
    R.check(fs, 'from_string matches with TimePattern.REGEX',
            any(norm(c.func) == 'TimePattern.REGEX.match' for c in A.calls_in(fs)),
            'from_string no longer parses with TimePattern.REGEX')


@rule('R11.f', ('C11',), 'the wildcard match compares both digit positions',
      floor=1,
      decides='a time matches exactly when hour and two-digit minute agree '
              'with the pattern at every position that is not a wildcard')
def r11f(R):
    A = R.A
    tp = A.cls(TIMEPAT, 'TimePattern')
    nm = tp.methods['_number_match']
    fmt = [A.try_fold(c.func.value, nm) for c in A.calls_in(nm)
           if isinstance(c.func, ast.Attribute) and c.func.attr == 'format']
    positions = set()
    for n in walk_own(nm.node):
        if isinstance(n, ast.Compare) and isinstance(n.ops[0], ast.In) \
                and isinstance(n.left, ast.Subscript):
            idx = A.try_fold(n.left.slice, nm)
            comp = n.comparators[0]
            if isinstance(comp, ast.Tuple) and len(comp.elts) == 2:
                wild = [A.try_fold(e, nm) for e in comp.elts]
                other = [e for e in comp.elts if isinstance(e, ast.Subscript)]
                if '*' in wild and other and \
                        A.try_fold(other[0].slice, nm) == idx:
                    positions.add(idx)
    R.check(nm, 'two-digit format %r, positions %s' % (
        fmt[0] if fmt else None, sorted(positions)),
        fmt == ['{:02d}'] and positions == {0, 1},
        'the number is not formatted to two digits or a digit position is '
        'not compared: patterns match times they do not denote')


CLOCK = 'bardolph.lib.clock'
CLOCK_READS = ('datetime.now', 'datetime.today', 'datetime.utcnow',
               'time.localtime', 'time.gmtime', 'datetime.datetime.now')


def _defs_of(f, name):
    """(statement, target, index-in-tuple or None) for every binding of the
    local `name` in f."""
    out = []
    for n in walk_own(f.node):
        if isinstance(n, ast.Assign):
            for t in n.targets:
                if isinstance(t, ast.Name) and t.id == name:
                    out.append((n, None))
                elif isinstance(t, (ast.Tuple, ast.List)):
                    for i, e in enumerate(t.elts):
                        if isinstance(e, ast.Name) and e.id == name:
                            out.append((n, i))
        elif isinstance(n, (ast.AugAssign, ast.AnnAssign, ast.NamedExpr)) and \
                isinstance(n.target, ast.Name) and n.target.id == name:
            out.append((n, None))
        elif isinstance(n, (ast.For, ast.comprehension)):
            if any(isinstance(x, ast.Name) and x.id == name
                   for x in ast.walk(n.target)):
                out.append((n, 'iter'))
    return out


def _inline(f, e, depth=0):
    """Replace a local that has exactly one plain binding by the bound
    expression (so `h = now.hour` is seen as `now.hour`), but stop at a local
    bound to a call: that local *is* the single reading."""
    while isinstance(e, ast.Name) and depth < 6:
        ds = _defs_of(f, e.id)
        if len(ds) != 1 or ds[0][1] is not None or not isinstance(ds[0][0], ast.Assign):
            break
        v = ds[0][0].value
        if isinstance(v, ast.Call):
            break
        e = v
        depth += 1
    return e


def _same_reading(A, f, a, b, depth=0):
    """Do expressions a and b of function f always derive from one and the
    same reading of the clock?  -> (True, '') | (False, why) | (None, why)"""
    a, b = _inline(f, a), _inline(f, b)
    # fields of one object held in a local
    if isinstance(a, (ast.Attribute, ast.Subscript)) and \
            isinstance(b, (ast.Attribute, ast.Subscript)):
        ba, bb = _inline(f, a.value), _inline(f, b.value)
        if isinstance(ba, ast.Name) and isinstance(bb, ast.Name):
            if ba.id == bb.id:
                return True, ''
            return False, '%s and %s are taken from two objects (%s, %s)' % (
                norm(a), norm(b), ba.id, bb.id)
        if isinstance(ba, ast.Call) or isinstance(bb, ast.Call):
            return False, '%s and %s come from two separate readings of the ' \
                'clock' % (norm(a), norm(b))
        return None, 'cannot relate %s and %s' % (norm(a), norm(b))
    if isinstance(a, ast.Name) and isinstance(b, ast.Name):
        da, db = _defs_of(f, a.id), _defs_of(f, b.id)
        if not da or not db:
            return None, '%s / %s are not locals' % (a.id, b.id)
        if [id(s) for s, _ in da] != [id(s) for s, _ in db]:
            return False, '%s and %s are not assigned by the same statements' \
                % (a.id, b.id)
        for (s, i), (_, j) in zip(da, db):
            if i is None or j is None or i == 'iter' or j == 'iter' \
                    or not isinstance(s, ast.Assign):
                return None, 'cannot relate %s and %s in %s' % (a.id, b.id, norm(s))
            v = s.value
            if isinstance(v, (ast.Tuple, ast.List)):
                r = _same_reading(A, f, v.elts[i], v.elts[j], depth + 1)
            elif isinstance(v, ast.Call):
                r = _call_pair(A, f, v, i, j, depth)
            else:
                r = (None, 'cannot follow %s' % norm(v))
            if r[0] is not True:
                return r
        return True, ''
    return None, 'cannot relate %s and %s' % (norm(a), norm(b))


def _call_pair(A, f, call, i, j, depth):
    """elements i and j of the tuple returned by `call`."""
    if depth > 4:
        return None, 'too deep'
    callees = A.callees(f, call)
    if not callees:
        return None, 'callee of %s unresolved' % norm(call)
    for g in callees:
        rets = [n for n in walk_own(g.node) if isinstance(n, ast.Return)]
        if not rets:
            return None, '%s returns nothing' % g.short
        for r in rets:
            v = _inline(g, r.value) if r.value is not None else None
            if not isinstance(v, (ast.Tuple, ast.List)) or \
                    len(v.elts) <= max(i, j):
                return None, 'cannot follow %s in %s' % (norm(r), g.short)
            res = _same_reading(A, g, v.elts[i], v.elts[j], depth + 1)
            if res[0] is not True:
                return res[0], '%s: %s' % (g.short, res[1])
    return True, ''


@rule('R11.g', ('C11',), 'the hour and the minute compared with a pattern '
      'come from one reading of the clock', floor=1,
      decides='`time at` fires only in a minute the pattern matches: an hour '
              'read at 8:59:59.9 is never combined with a minute read at '
              '9:00:00.0 (which would make `8:00` fire at nine)')
def r11g(R):
    A = R.A
    n = 0
    for f in A.repo.all_functions(CLOCK):
        for c in A.calls_in(f):
            if not any(x.endswith('TimePattern.match') for x in A.callee_names(f, c)) \
                    and not (isinstance(c.func, ast.Attribute) and c.func.attr == 'match'
                             and len(c.args) == 2 and not A.callee_names(f, c)):
                continue
            if len(c.args) != 2:
                continue
            n += 1
            ok, why = _same_reading(A, f, c.args[0], c.args[1])
            if ok is None:
                raise AnalysisError('R11.g: %s in %s: %s' % (norm(c), f.short, why))
            R.check(f, c, ok,
                    'the hour and the minute handed to match() do not come '
                    'from one reading of the clock (%s): around the turn of an '
                    'hour the pair denotes a time that never was, and a '
                    'pattern fires in a minute it does not match' % why,
                    line=c.lineno)
    if n == 0:
        raise AnalysisError('R11.g: no pattern match against the clock found')


@rule('R11.j', ('C11',), 'a pattern is valid only if both fields are; a copy '
      'carries everything match() reads', floor=3,
      decides='patterns that could match no time are rejected at compile '
              'time; using a pattern (a copy is what the VM waits on) never '
              'changes what it matches')
def r11j(R):
    A = R.A
    tp = A.cls(TIMEPAT, 'TimePattern')
    pv = tp.methods['patterns_valid']
    cfg = A.cfg(pv)
    need = {'TimePattern.hours_valid', 'TimePattern.minutes_valid'}
    ok = True
    n_ret = 0
    for r in cfg.return_nodes():
        if A.ret_class(pv, r)[0] == 'fail':
            continue
        n_ret += 1
        have = set()
        for text, truth in A.path_facts(pv, r):
            if truth:
                for x in need:
                    if x.split('.')[1] + '(' in text:
                        have.add(x)
        if isinstance(r.ret_expr, ast.Call):
            have |= set(A.callee_names(pv, r.ret_expr)) & need
        if have != need:
            ok = False
    R.check(pv, 'valid = hours_valid and minutes_valid', ok and n_ret > 0,
            'a pattern is accepted although one of its two fields is invalid '
            '(the validators are not both required): e.g. 24:00 or 8:75 '
            'compiles and can never match')
    # from_string validates before it constructs
    fs = tp.methods['from_string']
    fcfg = A.cfg(fs)
    ctor = [n for n in fcfg.nodes for c in n.calls()
            if norm(c.func) in ('TimePattern', 'cls')]
    val = [n for n in fcfg.nodes if n.kind == 'cond' and any(
        'TimePattern.patterns_valid' in A.callee_names(fs, c) for c in n.calls())]
    ok = bool(ctor and val) and all(
        c.id not in reachable_without_edges(fcfg, fcfg.entry, {(v.id, True) for v in val})
        for c in ctor)
    R.check(fs, 'from_string: constructed only after patterns_valid()', ok,
            'a pattern object is built from fields that were not validated')
    # copy(): every attribute match()/union() read is carried over from self
    read = set()
    for m in (tp.methods['match'], tp.methods['union']):
        for n in walk_own(m.node):
            if isinstance(n, ast.Attribute) and isinstance(n.ctx, ast.Load) \
                    and isinstance(n.value, ast.Name) and n.value.id == 'self':
                if n.attr in tp.instance_attr_names():
                    read.add(n.attr)
    cp = tp.methods['copy']
    carried = set()
    for n in walk_own(cp.node):
        if isinstance(n, ast.Assign) and isinstance(n.targets[0], ast.Attribute) \
                and not self_attr(n.targets[0]) \
                and any(self_attr(x) == n.targets[0].attr for x in ast.walk(n.value)):
            carried.add(n.targets[0].attr)
    R.check(cp, 'copy() carries %s' % sorted(read), bool(read) and read <= carried,
            'copy() does not carry over %s: the copy the VM waits on matches '
            'nothing (or not what the original matches)'
            % sorted(read - carried))


@rule('R11.k', ('C11',), 'every form of a field produces its set of matching '
      'values', floor=2,
      decides='a pattern matches exactly the times it denotes - also the '
              'plain one-digit hour of `8:00`')
def r11k(R):
    A = R.A
    tp = A.cls(TIMEPAT, 'TimePattern')
    for mname, attr in (('_init_hour_set', '_hour_set'),
                        ('_init_minute_set', '_minute_set')):
        m = tp.methods[mname]
        cfg = A.cfg(m)
        cover = []
        for n in cfg.nodes:
            if n.kind == 'stmt' and isinstance(n.ast, ast.Assign) and any(
                    self_attr(t) == attr for t in n.ast.targets):
                v = n.ast.value
                empty = (isinstance(v, ast.Call) and norm(v.func) == 'set'
                         and not v.args) or (isinstance(v, (ast.Set, ast.List))
                                             and not getattr(v, 'elts', [1]))
                if not empty:
                    cover.append(n)
            if n.kind == 'for' and any(
                    isinstance(x, ast.Call) and isinstance(x.func, ast.Attribute)
                    and x.func.attr in ('add', 'update')
                    and self_attr(x.func.value) == attr
                    for x in ast.walk(n.ast)):
                cover.append(n)
        p = cfg.find_path([cfg.entry], lambda n: n is cfg.exit, avoid=cover)
        R.check(m, '%s: every form fills %s' % (mname, attr),
                bool(cover) and p is None,
                '%s can return without putting any value into %s: a field of '
                'that form (e.g. the one-digit hour of 8:00) matches nothing '
                'and the script waits for ever' % (mname, attr),
                path=path_text(p) if p else None)


@rule('R11.l', ('C11', 'C01'), '`time at P1 or P2 ...`: each pattern token is '
      'checked, compiled and consumed; each `or` is consumed', floor=4,
      decides='every well-formed list of alternatives compiles, patterns that '
              'are no time of day are rejected, and nothing is compiled from '
              'a missing pattern')
def r11l(R):
    A = R.A
    from .c01 import _emit_nodes_with
    f = A.func('bardolph.parser.parse', 'Parser._process_time_patterns')
    cfg = A.cfg(f)
    reads = [n for n in cfg.nodes if n.kind == 'stmt' and isinstance(n.ast, ast.Assign)
             and isinstance(n.ast.value, ast.Call)
             and 'Parser._current_time_pattern' in A.callee_names(f, n.ast.value)
             and isinstance(n.ast.targets[0], ast.Name)]
    if not reads:
        raise AnalysisError('_process_time_patterns: pattern reads not found')
    var = reads[0].ast.targets[0].id
    emits = _emit_nodes_with(A, f, 'TIME_PATTERN')
    nexts = [n for n in cfg.nodes for c in n.calls()
             if isinstance(c.func, ast.Attribute) and c.func.attr == 'next_token']
    ors = [n for n in cfg.nodes if n.kind == 'cond' and any(
        getattr(A.try_fold(a, f), 'member', None) == 'OR'
        for c in n.calls() for a in c.args)]
    ok = bool(emits) and all(('%s is None' % var, False) in A.path_facts(f, n)
                             for n in emits)
    R.check(f, 'TIME_PATTERN is emitted only for a pattern that was recognised',
            ok, 'a TIME_PATTERN instruction is compiled on the path where the '
            'token is NOT a valid pattern (and valid ones are rejected): '
            '`time at 12:00` fails, `time at 25:00` compiles to a pattern of '
            'None')
    p = cfg.find_path([m for n in emits for m, _l in n.succs],
                      lambda n: n in ors or n in reads or (
                          n.is_return and A.ret_class(f, n)[0] != 'fail'),
                      avoid=nexts) if emits else []
    R.check(f, 'the pattern token is consumed after it is compiled',
            bool(nexts) and p is None,
            'after a pattern is compiled the token is not consumed: the next '
            'statement (or `or`) is parsed from the pattern itself and a '
            'valid script is rejected', path=path_text(p) if p else None)
    q = None
    if ors:
        starts = [m for n in ors for m, lab in n.succs if lab is True]
        q = cfg.find_path(starts, lambda n: n in reads, avoid=nexts)
    R.check(f, 'each `or` is consumed before the next pattern is read',
            bool(ors) and q is None,
            'the `or` token is not consumed: the next alternative is read from '
            'the word `or` itself and every list of alternatives is rejected',
            path=path_text(q) if q else None)
    # the time statement itself
    t = A.func('bardolph.parser.parse', 'Parser._time')
    tcfg = A.cfg(t)
    tnext = [n for n in tcfg.nodes for c in n.calls()
             if isinstance(c.func, ast.Attribute) and c.func.attr == 'next_token']
    at = [n for n in tcfg.nodes if n.kind == 'cond' and any(
        getattr(A.try_fold(a, t), 'member', None) == 'AT'
        for c in n.calls() for a in c.args)]
    proc = A.calls_nodes(t, 'Parser._process_time_patterns')
    ok = bool(at and proc and tnext) and \
        tcfg.find_path([tcfg.entry], lambda n: n in at, avoid=tnext) is None and \
        tcfg.find_path([m for n in at for m, lab in n.succs if lab is True],
                       lambda n: n in proc, avoid=tnext) is None and \
        all(n.id not in reachable_without_edges(
            tcfg, tcfg.entry, {(a.id, True) for a in at}) for n in proc)
    R.check(t, '`time` is consumed, then `at` is consumed, then the patterns', ok,
            'the words `time` / `at` are not consumed before the patterns are '
            'parsed: every `time at ...` statement is rejected')
