"""C04 - Every repeat form runs the documented number of times with the
documented values."""
import ast

from ..analysis import PROPERTY_TEXT, path_text, self_attr
from ..cfg import in_cycle
from ..const import EnumVal
from ..index import AnalysisError, norm
from ..report import rule
from ..resolve import walk_own

LOOP = 'bardolph.parser.loop_parser'
CODEGEN = 'bardolph.parser.code_gen'
CONTEXT = 'bardolph.parser.context'
PARSE = 'bardolph.parser.parse'
VMMATH = 'bardolph.vm.vm_math'
MACHINE = 'bardolph.vm.machine'
SORTED = 'bardolph.lib.sorted_list'

PROPERTY_TEXT['C04'] = (
    'the loop prologue (count, bounds) is compiled before the back-edge '
    'marker, the test after it, body and post-step between the test and the '
    'back jump (R04.a); break jumps are patched exactly once per loop, after '
    'the exit marker is closed and before END_LOOP, on the innermost loop '
    'context (R04.b); the VM dereferences every register operand it pushes '
    '(R04.c); name-iterating loops restore the evaluation stack on every '
    'exit (R04.d); next/prev step strictly forward/backward and the three '
    'iteration templates pair DISC/DNEXT with the same operand and loop '
    'variable (R04.e); the counted-loop protocol: test COUNTER > 0, post '
    'COUNTER -= 1 and index += INCR (R04.f).',
    'iteration counts and value sequences as such, interpolation values, '
    'population-dependent behaviour.')


def _call_nodes(A, f, short):
    return A.calls_nodes(f, short)


def _assigned_name(node):
    if node.kind == 'stmt' and isinstance(node.ast, ast.Assign) \
            and len(node.ast.targets) == 1 \
            and isinstance(node.ast.targets[0], ast.Name):
        return node.ast.targets[0].id
    return None


@rule('R04.a', ('C04', 'C01'), 'repeat: prologue < back-edge marker < test < '
      'exit marker < body < post-step < back jump', floor=8,
      decides='n is evaluated once; the condition is re-tested before every '
              'pass; the body and the post-step are inside the loop')
def r04a(R):
    A = R.A
    f = A.func(LOOP, 'LoopParser.repeat')
    cfg = A.cfg(f)
    seq = [('LoopParser._pre_loop', 'prologue'),
           ('CodeGen.mark', 'back-edge marker'),
           ('LoopParser._loop_test', 'loop test'),
           ('CodeGen.if_true_start', 'exit marker'),
           ('LoopParser._loop_body', 'loop body'),
           ('LoopParser._loop_post', 'post-step'),
           ('CodeGen.jump_back', 'back jump'),
           ('CodeGen.if_end', 'exit marker patch')]
    nodes = []
    for short, what in seq:
        ns = _call_nodes(A, f, short)
        if not ns:
            R.fail(f, short, 'repeat() no longer calls %s (%s)' % (short, what))
            return
        nodes.append(ns)
    for i in range(len(seq) - 1):
        a, b = nodes[i], nodes[i + 1]
        # every path to b passes a; b never precedes a
        p = cfg.find_path([cfg.entry], lambda n, b=b: n in b, avoid=a)
        after_b = cfg.reachable_from([m for n in b for m, _ in n.succs])
        ok = p is None and not any(x in after_b for x in a)
        R.check(f, '%s before %s' % (seq[i][1], seq[i + 1][1]), ok,
                'in the compiled loop the %s must come before the %s'
                % (seq[i][1], seq[i + 1][1]),
                path=path_text(p) if p else None)
    # the back jump goes to the marker made by mark(); the exit patch closes
    # the marker made by if_true_start()
    mark_var = [_assigned_name(n) for n in nodes[1]]
    exit_var = [_assigned_name(n) for n in nodes[3]]
    for n in nodes[6]:
        c = [c for c in n.calls() if 'CodeGen.jump_back' in A.callee_names(f, c)][0]
        R.check(f, c, c.args and norm(c.args[0]) in mark_var,
                'the back jump does not target the marker placed before the '
                'loop test')
    for n in nodes[7]:
        c = [c for c in n.calls() if 'CodeGen.if_end' in A.callee_names(f, c)][0]
        R.check(f, c, c.args and norm(c.args[0]) in exit_var,
                'the exit patch does not close the marker opened after the '
                'loop test')


@rule('R04.b', ('C04', 'C01', 'C05'), 'break jumps are patched once per loop, '
      'on the innermost loop context, right before END_LOOP', floor=6,
      decides='break ends only the innermost loop and lands on its END_LOOP')
def r04b(R):
    A = R.A
    f = A.func(LOOP, 'LoopParser.repeat')
    cfg = A.cfg(f)
    fix = _call_nodes(A, f, 'Context.fix_break_addrs')
    if_end = _call_nodes(A, f, 'CodeGen.if_end')
    end_loop = A.emit_nodes(f, 'END_LOOP')
    exit_loop = _call_nodes(A, f, 'Context.exit_loop')
    enter = _call_nodes(A, f, 'Context.enter_loop')
    if not (fix and if_end and end_loop and exit_loop and enter):
        R.fail(f, 'fix_break_addrs / END_LOOP / exit_loop', 'repeat() lacks '
               'one of: fix_break_addrs, if_end, END_LOOP emission, exit_loop, '
               'enter_loop')
        return
    p = A.path_skipping(f, enter, fix)
    R.check(f, 'fix_break_addrs on every successful path', p is None,
            'a loop can be compiled without patching its break jumps',
            path=path_text(p) if p else None)
    after_fix = cfg.reachable_from([m for n in fix for m, _ in n.succs])
    R.check(f, 'fix_break_addrs exactly once', not any(n in after_fix for n in fix),
            'break jumps are patched twice (the second patch corrupts the offsets)')
    R.check(f, 'if_end before fix_break_addrs',
            cfg.find_path([cfg.entry], lambda n: n in fix, avoid=if_end) is None,
            'break jumps are patched before the loop exit is closed')
    # between the patch and END_LOOP nothing is emitted: break lands on END_LOOP
    between = cfg.reachable_from([m for n in fix for m, _ in n.succs],
                                 avoid=end_loop)
    emitting = [n for n in between if n not in end_loop
                and any(c in n.calls() for c, _ in A.emission_sites(f))
                or any(A.may_emit(t) for c in n.calls()
                       for t in A.callees(f, c)
                       if t.module.name.startswith('bardolph.parser')
                       and n not in fix)]
    emitting = [n for n in emitting if not n.is_return]
    p2 = A.path_skipping(f, fix, end_loop)
    R.check(f, 'END_LOOP right after fix_break_addrs',
            p2 is None and not emitting,
            'instructions are emitted between the break target and END_LOOP, '
            'or END_LOOP can be skipped: a break does not land on END_LOOP')
    R.check(f, 'exit_loop after fix_break_addrs',
            cfg.find_path([cfg.entry], lambda n: n in exit_loop, avoid=fix) is None,
            'the loop context is popped before its breaks are patched')
    # innermost context
    ctx = A.cls(CONTEXT, 'Context')
    addb = ctx.methods['add_break']
    fixb = ctx.methods['fix_break_addrs']

    def break_list_exprs(m, depth=0):
        """texts of the expressions m takes the break list from (a private
        accessor is followed to what it returns)"""
        out = set()
        for node in walk_own(m.node):
            if isinstance(node, ast.Attribute) and node.attr == 'break_list':
                out.add(norm(node).replace(' ', ''))
        for c in A.calls_in(m):
            for t in A.callees(m, c):
                if t.cls is ctx and t is not m and depth < 2 and \
                        t.name.startswith('_'):
                    out |= break_list_exprs(t, depth + 1)
        return out
    got = [break_list_exprs(m) for m in (addb, fixb)]
    ok = uses_top = all(g == {'self._loop_stack[-1].break_list'} for g in got)
    R.check(ctx, 'add_break / fix_break_addrs use the innermost loop context',
            ok and uses_top,
            'break bookkeeping does not use the top of the loop stack: a break '
            'in a nested loop is attached to the wrong loop')
    # enter/exit are push/pop of the same stack
    eff = {}
    for name in ('enter_loop', 'exit_loop'):
        m = ctx.methods[name]
        for c in A.calls_in(m):
            if isinstance(c.func, ast.Attribute) and \
                    self_attr(c.func.value) == '_loop_stack':
                eff[name] = c.func.attr
    R.check(ctx, 'enter_loop/exit_loop = %s/%s' % (eff.get('enter_loop'),
                                                   eff.get('exit_loop')),
            eff.get('enter_loop') == 'append' and eff.get('exit_loop') == 'pop',
            'loop contexts are not pushed / popped at the same end')
    # the break statement itself
    brk = A.func(PARSE, 'Parser._break')
    bcfg = A.cfg(brk)
    guard = [n for n in bcfg.nodes if n.kind == 'cond'
             and any('Context.in_loop' in A.callee_names(brk, c) for c in n.calls())]
    jump = A.emit_nodes(brk, 'JUMP')
    addn = _call_nodes(brk and A, brk, 'Context.add_break')
    ok = bool(guard and jump and addn)
    if ok:
        ok = bcfg.find_path([bcfg.entry], lambda n: n in jump, avoid=guard) is None
        ok = ok and A.path_skipping(brk, jump, addn) is None
    R.check(brk, 'break: in_loop guard, JUMP, add_break', ok,
            'a break is compiled without the in-loop check, or its jump is '
            'not registered for patching (it would jump by a stale offset)')


@rule('R04.c', ('C04',), 'VmMath.push dereferences every Register operand',
      floor=2,
      decides='generated loop tests compare register *values* (cycle honours '
              'raw units)')
def r04c(R):
    A = R.A
    f = A.func(VMMATH, 'VmMath.push')
    cfg = A.cfg(f)
    found_deref = False
    for n in cfg.nodes:
        if n.kind != 'stmt' or not isinstance(n.ast, ast.Assign):
            continue
        tgt = n.ast.targets[0]
        if not isinstance(tgt, ast.Name):
            continue
        v = n.ast.value
        if isinstance(v, ast.Name) and v.id in f.params:
            # pass-through branch: which guards lead here?
            guards = []
            todo, seen = [p for p, _ in n.preds], set()
            while todo:
                g = todo.pop()
                if g.id in seen:
                    continue
                seen.add(g.id)
                if g.kind == 'cond':
                    guards.append(g)
                    todo.extend(p for p, _ in g.preds if p.kind == 'cond')
            bad = []
            for g in guards:
                if isinstance(g.ast, ast.Compare) and isinstance(g.ast.ops[0], ast.In):
                    vals = A.try_fold(g.ast.comparators[0], f) or ()
                    bad += [x for x in vals if isinstance(x, EnumVal)
                            and x.enum == 'Register']
            R.check(f, 'pass-through branch `%s`' % norm(n.ast), not bad,
                    'a Register member (%s) is pushed as itself instead of its '
                    'value: generated tests such as `UNIT_MODE == RAW` are '
                    'always false, so `cycle` ignores raw units'
                    % ', '.join(map(repr, bad)))
        if isinstance(v, ast.Call) and any(
                x.endswith('.get_by_enum') for x in A.callee_names(f, v)):
            found_deref = True
    R.check(f, 'Register branch reads the register', found_deref,
            'no branch of push() reads a register value')


@rule('R04.d', ('C04', 'C01'), 'name-iterating loops restore the evaluation '
      'stack on every exit (break / return)', floor=1,
      decides='break leaves the enclosing loop\'s remaining iterations intact')
def r04d(R):
    A = R.A
    f = A.func(LOOP, 'LoopParser.repeat')
    # VM-side compensation: LOOP / END_LOOP handlers (or the frame classes)
    # touch the evaluation stack
    vm_side = False
    for name in ('Machine._loop', 'Machine._end_loop'):
        h = A.func(MACHINE, name)
        for t in A.rs.reachable([h]):
            if t.cls is not None and t.cls.name in ('EvalStack', 'VmMath'):
                vm_side = True
    # compiler-side compensation: something popping the names is emitted at
    # or after the break target
    cfg = A.cfg(f)
    fix = _call_nodes(A, f, 'Context.fix_break_addrs')
    comp_side = False
    for n in cfg.reachable_from([m for x in fix for m, _ in x.succs]):
        for c in n.calls():
            for t in A.callees(f, c):
                if t.module.name.startswith('bardolph.parser') and \
                        ('POP' in A.may_emit(t)):
                    comp_side = True
    # does any loop kind park names on the evaluation stack?
    body = A.func(LOOP, 'LoopParser._loop_body')
    parks = 'POP' in [op for _c, ops in A.emission_sites(body) for op, _ in ops]
    if not parks:
        R.ok(f, 'no loop kind parks values on the evaluation stack')
        return
    R.check(f, 'break/return out of a name-iterating loop', vm_side or comp_side,
            'repeat all/group/location/in pushes every name on the evaluation '
            'stack before the loop and pops one per pass; `break` (and '
            '`return`) leave the remaining names there, and neither the '
            'LOOP/END_LOOP handlers nor the compiled code remove them: an '
            'enclosing name loop continues with the wrong light')


@rule('R04.e', ('C04', 'C13'), 'SortedList.next/prev step strictly; iteration '
      'templates pair DISC/DNEXT with one operand and loop variable', floor=5,
      decides='each named light exactly once, in name order; iteration '
              'terminates')
def r04e(R):
    A = R.A
    sl = A.cls(SORTED, 'SortedList')
    want = {'next': ('bisect', 'bisect_right'), 'prev': ('bisect_left',)}
    for name, fns in sorted(want.items()):
        m = sl.methods[name]
        used = [c.func.attr for c in A.calls_in(m)
                if isinstance(c.func, ast.Attribute)
                and norm(c.func.value) == 'bisect']
        R.check(m, 'bisect.%s' % (used[0] if used else '?'),
                len(used) == 1 and used[0] in fns,
                'SortedList.%s must use %s: with the other bisection the step '
                'returns the probe itself (iteration never advances) or skips '
                'an equal neighbour' % (name, ' / '.join(fns)))
        # result is the neighbour at pos (next) / pos-1 (prev), None at the end
        rets = [norm(n.value) for n in walk_own(m.node)
                if isinstance(n, ast.Return) and n.value is not None]
        posv = [norm(n.targets[0]) for n in walk_own(m.node)
                if isinstance(n, ast.Assign) and isinstance(n.value, ast.Call)
                and norm(n.value.func).startswith('bisect.')]
        pos = posv[0] if posv else 'pos'
        ok = False
        for n in walk_own(m.node):
            if not (isinstance(n, ast.Return) and isinstance(n.value, ast.IfExp)):
                continue
            ie = n.value
            test, a, b = ie.test, ie.body, ie.orelse
            if not (isinstance(test, ast.Compare) and len(test.ops) == 1):
                continue
            if isinstance(test.ops[0], ast.NotEq):
                a, b = b, a             # normalise to: <end> if <at end> else <neighbour>
            elif not isinstance(test.ops[0], ast.Eq):
                continue
            at_end = norm(test).replace('!=', '==').replace(' ', '')
            end_is_none = isinstance(a, ast.Constant) and a.value is None
            if name == 'next':
                ok = end_is_none and at_end in ('%s==len(self)' % pos,
                                                'len(self)==%s' % pos) \
                    and norm(b) == 'self[%s]' % pos
            else:
                ok = end_is_none and at_end in ('%s==0' % pos, '0==%s' % pos) \
                    and norm(b).replace(' ', '') == 'self[%s-1]' % pos
        R.check(m, 'returns neighbour or None at the end', ok,
                'SortedList.%s does not return the adjacent element / None at '
                'the end of the list' % name)
    cg = A.cls(CODEGEN, 'CodeGen')
    for name, first, nxt in (('iter_lights', 'DISC', 'DNEXT'),
                             ('iter_sets', 'DISC', 'DNEXT'),
                             ('iter_members', 'DISCM', 'DNEXTM')):
        m = cg.methods[name]
        ops = []
        for call, oo in A.emission_sites(m):
            for op, args in oo:
                ops.append((op, args, call))
        names = [o for o, _a, _c in ops]
        ok = first in names and nxt in names
        # operand moved before DISC and before DNEXT must be the same expr
        moved = [norm(a[0]) for o, a, _c in ops if o == 'MOVEQ' and len(a) > 1
                 and norm(a[1]).endswith('Register.OPERAND')]
        ok = ok and len(moved) == 2 and moved[0] == moved[1]
        # DNEXT steps from the variable the loop head assigned
        assigned = [norm(a[1]) for o, a, _c in ops if o == 'MOVE' and len(a) > 1
                    and norm(a[0]).endswith('Register.RESULT')]
        stepped = [norm(a[-1]) for o, a, _c in ops if o == nxt and a]
        ok = ok and assigned and stepped and stepped[0] == assigned[0]
        if first == 'DISCM':
            a_first = [norm(a[0]) for o, a, _c in ops if o == 'DISCM' and a]
            a_next = [norm(a[0]) for o, a, _c in ops if o == 'DNEXTM' and a]
            ok = ok and a_first == a_next
        R.check(m, '%s ... %s %s' % (first, nxt, stepped[0] if stepped else ''), ok,
                'the iteration template does not step the variable it tests, '
                'or starts and steps over different collections')


@rule('R04.f', ('C04',), 'counted-loop protocol: test COUNTER > 0; post-step '
      'COUNTER -= 1 and index += INCR', floor=3,
      decides='repeat n runs exactly n times; the index advances by the '
              'increment once per pass')
def r04f(R):
    A = R.A
    test = A.func(LOOP, 'LoopParser._loop_test')
    post = A.func(LOOP, 'LoopParser._loop_post')
    ok = False
    for c in A.calls_in(test):
        if 'CodeGen.test_op' in A.callee_names(test, c) and len(c.args) == 3:
            op = A.try_fold(c.args[0], test)
            a = norm(c.args[1])
            b = A.try_fold(c.args[2], test)
            if isinstance(op, EnumVal) and a.endswith('LoopVar.COUNTER'):
                ok = (op.member == 'GT' and b == 0) or (op.member == 'GTE' and b == 1)
            R.check(test, c, ok, 'a counted loop must continue while COUNTER > 0: '
                    'with this test it runs one pass too many or too few')
    dec = inc = False
    for c in A.calls_in(post):
        names = A.callee_names(post, c)
        if 'CodeGen.minus_equals' in names and c.args and \
                norm(c.args[0]).endswith('LoopVar.COUNTER'):
            step = A.try_fold(c.args[1], post) if len(c.args) > 1 else 1
            dec = step == 1
            R.check(post, c, dec, 'the counter must go down by exactly 1 per pass')
        if 'CodeGen.plus_equals' in names and len(c.args) > 1 and \
                norm(c.args[1]).endswith('LoopVar.INCR'):
            inc = True
            R.check(post, c, norm(c.args[0]) == 'self._index_var',
                    'the increment is not added to the loop variable')
    if not dec:
        R.fail(post, 'COUNTER -= 1', 'the post-step no longer decrements the '
               'counter: counted loops never end')
    if not inc:
        R.fail(post, 'index += INCR', 'the post-step no longer advances the '
               'loop variable')


@rule('R04.g', ('C04',), 'the list of names a light-iterating loop walks is '
      'tested for None before it is measured or indexed', floor=2,
      decides='`repeat group/location <name>` over a name that matches no '
              'light is a loop over an empty population: zero passes, and the '
              'enclosing loop goes on')
def r04g(R):
    from .c12 import lookup_checks, VMDISC
    lookup_checks(R, (VMDISC,))


@rule('R04.h', ('C04',), 'the loop variable is given its first value only '
      'after every bound of the range has been evaluated', floor=2,
      decides='`from a to b` uses the values a and b have when the loop is '
              'entered - also when b mentions the loop variable itself '
              '(`repeat with n from 1 to n`)')
def r04h(R):
    A = R.A
    n_sites = 0
    for f in A.repo.all_functions(LOOP):
        cfg = A.cfg(f)
        for call, ops in A.emission_sites(f):
            dests = [args[1] for op, args in ops
                     if op in ('MOVE', 'MOVEQ') and len(args) > 1]
            if not any(self_attr(d) == '_index_var' for d in dests):
                continue
            n_sites += 1
            for n in A.node_of_call(f, call):
                later = [m for m in cfg.nodes for c in m.calls()
                         if isinstance(c.func, ast.Attribute)
                         and c.func.attr in ('rvalue', '_rvalue')]
                p = cfg.find_path([m for m, _l in n.succs],
                                  lambda m: m in later)
                R.check(f, call, p is None,
                        'the loop variable is assigned before a bound of the '
                        'range is evaluated (%s follows): a bound that mentions '
                        'the loop variable sees the start value instead of the '
                        'value the variable had on entry - wrong count, wrong '
                        'spread' % (norm(p[-1].ast)[:50] if p else ''),
                        path=path_text(p) if p else None, line=call.lineno)
    if n_sites < 2:
        raise AnalysisError('R04.h: only %d assignments of the loop variable '
                            'found' % n_sites)
