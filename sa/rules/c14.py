"""C14 - Switching units re-expresses settings without changing what the
lights get.  C15 - Zone and row/column addressing hits exactly the addressed
cells, once each."""
import ast

from ..analysis import PROPERTY_TEXT, path_text, self_attr
from ..cfg import reachable_without_edges
from ..const import EnumVal, FuncRef, Unfoldable
from ..index import AnalysisError, norm
from ..report import rule
from ..resolve import walk_own

MACHINE = 'bardolph.vm.machine'
UNITS = 'bardolph.controller.units'
MATRIX = 'bardolph.controller.color_matrix'
MPARSE = 'bardolph.parser.matrix_parser'
PARSE = 'bardolph.parser.parse'

PROPERTY_TEXT['C14'] = (
    'both conversion tables contain all six ordered mode pairs and map (A, B) '
    'to the function a_to_b, the diagonal to nothing (R14.a); a mode switch '
    'returns before any store when the mode does not change, rewrites time '
    'and duration only when raw is the source or the target - both registers '
    'alike, time_raw toward raw and time_logical away from it - and reads the '
    'colour under the old mode before it stores it under the new one; '
    'get_color and store_color select the same register triple per mode '
    '(R14.b); every conversion function passes kelvin through (R14.c); the '
    'scale factors themselves (R07.c).',
    '"within one raw unit"; chains of transitions.')

PROPERTY_TEXT['C15'] = (
    'every inclusive bound (last zone, bottom row, right column) is widened '
    'by exactly one where it becomes the stop of a half-open range, after the '
    'omitted end was replaced by the start (R15.a); set_matrix is called from '
    'one VM site only and the in-bracket COLOR only overlays (R15.b); the '
    'matrix is converted, then default-filled, then sent; the default colour '
    'is stored raw (R15.c); omitted row / column clauses and omitted range '
    'ends compile to None on both axes and normalise symmetrically (R15.d); '
    'matrix cells are converted with the same function a plain set uses for '
    'that mode (R15.e); capability checks (R12.a).',
    'overlay order, exact cell sets, matrix sizes other than reported by the '
    'device.')

MODES = ('LOGICAL', 'RAW', 'RGB')


def _fn_name(v):
    if isinstance(v, FuncRef):
        return v.name.split('.')[-1]
    return None


@rule('R14.a', ('C14', 'C15'), 'unit conversion tables are total and '
      'well-named', floor=15,
      decides='every mode transition converts with the function for exactly '
              'that pair of modes')
def r14a(R):
    A = R.A
    cf = A.func(UNITS, 'convert_fn')
    table = None
    for t, _n in A.tables_in(cf):
        if all(isinstance(k, EnumVal) and isinstance(v, dict)
               for k, v in t.items()):
            table = t
    if table is None:
        raise AnalysisError('units.convert_fn: nested table not found')
    for a in MODES:
        row = {k.member: v for k, v in table.items()}.get(a)
        for b in MODES:
            got = None if row is None else {k.member: v for k, v in row.items()}.get(b, 'MISSING')
            if a == b:
                R.check(cf, 'convert_fn[%s][%s] = %s' % (a, b, got), got is None,
                        'same-mode conversion must be the identity (None)')
            else:
                want = '%s_to_%s' % (a.lower(), b.lower())
                R.check(cf, 'convert_fn[%s][%s] = %s' % (a, b, _fn_name(got)),
                        _fn_name(got) == want,
                        'conversion %s -> %s uses %s instead of %s'
                        % (a, b, _fn_name(got), want))
    cu = A.func(MACHINE, 'Machine._convert_units_fn')
    triples = None
    for n in walk_own(cu.node):
        if isinstance(n, ast.Tuple) and n.elts and all(
                isinstance(e, ast.Tuple) and len(e.elts) == 3 for e in n.elts):
            triples = [[A.try_fold(x, cu) for x in e.elts] for e in n.elts]
    if triples is None:
        raise AnalysisError('Machine._convert_units_fn: table not found')
    seen = {}
    for a, b, fn in triples:
        if isinstance(a, EnumVal) and isinstance(b, EnumVal):
            seen[(a.member, b.member)] = _fn_name(fn)
    for a in MODES:
        for b in MODES:
            if a == b:
                continue
            want = '%s_to_%s' % (a.lower(), b.lower())
            R.check(cu, '(%s, %s) -> %s' % (a, b, seen.get((a, b))),
                    seen.get((a, b)) == want,
                    'mode switch %s -> %s converts with %s instead of %s'
                    % (a, b, seen.get((a, b)), want))
    # the key built for the lookup is (from, to) in that order
    ret = [n for n in walk_own(cu.node) if isinstance(n, ast.Return)
           and n.value is not None and isinstance(n.value, ast.Subscript)]
    ok = any('key(from_mode, to_mode)' in norm(r.value) for r in ret)
    R.check(cu, 'looked up by (from_mode, to_mode)', ok,
            'the converter is looked up with the modes in the wrong order')


@rule('R14.b', ('C14', 'C01'), 'a mode switch rewrites exactly the documented '
      'settings, in the right order', floor=7,
      decides='time and duration change only when raw is involved; a switch '
              'to the mode in force changes nothing; the colour is re-expressed '
              'from the old mode into the new one')
def r14b(R):
    A = R.A
    sw = A.normalised(A.func(MACHINE, 'Machine._switch_unit_mode'))
    cfg = A.cfg(sw)
    # names: the new mode is the parameter, the old mode the local taken
    # from the unit_mode register
    TO = sw.params[1]
    frm = [norm(n.targets[0]) for n in walk_own(sw.node)
           if isinstance(n, ast.Assign) and norm(n.value) == 'self._reg.unit_mode'
           and isinstance(n.targets[0], ast.Name)]
    if len(frm) != 1:
        raise AnalysisError('_switch_unit_mode: old-mode local not found')
    FROM = frm[0]

    def eqs(a, b):
        return ('%s is %s' % (a, b), '%s is %s' % (b, a),
                '%s == %s' % (a, b), '%s == %s' % (b, a))
    same = [n for n in cfg.nodes if n.kind == 'cond'
            and norm(n.ast) in eqs(FROM, TO)]
    stores = [n for n in cfg.nodes if n.kind == 'stmt' and (
        isinstance(n.ast, ast.Assign) and norm(n.ast.targets[0]).startswith('self._reg.')
        or any('store_color' in norm(c.func) for c in n.calls()))]
    ok = bool(same) and all(
        n.id not in reachable_without_edges(cfg, cfg.entry, {(same[0].id, False)})
        for n in stores)
    R.check(sw, 'equal modes: return before any store', ok,
            'a switch to the mode already in force rewrites registers')
    get = [n for n in cfg.nodes if any(norm(c.func) == 'self._reg.get_color'
                                       for c in n.calls())]
    mode = [n for n in cfg.nodes if n.kind == 'stmt' and isinstance(n.ast, ast.Assign)
            and norm(n.ast.targets[0]) == 'self._reg.unit_mode']
    store = [n for n in cfg.nodes if any(norm(c.func) == 'self._reg.store_color'
                                         for c in n.calls())]
    ok = bool(get and mode and store) and \
        cfg.find_path([cfg.entry], lambda n: n in mode, avoid=get) is None and \
        cfg.find_path([cfg.entry], lambda n: n in store, avoid=mode) is None and \
        norm(mode[0].ast.value) == TO
    R.check(sw, 'get_color() [old mode] < unit_mode = to_mode < store_color()',
            ok, 'the colour is read after the mode changed (wrong register '
            'triple) or stored before it')
    conv = [n for n in cfg.nodes if any(
        'Machine._convert_units_fn' in A.callee_names(sw, c) for c in n.calls())]
    okc = False
    for n in conv:
        for c in n.calls():
            if 'Machine._convert_units_fn' in A.callee_names(sw, c):
                okc = [norm(a) for a in c.args] == [FROM, TO]
    R.check(sw, 'converter chosen for (from_mode, to_mode)', okc,
            'the colour converter is chosen for the wrong pair of modes')
    # time and duration
    want = {True: 'units.time_raw', False: 'units.time_logical'}
    for who, toward_raw in ((TO, True), (FROM, False)):
        test_text = '%s is UnitMode.RAW' % who
        t = [n for n in cfg.nodes if n.kind == 'cond' and norm(n.ast) in
             eqs(who, 'UnitMode.RAW')]
        regs = {}
        if t:
            branch = cfg.reachable_from([m for m, lab in t[0].succs if lab is True],
                                        avoid=[x for x in cfg.nodes if x.kind == 'cond'])
            for n in branch:
                if n.kind == 'stmt' and isinstance(n.ast, ast.Assign) and \
                        isinstance(n.ast.value, ast.Call):
                    tgt = norm(n.ast.targets[0])
                    fn = A.callee_names(sw, n.ast.value)
                    arg = norm(n.ast.value.args[0]) if n.ast.value.args else ''
                    regs[tgt] = (fn[0] if fn else None, arg)
        ok = set(regs) == {'self._reg.duration', 'self._reg.time'} and all(
            fn == want[toward_raw] and arg == tgt for tgt, (fn, arg) in regs.items())
        R.check(sw, '%s: time, duration <- %s' % (test_text, want[toward_raw].split('.')[1]),
                ok, 'when %s the time and duration registers must both be '
                'rewritten with %s (found %s)' % (test_text, want[toward_raw], regs))
    # the time/duration rewrite depends on nothing but the two raw tests
    allowed_conds = eqs(FROM, TO) + eqs(TO, 'UnitMode.RAW') + eqs(FROM, 'UnitMode.RAW')
    tstores = [n for n in cfg.nodes if n.kind == 'stmt' and isinstance(n.ast, ast.Assign)
               and norm(n.ast.targets[0]) in ('self._reg.duration', 'self._reg.time')]
    extra = set()
    for st in tstores:
        for c in cfg.nodes:
            if c.kind != 'cond' or norm(c.ast) in allowed_conds:
                continue
            for lab in (True, False):
                if st.id not in reachable_without_edges(cfg, cfg.entry, {(c.id, lab)}):
                    extra.add(norm(c.ast))
    R.check(sw, 'time/duration rewrite depends only on the raw tests', not extra,
            'the time/duration rewrite is additionally conditioned on %s: some '
            'transition that involves raw units no longer converts them'
            % ', '.join(sorted(extra)))
    # nothing else writes time/duration here
    other = [n for n in cfg.nodes if n.kind == 'stmt' and isinstance(n.ast, ast.Assign)
             and norm(n.ast.targets[0]) in ('self._reg.duration', 'self._reg.time')]
    R.check(sw, 'time/duration written only in the two raw branches',
            len(other) == 4, 'time or duration is rewritten on a transition '
            'that does not involve raw units (%d stores)' % len(other))
    # Registers.get_color / store_color symmetric
    regs = A.cls(MACHINE, 'Registers')
    sel = {}
    for name in ('get_color', 'store_color'):
        m = regs.methods[name]
        mcfg = A.cfg(m)
        t = [n for n in mcfg.nodes if n.kind == 'cond' and 'UnitMode.RGB' in norm(n.ast)]
        if not t:
            continue
        neg = 'is not' in norm(t[0].ast) or '!=' in norm(t[0].ast)
        for lab in (True, False):
            br = mcfg.reachable_from([x for x, l in t[0].succs if l is lab],
                                     avoid=[t[0]])
            names = set()
            for n in br:
                for sub in ast.walk(n.ast) if n.ast is not None and \
                        n.kind in ('stmt', 'return') else []:
                    if isinstance(sub, ast.Attribute) and self_attr(sub) and \
                            sub.attr not in ('unit_mode',):
                        names.add(sub.attr)
            is_rgb = (lab is True) != neg
            sel[(name, is_rgb)] = frozenset(names)
    ok = sel.get(('get_color', True)) == sel.get(('store_color', True)) == \
        frozenset({'red', 'green', 'blue', 'kelvin'}) and \
        sel.get(('get_color', False)) == sel.get(('store_color', False)) == \
        frozenset({'hue', 'saturation', 'brightness', 'kelvin'})
    R.check(regs, 'get_color/store_color: rgb -> red,green,blue; else '
            'hue,saturation,brightness', ok,
            'get_color and store_color do not select the same registers for '
            'the same mode (%s)' % {k: sorted(v) for k, v in sel.items()})
    mq = A.func(MACHINE, 'Machine._moveq')
    mcfg = A.cfg(mq)
    t = [n for n in mcfg.nodes if n.kind == 'cond' and 'Register.UNIT_MODE' in norm(n.ast)]
    ok = False
    if t and isinstance(t[0].ast, ast.Compare):
        is_label = isinstance(t[0].ast.ops[0], (ast.Is, ast.Eq))
        sw = A.calls_nodes(mq, 'Machine._switch_unit_mode')
        starts = [x for x, lab in t[0].succs if lab is is_label]
        ok = bool(sw) and mcfg.find_path(
            starts, lambda n: n in (mcfg.exit, mcfg.raise_exit), avoid=sw) is None
    R.check(mq, 'MOVEQ into UNIT_MODE goes through _switch_unit_mode', ok,
            'a units statement stores the mode without re-expressing the '
            'registers')


@rule('R14.c', ('C14',), 'kelvin passes through every conversion', floor=6,
      decides='kelvin is never altered')
def r14c(R):
    A = R.A
    units = A.repo.module(UNITS)
    for name in ('logical_to_raw', 'raw_to_logical', 'rgb_to_raw',
                 'rgb_to_logical', 'raw_to_rgb', 'logical_to_rgb'):
        f = units.functions.get(name)
        if f is None:
            raise AnalysisError('units.%s vanished' % name)
        p = f.params[0]
        rets = [n.value for n in walk_own(f.node)
                if isinstance(n, ast.Return) and isinstance(n.value, ast.List)]
        ok = bool(rets)
        for r in rets:
            e = r.elts[3] if len(r.elts) == 4 else None
            while isinstance(e, ast.Call) and norm(e.func) in ('max', 'round', 'float') \
                    and e.args:
                e = e.args[0]
            if e is None or norm(e) != '%s[3]' % p:
                ok = False
        R.check(f, '%s: result[3] is %s[3]' % (name, p), ok,
                'the fourth component (kelvin) is not passed through unchanged')


# ===================================================================== C15
@rule('R15.a', ('C15',), 'inclusive bounds are widened exactly once where they '
      'become the stop of a half-open range', floor=5,
      decides='zones a..b inclusive and rows/columns r1..r2 inclusive are '
              'addressed; an omitted end equals the start')
def r15a(R):
    A = R.A
    mz = A.func(MACHINE, 'Machine._color_mz_light')
    cfg = A.cfg(mz)
    sinks = [c for c in A.calls_in(mz) if isinstance(c.func, ast.Attribute)
             and c.func.attr == 'set_zone_colors']
    if len(sinks) != 1:
        raise AnalysisError('_color_mz_light: set_zone_colors call not found')
    c = sinks[0]
    # every acyclic path to the call, locals replaced by what they stand for;
    # tests of `<last zone> is None` split the paths into the two cases
    sink_nodes = A.node_of_call(mz, c)
    cases = {True: set(), False: set(), None: set()}
    starts = set()

    def subst(e, env):
        import copy
        from ..inline import _Subst
        return _Subst(env).visit(copy.deepcopy(e))

    def walk(n, env, last_none, seen):
        if n in sink_nodes:
            starts.add(norm(subst(c.args[0], env)))
            cases[last_none].add(norm(subst(c.args[1], env)).replace(' ', ''))
            return
        if n.id in seen or len(seen) > 60:
            return
        seen = seen | {n.id}
        if n.kind == 'stmt' and isinstance(n.ast, ast.Assign) and \
                len(n.ast.targets) == 1 and isinstance(n.ast.targets[0], ast.Name):
            env = dict(env)
            env[n.ast.targets[0].id] = subst(n.ast.value, env)
        for m, lab in n.succs:
            ln = last_none
            if n.kind == 'cond' and lab in (True, False):
                atom, pol = A.canonical_atom(subst(n.ast, env))
                if atom == 'self._reg.last_zone is None':
                    ln = (lab is True) == pol
                    if last_none is not None and ln != last_none:
                        continue
            walk(m, env, ln, seen)
    walk(cfg.entry, {}, None, frozenset())
    first, last = 'self._reg.first_zone', 'self._reg.last_zone'

    def plus1(t, base):
        return t in (base + '+1', '1+' + base, '(' + base + ')+1')
    ok_start = starts == {first}
    ok_some = all(plus1(t, last) for t in cases[False]) and bool(cases[False]) \
        and not cases[None]
    R.check(mz, c, ok_start and ok_some,
            'set_zone_colors must get (first_zone, last_zone + 1): the '
            'language\'s last zone is inclusive, the device range is half-open '
            '(found start %s, end %s)' % (sorted(starts), sorted(
                cases[False] | cases[None])))
    R.check(mz, 'omitted last zone -> first zone, before the widening',
            bool(cases[True]) and all(plus1(t, first) for t in cases[True]),
            '`zone a` alone must address exactly zone a (found end %s when no '
            'last zone is given)' % sorted(cases[True]))
    cm = A.cls(MATRIX, 'ColorMatrix')
    for name in ('overlay_color', 'overlay_section'):
        m = cm.methods[name]
        mcfg = A.cfg(m)
        norm_nodes = A.calls_nodes(m, 'ColorMatrix._normalize_rect')
        loops = [n for n in mcfg.nodes if n.kind == 'for']
        got = sorted(norm(l.ast.iter).replace(' ', '') for l in loops)
        want = sorted(['range(rect.top,rect.bottom+1)',
                       'range(rect.left,rect.right+1)'])
        ok = got == want and bool(norm_nodes) and \
            mcfg.find_path([mcfg.entry], lambda n: n in loops, avoid=norm_nodes) is None
        R.check(m, '%s: %s after _normalize_rect' % (name, ', '.join(got)), ok,
                'the rectangle\'s bottom/right are inclusive: the loops must '
                'run to bound + 1, after the defaults were filled in')
        lv = {}
        for l in loops:
            lv['row' if 'top' in norm(l.ast.iter) else 'column'] = norm(l.ast.target)
        body = [n for n in mcfg.nodes if n.kind == 'stmt'
                and isinstance(n.ast, ast.Assign)
                and norm(n.ast.targets[0]) == 'self._mat[%s][%s]' % (
                    lv.get('row'), lv.get('column'))]
        R.check(m, 'writes self._mat[row][column]', len(body) == 1,
                'the overlay does not write the addressed cell')


@rule('R15.b', ('C15', 'C01'), 'the matrix is transmitted from one VM site '
      'only; the in-bracket COLOR only overlays', floor=3,
      decides='each set with rows/columns or a begin..end block transmits the '
              'whole matrix exactly once')
def r15b(R):
    A = R.A
    machine = A.cls(MACHINE, 'Machine')
    sites = []
    for m in machine.methods.values():
        for c in A.calls_in(m):
            if isinstance(c.func, ast.Attribute) and c.func.attr == 'set_matrix' \
                    and norm(c.func.value) != 'self':
                sites.append((m, c))
    R.check(machine, 'set_matrix call sites: %s' % [m.short for m, _ in sites],
            len(sites) == 1 and sites[0][0].name == '_color_matrix_light',
            'set_matrix must be called from Machine._color_matrix_light only')
    if sites:
        m, c = sites[0]
        cfg = A.cfg(m)
        from ..cfg import in_cycle
        nodes = A.node_of_call(m, c)
        R.check(m, 'set_matrix not in a loop', not any(in_cycle(cfg, n) for n in nodes),
                'the matrix is transmitted repeatedly for one set')
    cmx = machine.methods['_color_matrix']
    from .c01 import device_sinks
    sinks = device_sinks(A)
    bad = []
    for f in A.rs.reachable([cmx]):
        for c in A.calls_in(f):
            if isinstance(c.func, ast.Attribute) and c.func.attr in sinks \
                    and norm(c.func.value) != 'self' \
                    and f.module.name == MACHINE:
                bad.append((f, c))
    ov = any('ColorMatrix.overlay_color' in A.callee_names(cmx, c) or
             (isinstance(c.func, ast.Attribute) and c.func.attr == 'overlay_color')
             for c in A.calls_in(cmx))
    R.check(cmx, 'Operand.MATRIX: overlay only, no device call', ov and not bad,
            'COLOR inside a matrix bracket talks to the device (or does not '
            'overlay the staged colour)')
    # the dispatch table routes MATRIX -> _color_matrix, MATRIX_LIGHT -> ..light
    col = machine.methods['_color']
    routing = {}
    for n in walk_own(col.node):
        pairs = []
        if isinstance(n, ast.Dict):
            pairs = list(zip(n.keys, n.values))
        elif isinstance(n, ast.Tuple) and len(n.elts) == 2:
            pairs = [(n.elts[0], n.elts[1])]
        for k, v in pairs:
            kv = A.try_fold(k, col) if k is not None else None
            if isinstance(kv, EnumVal) and kv.enum == 'Operand' and self_attr(v):
                routing[kv.member] = v.attr
    R.check(col, 'Operand.MATRIX -> %s; MATRIX_LIGHT -> %s' % (
        routing.get('MATRIX'), routing.get('MATRIX_LIGHT')),
        routing.get('MATRIX') == '_color_matrix' and
        routing.get('MATRIX_LIGHT') == '_color_matrix_light',
        'the colour dispatch table routes the matrix operands wrongly')


@rule('R15.c', ('C15',), 'matrix: convert, then fill the default, then send; '
      'the default colour is stored raw', floor=3,
      decides='every cell not covered by a stage carries the colour last '
              'saved with set default (black if none)')
def r15c(R):
    A = R.A
    f = A.func(MACHINE, 'Machine._color_matrix_light')
    cfg = A.cfg(f)
    conv = A.calls_nodes(f, 'Machine._as_raw_matrix')
    fill = [n for n in cfg.nodes for c in n.calls()
            if isinstance(c.func, ast.Attribute) and c.func.attr == 'find_replace']
    send = [n for n in cfg.nodes for c in n.calls()
            if isinstance(c.func, ast.Attribute) and c.func.attr == 'set_matrix']
    ok = bool(conv and fill and send) and \
        cfg.find_path([cfg.entry], lambda n: n in fill, avoid=conv) is None and \
        cfg.find_path([cfg.entry], lambda n: n in send, avoid=fill) is None
    R.check(f, '_as_raw_matrix < find_replace < set_matrix', ok,
            'unset cells are not replaced by the (raw) default colour after '
            'the conversion and before the matrix is sent')
    okf = False
    for n in fill:
        for c in n.calls():
            if isinstance(c.func, ast.Attribute) and c.func.attr == 'find_replace' \
                    and len(c.args) == 2:
                a0 = A.try_fold(c.args[0], f, 'x')
                a1 = c.args[1]
                black = isinstance(a1, ast.BoolOp) and isinstance(a1.op, ast.Or) \
                    and norm(a1.values[0]) == 'self._reg.default' \
                    and A.try_fold(a1.values[1], f) == [0, 0, 0, 0]
                okf = a0 is None and black
    R.check(f, 'find_replace(None, default or [0, 0, 0, 0])', okf,
            'unset cells (None) must become the saved default, black if none')
    d = A.func(MACHINE, 'Machine._color_default')
    okd = any(isinstance(n, ast.Assign) and norm(n.targets[0]) == 'self._reg.default'
              and isinstance(n.value, ast.Call)
              and 'Machine._as_raw_color' in A.callee_names(d, n.value)
              for n in walk_own(d.node))
    R.check(d, 'default = _as_raw_color(current colour)', okd,
            '`set default` must store the colour in raw units (it is filled in '
            'after the matrix was converted)')


@rule('R15.d', ('C15',), 'omitted row/column clauses and omitted range ends '
      'compile to None on both axes; normalisation is symmetric', floor=5,
      decides='an omitted end equals the start and an omitted row or column '
              'clause means the full extent')
def r15d(R):
    A = R.A
    io = A.func(MPARSE, 'MatrixParser._inline_operand')
    mp = io.cls
    # where an axis is reset to "full extent", both of its bounds are reset
    # together (same statement, or the statements of one straight-line block)
    resets = {}         # (function, cfg node id) -> set of register members
    for m in mp.methods.values():
        mcfg = A.cfg(m)
        for call, ops in A.emission_sites(m):
            for op, args in ops:
                if op == 'MOVEQ' and len(args) == 2 and \
                        A.try_fold(args[0], m, 'x') is None:
                    v = A.try_fold(args[1], m)
                    if isinstance(v, EnumVal) and v.enum == 'Register':
                        for n in A.node_of_call(m, call):
                            resets.setdefault((m, n.id), set()).add(v.member)
    for lo, hi, axis in (('FIRST_ROW', 'LAST_ROW', 'row'),
                         ('FIRST_COLUMN', 'LAST_COLUMN', 'column')):
        sites = [(k, regs) for k, regs in resets.items()
                 if (lo in regs or hi in regs)
                 and k[0].name not in ('get_all', '_range')]
        ok = bool(sites)
        for (m, nid), regs in sites:
            if lo in regs and hi in regs:
                continue
            # the other bound must be reset by the neighbouring statement
            mcfg = A.cfg(m)
            node = mcfg.nodes[nid]
            near = set(regs)
            for nb, _l in list(node.succs) + list(node.preds):
                near |= resets.get((m, nb.id), set())
            if not (lo in near and hi in near):
                ok = False
        R.check(io, 'no %s clause: MOVEQ None -> %s and %s together' % (axis, lo, hi),
                ok, 'an omitted %s clause must clear both bounds (full extent); '
                'here only one of them is reset, so the stage inherits the '
                'other from an earlier stage' % axis)
    # and the reset is reachable exactly when the clause is absent: the
    # inline operand parser (with its helpers) can emit it
    reach = [g for g in A.rs.reachable([io]) if g.cls is mp]
    have = set()
    for (m, _nid), regs in resets.items():
        if m in reach and m.name not in ('get_all', '_range'):
            have |= regs
    R.check(io, 'inline operand resets absent clauses (%s)' % sorted(have),
            {'FIRST_ROW', 'LAST_ROW', 'FIRST_COLUMN', 'LAST_COLUMN'} <= have,
            'the inline operand parser no longer resets the bounds of an '
            'absent row / column clause')
    for modname, fname in ((MPARSE, 'MatrixParser._range'), (PARSE, 'Parser._range')):
        f = A.func(modname, fname)
        fcfg = A.cfg(f)
        em = []
        for call, ops in A.emission_sites(f):
            for op, args in ops:
                if op == 'MOVEQ' and len(args) == 2 and \
                        A.try_fold(args[0], f, 'x') is None and norm(args[1]) == 'last':
                    em += A.node_of_call(f, call)
        second = [n for n in fcfg.nodes for c in n.calls()
                  if c.args and norm(c.args[0]) == 'last'
                  and any(x.endswith('rvalue') or x.endswith('_rvalue')
                          for x in A.callee_names(f, c))]
        first = [n for n in fcfg.nodes for c in n.calls()
                 if c.args and norm(c.args[0]) == 'first'
                 and any(x.endswith('rvalue') or x.endswith('_rvalue')
                         for x in A.callee_names(f, c))]
        # every successful path sets `last` one way or the other
        p = A.path_skipping(f, first, em + second)
        R.check(f, 'first, then last or None', bool(em and second and first) and p is None,
                'a range with an omitted end leaves the previous `last` value '
                'in the register', path=path_text(p) if p else None)
    nr = A.func(MATRIX, 'ColorMatrix._normalize_rect')
    # evaluate the routine for every combination of given / omitted bounds
    param = nr.params[1] if len(nr.params) > 1 else 'rect'
    want = {(True, True): ('0', 'EXT-1'), (True, False): ('HI', 'HI'),
            (False, True): ('LO', 'LO'), (False, False): ('LO', 'HI')}
    ok = True
    detail = []
    for lo_f, hi_f, ext in (('top', 'bottom', 'height'), ('left', 'right', 'width')):
        for (lo_none, hi_none), expect in want.items():
            env = {'%s.%s' % (param, lo_f): None if lo_none else 'LO',
                   '%s.%s' % (param, hi_f): None if hi_none else 'HI'}
            for other in ('top', 'bottom', 'left', 'right'):
                env.setdefault('%s.%s' % (param, other), 'X')
            try:
                _mini_exec(nr.node.body, env, {'self.%s' % ext: 'EXT',
                                               'self._%s' % ext: 'EXT'})
            except Unfoldable as ex:
                raise AnalysisError('_normalize_rect: cannot evaluate (%s)' % ex)
            got = (str(env['%s.%s' % (param, lo_f)]).replace(' ', ''),
                   str(env['%s.%s' % (param, hi_f)]).replace(' ', ''))
            if got != expect:
                ok = False
                detail.append('%s/%s omitted=%s/%s -> %s' % (
                    lo_f, hi_f, lo_none, hi_none, got))
    R.check(nr, 'rows and columns normalised by the same three cases', ok,
            'the two axes are normalised differently, or an omitted bound is '
            'not replaced by the other bound / the full extent')


@rule('R15.e', ('C15', 'C07'), 'matrix cells are converted with the function '
      'a plain set uses for the same mode', floor=3,
      decides='cell colours are converted exactly as a plain set would '
              'convert them')
def r15e(R):
    A = R.A
    rc = A.func(MACHINE, 'Machine._as_raw_color')
    per_mode_fn = {}
    for member, (calls, _n) in per_mode(A, rc).items():
        conv = sorted(c.split('.')[-1] for c in calls if c.startswith('units.'))
        per_mode_fn[member] = conv[0] if len(conv) == 1 else (
            'identity' if not conv else '+'.join(conv))
    want = {'RAW': 'identity', 'RGB': 'rgb_to_raw', 'LOGICAL': 'logical_to_raw'}
    R.check(rc, '_as_raw_color: %s' % per_mode_fn, per_mode_fn == want,
            'a plain set converts the colour with the wrong function for some '
            'unit mode')
    rm = A.func(MACHINE, 'Machine._as_raw_matrix')
    ok = any('units.convert_fn' in A.callee_names(rm, c)
             and [norm(a) for a in c.args] == ['self._reg.unit_mode', 'UnitMode.RAW']
             for c in A.calls_in(rm))
    raw_id = any(n.kind == 'cond' and norm(n.ast) == 'self._reg.unit_mode is UnitMode.RAW'
                 for n in A.cfg(rm).nodes)
    R.check(rm, 'cells: units.convert_fn(unit_mode, RAW); raw passes through',
            ok and raw_id, 'matrix cells are not converted from the current '
            'mode to raw with the shared table')
    every = any(isinstance(n, ast.GeneratorExp) and not n.generators[0].ifs
                and 'get_colors' in norm(n.generators[0].iter) or
                isinstance(n, ast.GeneratorExp) and not n.generators[0].ifs
                for n in walk_own(rm.node))
    R.check(rm, 'every cell converted', every, 'some cells are not converted')
    # the converter must see the staged values, not a sanitised view of them
    cmx = A.cls(MATRIX, 'ColorMatrix')
    std = cmx.methods['_standardize_raw']
    bad = None
    src = None
    for n in walk_own(rm.node):
        if isinstance(n, ast.GeneratorExp):
            it = n.generators[0].iter
            src = norm(it)
            if isinstance(it, ast.Call) and isinstance(it.func, ast.Attribute):
                m = cmx.methods.get(it.func.attr)
                if m is not None and std in A.rs.reachable([m]):
                    bad = it.func.attr
    R.check(rm, 'cells converted from %s' % src, src is not None and bad is None,
            'the cells are clamped and rounded (%s -> _standardize_raw) as if '
            'they were raw *before* the conversion from logical/rgb units: a '
            'staged `brightness 33.3` is sent as 33 percent, a negative hue is '
            'clamped instead of wrapped - not what a plain set transmits' % bad)


class _Return(Exception):
    pass


def _mini_eval(e, env, syms):
    """Tiny symbolic evaluator: values are None, bools, ints, tuples or
    symbol strings."""
    t = norm(e)
    if t in env:
        return env[t]
    if t in syms:
        return syms[t]
    if isinstance(e, ast.Constant):
        return e.value
    if isinstance(e, ast.Tuple):
        return tuple(_mini_eval(x, env, syms) for x in e.elts)
    if isinstance(e, ast.Compare) and len(e.ops) == 1:
        l, r = _mini_eval(e.left, env, syms), _mini_eval(e.comparators[0], env, syms)
        if isinstance(e.ops[0], (ast.Is, ast.Eq)):
            return l is r if (l is None or r is None) else l == r
        if isinstance(e.ops[0], (ast.IsNot, ast.NotEq)):
            return not (l is r if (l is None or r is None) else l == r)
    if isinstance(e, ast.UnaryOp) and isinstance(e.op, ast.Not):
        return not _mini_eval(e.operand, env, syms)
    if isinstance(e, ast.BoolOp):
        vals = [_mini_eval(v, env, syms) for v in e.values]
        return all(vals) if isinstance(e.op, ast.And) else any(vals)
    if isinstance(e, ast.BinOp) and isinstance(e.op, (ast.Sub, ast.Add)):
        l, r = _mini_eval(e.left, env, syms), _mini_eval(e.right, env, syms)
        return '%s%s%s' % (l, '-' if isinstance(e.op, ast.Sub) else '+', r)
    if isinstance(e, ast.IfExp):
        return _mini_eval(e.body if _mini_eval(e.test, env, syms) else e.orelse,
                          env, syms)
    raise Unfoldable(t)


def _mini_match(pat, value):
    if isinstance(pat, ast.MatchSequence):
        return isinstance(value, tuple) and len(value) == len(pat.patterns) \
            and all(_mini_match(p, v) for p, v in zip(pat.patterns, value))
    if isinstance(pat, ast.MatchSingleton):
        return value is pat.value
    if isinstance(pat, ast.MatchValue):
        return value == ast.literal_eval(pat.value)
    if isinstance(pat, ast.MatchAs) and pat.pattern is None:
        return True
    raise Unfoldable('pattern %s' % ast.dump(pat)[:40])


def _mini_exec(stmts, env, syms):
    for s in stmts:
        if isinstance(s, ast.Expr) and isinstance(s.value, ast.Constant):
            continue
        if isinstance(s, ast.Assign):
            v = _mini_eval(s.value, env, syms)
            for t in s.targets:
                if isinstance(t, (ast.Tuple, ast.List)):
                    for tt, vv in zip(t.elts, v):
                        env[norm(tt)] = vv
                else:
                    env[norm(t)] = v
        elif isinstance(s, ast.If):
            _mini_exec(s.body if _mini_eval(s.test, env, syms) else s.orelse,
                       env, syms)
        elif isinstance(s, ast.Match):
            subj = _mini_eval(s.subject, env, syms)
            for case in s.cases:
                if _mini_match(case.pattern, subj) and case.guard is None:
                    _mini_exec(case.body, env, syms)
                    break
        elif isinstance(s, ast.Return):
            return
        elif isinstance(s, ast.Pass):
            continue
        else:
            raise Unfoldable('statement %s' % norm(s)[:40])


# ---------------------------------------------------------------- R15.f
def _roots_and_runners(A):
    parser_funcs = list(A.repo.all_functions('bardolph.parser'))
    # dispatcher: a call site that resolves to (most of) the statement handlers
    best = None
    for f in parser_funcs:
        for s in A.rs.sites(f):
            cs = set(s.callees)
            if len(cs) >= 10 and (best is None or len(cs) > len(best[1])):
                best = (f, cs)
    if best is None:
        raise AnalysisError('R15.f: statement dispatch site not found')
    dispatcher, roots = best
    runners = {dispatcher}
    for s in A.rs.callers(dispatcher):
        runners.add(s.func)
    return roots, frozenset(runners), dispatcher


def _unset_chain(A, f, node, call, roots, opaque, seen, depth=0):
    """A chain of functions [root, ..., f] along which Register.OPERAND is not
    set between the start of the statement and `call` in f, or None."""
    from .c01 import operands_before, TRANSPARENT
    vals = operands_before(A, f, node, call, (), opaque)
    if not any(m == TRANSPARENT for m, _a, _c in vals):
        return None
    if f in roots:
        return [f.short]
    if depth > 8:
        raise AnalysisError('R15.f: call chain above %s too deep' % f.short)
    callers = A.rs.callers(f)
    if not callers:
        return None          # dead code: never part of a statement
    for s in callers:
        if not isinstance(s.node, ast.Call):
            continue
        key = (s.func, id(s.node))
        if key in seen:
            continue
        seen.add(key)
        for n in A.node_of_call(s.func, s.node):
            ch = _unset_chain(A, s.func, n, s.node, roots, opaque, seen, depth + 1)
            if ch:
                return ch + [f.short]
    return None


@rule('R15.f', ('C15', 'C01'), 'the operand register is set inside the same '
      'statement before every COLOR / POWER instruction', floor=4,
      decides='a stage (or set / on / off) acts on what *it* names, whatever '
              'statement ran before it: a stage after `set default` still '
              'colours its rectangle')
def r15f(R):
    from .c01 import operand_flows  # noqa: F401  (same emission sites)
    A = R.A
    roots, opaque, dispatcher = _roots_and_runners(A)
    action = A.func(PARSE, 'Parser._action')
    action_ops = set()
    for s in A.rs.callers(action):
        if isinstance(s.node, ast.Call) and s.node.args:
            v = A.try_fold(s.node.args[0], s.func)
            if isinstance(v, EnumVal) and v.enum == 'OpCode':
                action_ops.add(v.member)
    if not action_ops:
        raise AnalysisError('no constant op-code reaches Parser._action')
    for f in A.repo.all_functions('bardolph.parser'):
        for call, ops in A.emission_sites(f):
            kinds = sorted(set(
                op for op, _a in ops if op in action_ops or op == '<self._op_code>'))
            if not kinds:
                continue
            for n in A.node_of_call(f, call):
                chain = _unset_chain(A, f, n, call, roots, opaque, set())
                R.check(f, call, chain is None,
                        'a %s instruction is emitted on a path along which the '
                        'statement has not set Register.OPERAND (%s): the VM '
                        'dispatches on whatever the previous statement left '
                        'there - e.g. a stage that follows `set default` '
                        'overwrites the default instead of colouring its cells'
                        % ('/'.join(k.strip('<>') for k in kinds),
                           ' -> '.join(chain or [])),
                        path=chain, line=call.lineno)


# ---------------------------------------------------------------- R14.d
def per_mode(A, f, mode_expr='self._reg.unit_mode'):
    """{UnitMode member: (callee names reached, nodes reached)} for f with
    the mode register bound to each member in turn."""
    um = A.cls(UNITS, 'UnitMode')
    out = {}
    for member in um.enum_members():
        nodes = A.nodes_under(f, {mode_expr: EnumVal('UnitMode', member)})
        calls = set()
        for n in nodes:
            for c in n.calls():
                calls |= set(A.callee_names(f, c))
        out[member] = (calls, nodes)
    return out


@rule('R14.d', ('C14', 'C07', 'C01'), 'each unit mode selects its own '
      'converter in the VM: seconds/milliseconds, colour in, colour out',
      floor=10,
      decides='what a set, a get and a delay mean depends on the unit mode in '
              'the documented way: raw time is milliseconds and only raw time; '
              'rgb and logical colours go through their own conversion')
def r14d(R):
    A = R.A
    want = {
        'Machine._as_raw_time': {'LOGICAL': {'units.time_raw'},
                                 'RGB': {'units.time_raw'}, 'RAW': set()},
        'Machine._as_raw_color': {'LOGICAL': {'units.logical_to_raw'},
                                  'RGB': {'units.rgb_to_raw'}, 'RAW': set()},
        'Machine._assure_units': {'LOGICAL': {'units.raw_to_logical'},
                                  'RGB': {'units.raw_to_rgb'}, 'RAW': set()},
    }
    for name, table in sorted(want.items()):
        f = A.func(MACHINE, name)
        got = per_mode(A, f)
        for member, (calls, _nodes) in sorted(got.items()):
            conv = set(c for c in calls if c.startswith('units.')
                       and c != 'units.convert_fn')
            R.check(f, '%s in %s mode -> %s' % (
                name.split('.')[1], member, sorted(conv) or 'unchanged'),
                conv == table.get(member, set()),
                'in %s units %s applies %s where %s is due' % (
                    member.lower(), name.split('.')[1], sorted(conv) or 'nothing',
                    sorted(table.get(member, set())) or 'nothing'))
    # the delay handed to the clock: raw time is milliseconds, the other two
    # modes hold seconds
    w = A.func(MACHINE, 'Machine._wait')
    got = per_mode(A, w)
    for member, (_calls, nodes) in sorted(got.items()):
        div = [n for n in nodes if n.kind == 'stmt' and (
            (isinstance(n.ast, ast.AugAssign) and isinstance(n.ast.op, ast.Div)
             and A.try_fold(n.ast.value, w) == 1000) or
            (isinstance(n.ast, ast.Assign) and isinstance(n.ast.value, ast.BinOp)
             and isinstance(n.ast.value.op, ast.Div)
             and A.try_fold(n.ast.value.right, w) == 1000) or
            (isinstance(n.ast, ast.Assign) and isinstance(n.ast.value, ast.Call)
             and 'units.time_logical' in A.callee_names(w, n.ast.value)))]
        R.check(w, '_wait in %s mode: %s' % (member, 'ms -> s' if div else 'as is'),
                bool(div) == (member == 'RAW'),
                'in %s units the time register holds %s but _wait %s by 1000 '
                'before it pauses: the delay is wrong by a factor of 1000'
                % (member.lower(), 'milliseconds' if member == 'RAW' else 'seconds',
                   'divides' if div else 'does not divide'))


# ---------------------------------------------------------------- R15.g
def _clip_fact_of(n):
    """(field, ('>=' | '<=', bound text)) for a statement
    `<p>.field = max(<p>.field, K)` / `min(<p>.field, K)`, else None."""
    if not (isinstance(n, ast.Assign) and isinstance(n.targets[0], ast.Attribute)
            and isinstance(n.value, ast.Call) and norm(n.value.func) in ('max', 'min')
            and len(n.value.args) == 2):
        return None
    tgt = norm(n.targets[0])
    args = [norm(a) for a in n.value.args]
    if tgt not in args:
        return None
    other = args[1 - args.index(tgt)].replace('self._', 'self.')
    return n.targets[0].attr, ('>=' if norm(n.value.func) == 'max' else '<=',
                               other.replace(' ', ''))


def _clip_facts(A, g):
    """facts established by a clipping helper (all its statements)"""
    facts = {}
    for n in walk_own(g.node):
        got = _clip_fact_of(n)
        if got:
            facts[got[0]] = got[1]
    return facts


@rule('R15.g', ('C15', 'C12', 'C18'), 'rows and columns given by the script are '
      'clipped to the matrix before they index its cells', floor=2,
      decides='a rectangle that reaches beyond the matrix (or a negative '
              'index) colours the cells that exist and nothing else; it does '
              'not stop the script')
def r15g(R):
    A = R.A
    cm = A.cls(MATRIX, 'ColorMatrix')
    want = {'top': ('>=', '0'), 'left': ('>=', '0'),
            'bottom': ('<=', 'self.height-1'), 'right': ('<=', 'self.width-1')}
    n_methods = 0
    for name, m in sorted(cm.methods.items()):
        mcfg = A.cfg(m)
        loops = [n for n in mcfg.nodes if n.kind == 'for'
                 and isinstance(n.ast.iter, ast.Call) and norm(n.ast.iter.func) == 'range'
                 and any(isinstance(x, ast.Attribute) and isinstance(x.value, ast.Name)
                         and x.value.id in m.params and x.attr in want
                         for x in ast.walk(n.ast.iter))]
        indexed = any(isinstance(x, ast.Subscript) and self_attr(x.value) == '_mat'
                      or (isinstance(x, ast.Subscript) and isinstance(x.value, ast.Subscript)
                          and self_attr(x.value.value) == '_mat')
                      for x in walk_own(m.node))
        if not loops or not indexed:
            continue
        n_methods += 1
        # where each of the four bounds is established: a helper call that
        # sets all of them, or the statements themselves (helper expanded)
        per_field = {k: [] for k in want}
        for n in mcfg.nodes:
            for c in n.calls():
                for g in A.callees(m, c):
                    f = _clip_facts(A, g)
                    for k, v in want.items():
                        if f.get(k) == v:
                            per_field[k].append(n)
            if n.kind == 'stmt':
                got = _clip_fact_of(n.ast)
                if got and want.get(got[0]) == got[1]:
                    per_field[got[0]].append(n)
        norm_nodes = A.calls_nodes(m, 'ColorMatrix._normalize_rect')
        ok = True
        for k, nodes in per_field.items():
            if not nodes or mcfg.find_path(
                    [mcfg.entry], lambda n: n in loops, avoid=nodes) is not None:
                ok = False
            if norm_nodes and nodes and mcfg.find_path(
                    [x for n in nodes for x, _l in n.succs],
                    lambda n: n in norm_nodes) is not None:
                ok = False
        R.check(m, '%s: rectangle clipped to 0..height-1 / 0..width-1 before '
                'the cell loops' % name, ok,
                'the rows and columns the script supplied index the cell store '
                'unchecked: a row beyond the height raises IndexError (the '
                'script stops, nothing is sent), a negative one wraps around '
                'and colours the last row')
    if n_methods < 2:
        raise AnalysisError('R15.g: only %d rectangle loops over the cell store '
                            'found' % n_methods)
