"""What each VM handler must do with its instruction (operational clauses of
C01 / C05 / C07 / C11 / C14 that no other rule pins down).

Every rule here evaluates the handler *per case* - per Enum member of the
operand it dispatches on, per truth value of a register - with the
constant-folding walk `Analysis.nodes_under`, or asks by edge dominance; none
reads the shape of an if/elif chain.
"""
import ast

from ..analysis import PROPERTY_TEXT, path_text, self_attr  # noqa: F401
from ..cfg import reachable_without_edges
from ..const import EnumVal, Unfoldable
from ..index import AnalysisError, norm
from ..report import rule
from ..resolve import walk_own

MACHINE = 'bardolph.vm.machine'
CLOCK = 'bardolph.lib.clock'
COLOUR_REGS = {True: ['blue', 'green', 'kelvin', 'red'],
               False: ['brightness', 'hue', 'kelvin', 'saturation']}


def _reg_stores(nodes):
    """names of the register attributes stored by the given CFG nodes"""
    out = set()
    for n in nodes:
        if n.kind != 'stmt' or not isinstance(n.ast, (ast.Assign, ast.AugAssign)):
            continue
        targets = n.ast.targets if isinstance(n.ast, ast.Assign) else [n.ast.target]
        for t in targets:
            for x in ast.walk(t):
                if isinstance(x, ast.Attribute) and isinstance(x.ctx, ast.Store):
                    out.add(x.attr)
    return out


@rule('R01.h', ('C01', 'C11'), 'WAIT pauses for the time register: a pattern '
      'waits for the time of day, a positive number for that long', floor=3,
      decides='the delay requested before each command is the one the time '
              'register holds at that moment')
def r01h(R):
    A = R.A
    w = A.func(MACHINE, 'Machine._wait')
    cfg = A.cfg(w)
    until = A.calls_nodes(w, 'Clock.wait_until')
    pause = A.calls_nodes(w, 'Clock.pause_for')
    is_pat = [n for n in cfg.nodes if n.kind == 'cond' and isinstance(n.ast, ast.Call)
              and norm(n.ast.func) == 'isinstance' and len(n.ast.args) == 2
              and norm(n.ast.args[1]).endswith('TimePattern')]
    ok = bool(until and is_pat)
    p = None
    if ok:
        starts = [m for n in is_pat for m, lab in n.succs if lab is True]
        p = cfg.find_path(starts, lambda n: n in (cfg.exit, cfg.raise_exit),
                          avoid=until)
        # and only patterns go there
        only = all(u.id not in reachable_without_edges(
            cfg, cfg.entry, {(n.id, True) for n in is_pat}) for u in until)
        ok = p is None and only
    R.check(w, 'time is a pattern -> clock.wait_until(time)', ok,
            'a `time at` wait does not reach Clock.wait_until (or a number '
            'does): the script does not wait for the time of day',
            path=path_text(p) if p else None)
    # the numeric branch: pause exactly when time > 0
    pos = []
    for n in cfg.nodes:
        if n.kind == 'cond' and isinstance(n.ast, ast.Compare) and len(n.ast.ops) == 1:
            l, r = n.ast.left, n.ast.comparators[0]
            lk, rk = A.try_fold(l, w), A.try_fold(r, w)
            op = n.ast.ops[0]
            # (time >= 0 is as good: pausing for nothing is no pause)
            if rk == 0 and not isinstance(lk, (int, float)) \
                    and isinstance(op, (ast.Gt, ast.GtE)):
                pos.append((n, True))
            elif lk == 0 and not isinstance(rk, (int, float)) \
                    and isinstance(op, (ast.Lt, ast.LtE)):
                pos.append((n, True))
            elif rk == 0 and not isinstance(lk, (int, float)) \
                    and isinstance(op, (ast.LtE, ast.Lt)):
                pos.append((n, False))
    ok = bool(pause) and len(pos) == 1
    q = None
    if ok:
        n, lab = pos[0]
        starts = [m for m, lb in n.succs if lb is lab]
        q = cfg.find_path(starts, lambda x: x in (cfg.exit, cfg.raise_exit),
                          avoid=pause)
        guarded = all(u.id not in reachable_without_edges(
            cfg, cfg.entry, {(n.id, lab)}) for u in pause)
        ok = q is None and guarded
    R.check(w, 'time > 0 -> clock.pause_for(time)', ok,
            'a positive delay does not reach Clock.pause_for, or the test is '
            'not `time > 0` (a delay between 0 and the constant is dropped)',
            path=path_text(q) if q else None)
    # the value handed over is the time register (possibly rescaled)
    args_ok = all(
        any(isinstance(x, ast.Name) for x in ast.walk(c.args[0]))
        for n in until + pause for c in n.calls()
        if isinstance(c.func, ast.Attribute)
        and c.func.attr in ('wait_until', 'pause_for') and c.args)
    R.check(w, 'the clock is given the time register', args_ok,
            'the clock is not handed the value of the time register')


@rule('R11.h', ('C11',), 'TIME_PATTERN: INIT stores a pattern in the time '
      'register, UNION merges into it', floor=2,
      decides='`time at P1 or P2 ...` waits for the first minute matched by '
              'at least one of the listed patterns')
def r11h(R):
    A = R.A
    tp = A.func(MACHINE, 'Machine._time_pattern')
    so = A.cls('bardolph.vm.vm_codes', 'SetOp')
    # the operand that selects the operation: compared with a SetOp member
    sel = None
    for n in A.cfg(tp).nodes:
        if n.kind == 'cond' and isinstance(n.ast, ast.Compare):
            v = A.try_fold(n.ast.comparators[0], tp)
            if isinstance(v, EnumVal) and v.enum == 'SetOp':
                sel = norm(n.ast.left)
            v = A.try_fold(n.ast.left, tp)
            if isinstance(v, EnumVal) and v.enum == 'SetOp':
                sel = norm(n.ast.comparators[0])
    if sel is None:
        raise AnalysisError('Machine._time_pattern: SetOp selector not found')
    for member in so.enum_members():
        nodes = A.nodes_under(tp, {sel: EnumVal('SetOp', member)})
        stores = 'time' in _reg_stores(nodes)
        unions = any(isinstance(c.func, ast.Attribute) and c.func.attr == 'union'
                     and norm(c.func.value).endswith('.time')
                     for n in nodes for c in n.calls())
        if member == 'INIT':
            ok, want = stores and not unions, 'store a pattern in the time register'
        else:
            ok, want = unions and not stores, 'merge into the time register'
        R.check(tp, 'SetOp.%s: %s' % (member, 'store' if stores else
                                      'union' if unions else 'nothing'), ok,
                'TIME_PATTERN %s must %s: otherwise the alternatives of '
                '`time at ... or ...` are lost or replace each other' % (member, want))


@rule('R01.i', ('C01', 'C14'), 'GET_COLOR loads the light\'s colour into the '
      'colour registers of the current unit mode', floor=4,
      decides='a get statement takes effect: the registers hold what the '
              'light reports, in the script\'s units')
def r01i(R):
    A = R.A
    g = A.func(MACHINE, 'Machine._get_color')
    cfg = A.cfg(g)
    reads = [n for n in cfg.nodes for c in n.calls()
             if isinstance(c.func, ast.Attribute) and c.func.attr == 'get_color'
             and not norm(c.func.value).startswith('self._reg')]
    sinks = [n for n in cfg.nodes for c in n.calls()
             if any(x in ('Machine._color_to_reg', 'Registers.store_color')
                    for x in A.callee_names(g, c))]
    sinks += [n for n in cfg.nodes if len(_reg_stores([n]) & {
        'hue', 'saturation', 'brightness', 'red', 'green', 'blue'}) >= 3]
    ok = bool(reads and sinks)
    p = None
    if ok:
        p = cfg.find_path([m for n in reads for m, _l in n.succs],
                          lambda n: n is cfg.exit, avoid=sinks)
        ok = p is None
    R.check(g, 'light.get_color() -> registers', ok,
            'the colour read from the light is not stored in the registers: '
            '`get` has no effect', path=path_text(p) if p else None)
    conv = [n for n in cfg.nodes for c in n.calls()
            if 'Machine._assure_units' in A.callee_names(g, c)]
    q = cfg.find_path([cfg.entry], lambda n: n in sinks, avoid=conv) if sinks else []
    R.check(g, 'converted with _assure_units before it is stored',
            bool(conv) and q is None,
            'the raw colour reported by the light reaches the registers '
            'without being converted to the unit mode of the script')
    # the register file is written per mode
    for fname in ('Machine._color_to_reg', 'Registers.store_color'):
        try:
            f = A.func(MACHINE, fname)
        except AnalysisError:
            continue
        um = A.cls('bardolph.controller.units', 'UnitMode')
        sels = set()
        for n in A.cfg(f).nodes:
            if n.kind == 'cond' and isinstance(n.ast, ast.Compare):
                for side, other in ((n.ast.left, n.ast.comparators[0]),
                                    (n.ast.comparators[0], n.ast.left)):
                    v = A.try_fold(other, f)
                    if isinstance(v, EnumVal) and v.enum == 'UnitMode':
                        sels.add(norm(side))
        if len(sels) != 1:
            raise AnalysisError('%s: unit-mode selector not found' % fname)
        sel = sels.pop()
        for member in um.enum_members():
            nodes = A.nodes_under(f, {sel: EnumVal('UnitMode', member)})
            got = sorted(_reg_stores(nodes) & set(
                COLOUR_REGS[True] + COLOUR_REGS[False]))
            R.check(f, '%s in %s mode -> %s' % (fname.split('.')[1], member, got),
                    got == COLOUR_REGS[member == 'RGB'],
                    'in %s units a colour must be stored in %s, not %s'
                    % (member.lower(), COLOUR_REGS[member == 'RGB'], got))


@rule('R07.d', ('C07', 'C01'), 'the power level sent is 65535 for on and 0 for '
      'off', floor=3,
      decides='on / off reach the device as full power and no power')
def r07d(R):
    A = R.A
    n_ok = 0
    for fname, expr in (('Registers.get_power', 'self.power'),
                        ('Machine._power_param', 'self._reg.power')):
        f = A.func(MACHINE, fname)
        if f not in A.live_functions():
            R.ok(f, '%s: not called from anywhere (dead code), not checked' % fname)
            continue
        for truth, want in ((True, 65535), (False, 0)):
            try:
                got = A.peval(f, {expr: truth})
            except Unfoldable as ex:
                raise AnalysisError('%s: cannot evaluate (%s)' % (fname, ex))
            n_ok += 1
            R.check(f, '%s with power %s -> %s' % (fname.split('.')[1], truth, got),
                    got == want,
                    'power %s must be sent as %d, not %r: the device treats '
                    'any non-zero level as on' % (
                        'on' if truth else 'off', want, got))


@rule('R05.h', ('C05', 'C06'), 'the run loop fetches only inside the program',
      floor=1,
      decides='control never runs past the last instruction: a script that '
              'reaches its end stops there')
def r05h(R):
    A = R.A
    run = A.func(MACHINE, 'Machine.run')
    cfg = A.cfg(run)
    fetch = [n for n in cfg.nodes if any(
        isinstance(x, ast.Subscript) and self_attr(x.value) == '_program'
        for e in n.exprs() for x in ast.walk(e))]
    if not fetch:
        raise AnalysisError('Machine.run: instruction fetch not found')
    # locals bound to len(self._program)
    lens = set(['len(self._program)'])
    for n in walk_own(run.node):
        if isinstance(n, ast.Assign) and norm(n.value) == 'len(self._program)':
            lens |= set(norm(t) for t in n.targets)
    guards = []
    for n in cfg.nodes:
        if n.kind == 'cond' and isinstance(n.ast, ast.Compare) and len(n.ast.ops) == 1:
            l, r, op = norm(n.ast.left), norm(n.ast.comparators[0]), n.ast.ops[0]
            if l.endswith('.pc') and r in lens and isinstance(op, ast.Lt):
                guards.append((n, True))
            elif r.endswith('.pc') and l in lens and isinstance(op, ast.Gt):
                guards.append((n, True))
            elif l.endswith('.pc') and r in lens and isinstance(op, ast.GtE):
                guards.append((n, False))
    ok = bool(guards) and all(
        f.id not in reachable_without_edges(cfg, cfg.entry, {(g.id, lab) for g, lab in guards})
        for f in fetch)
    R.check(run, 'fetch self._program[pc] only while pc < len(program)', ok,
            'the instruction fetch is not guarded by pc < len(program) '
            '(strictly): after the last instruction the loop indexes past the '
            'end and every run ends in an internal fault')


@rule('R01.j', ('C01',), 'the clock measures delays from its start time and '
      'accumulates them in the cue time', floor=4,
      decides='a delay of t seconds lets t seconds pass before the next '
              'command, measured from the previous cue')
def r01j(R):
    A = R.A
    ck = A.cls(CLOCK, 'Clock')
    time_src = ('time.time', 'now', 'clock.now', 'time.monotonic')

    def is_now(e):
        return isinstance(e, ast.Call) and (
            norm(e.func) in time_src or any(
                x.split('.')[-1] in ('now', 'time') for x in A.callee_names(et, e)))
    # elapsed time = now - start
    et = ck.methods['et']
    rets = [n for n in walk_own(et.node) if isinstance(n, ast.Return) and n.value is not None]
    ok = len(rets) == 1 and isinstance(rets[0].value, ast.BinOp) \
        and isinstance(rets[0].value.op, ast.Sub) and is_now(rets[0].value.left) \
        and self_attr(rets[0].value.right) == '_start_time'
    R.check(et, 'et() = now - start time', ok,
            'the elapsed time is not "now minus the start time": every delay '
            'is measured wrongly')
    # reset: cue back to zero, start = now
    rs = ck.methods['reset']
    cue0 = start_now = False
    for n in walk_own(rs.node):
        if isinstance(n, ast.Assign):
            for t in n.targets:
                if self_attr(t) == '_cue_time' and A.try_fold(n.value, rs) == 0:
                    cue0 = True
                if self_attr(t) == '_start_time' and isinstance(n.value, ast.Call) \
                        and (norm(n.value.func) in time_src or any(
                            x.split('.')[-1] in ('now', 'time')
                            for x in A.callee_names(rs, n.value))):
                    start_now = True
    R.check(rs, 'reset(): cue time = 0', cue0,
            'reset() does not put the cue time back to zero: after a time-of-'
            'day wait (or at the start of a run) the first delay is too long')
    R.check(rs, 'reset(): start time = now', start_now,
            'reset() does not re-base the start time: elapsed time keeps '
            'counting from the previous run, delays return at once')
    # pause_for: cue += delay, then wait while elapsed < cue
    pf = ck.methods['pause_for']
    cfg = A.cfg(pf)
    delay = pf.params[1]
    adds = [n for n in cfg.nodes if n.kind == 'stmt' and (
        (isinstance(n.ast, ast.AugAssign) and isinstance(n.ast.op, ast.Add)
         and self_attr(n.ast.target) == '_cue_time' and norm(n.ast.value) == delay)
        or (isinstance(n.ast, ast.Assign) and self_attr(n.ast.targets[0]) == '_cue_time'
            and isinstance(n.ast.value, ast.BinOp) and isinstance(n.ast.value.op, ast.Add)
            and sorted((norm(n.ast.value.left), norm(n.ast.value.right)))
            == sorted(('self._cue_time', delay))))]
    tests = []
    for n in cfg.nodes:
        if n.kind == 'cond' and isinstance(n.ast, ast.Compare) and len(n.ast.ops) == 1:
            l, r, op = n.ast.left, n.ast.comparators[0], n.ast.ops[0]
            l_et = isinstance(l, ast.Call) and 'Clock.et' in A.callee_names(pf, l)
            r_et = isinstance(r, ast.Call) and 'Clock.et' in A.callee_names(pf, r)
            if l_et and self_attr(r) == '_cue_time' and isinstance(op, (ast.Lt, ast.LtE)):
                tests.append((n, True))      # true edge = keep waiting
            elif r_et and self_attr(l) == '_cue_time' and isinstance(op, (ast.Gt, ast.GtE)):
                tests.append((n, True))
            elif l_et and self_attr(r) == '_cue_time' and isinstance(op, (ast.Gt, ast.GtE)):
                tests.append((n, False))
            elif r_et and self_attr(l) == '_cue_time' and isinstance(op, (ast.Lt, ast.LtE)):
                tests.append((n, False))
    waits = A.calls_nodes(pf, 'Clock.wait')
    ok = len(adds) == 1 and len(tests) == 1 and bool(waits)
    if ok:
        t, keep = tests[0]
        # the cue is advanced before the first comparison
        ok = cfg.find_path([cfg.entry], lambda n: n is t, avoid=adds) is None
        # waiting happens on the "elapsed < cue" edge only
        ok = ok and all(w.id not in reachable_without_edges(
            cfg, cfg.entry, {(t.id, keep)}) for w in waits)
    R.check(pf, 'pause_for: cue += delay; wait while et() < cue', ok,
            'pause_for does not advance the cue time by the delay and then '
            'wait while the elapsed time is below it: delays are skipped or '
            'never end')


# ------------------------------------------------- argument order (generic)
def _swapped_args(A, modules):
    """[(func, call, text)]: a positional argument that is a plain name equal
    to the name of ANOTHER parameter of the (uniquely resolved) callee, while
    that other parameter's position holds a name that is a parameter too: the
    two were exchanged."""
    out, n_calls = [], 0
    live = A.live_functions()
    for mod in modules:
        for f in A.repo.all_functions(mod):
            if f not in live:
                continue            # dead code breaks nothing
            for c in A.calls_in(f):
                if c.keywords or any(isinstance(a, ast.Starred) for a in c.args):
                    continue
                callees = A.callees(f, c)
                if len(callees) != 1:
                    continue
                g = callees[0]
                params = list(g.params)
                if g.cls is not None and not g.is_static and params:
                    params = params[1:]
                if g.name == '__init__' and params and params[0] == 'self':
                    params = params[1:]
                if len(params) < 2 or len(c.args) > len(params):
                    continue
                n_calls += 1
                names = [a.id if isinstance(a, ast.Name) else None for a in c.args]
                for i, nm in enumerate(names):
                    if nm is None or nm == params[i] or nm not in params:
                        continue
                    j = params.index(nm)
                    if j < len(names) and names[j] == params[i]:
                        out.append((f, c, '%s(%s): `%s` and `%s` are exchanged '
                                    '(parameters are %s)' % (
                                        g.short, ', '.join(x or '...' for x in names),
                                        nm, params[i], ', '.join(params))))
                        break
    return out, n_calls


def _swap_rule(rid, props, modules, what, floor):
    @rule(rid, props, 'arguments are passed in the order of the parameters '
          'they are named after (%s)' % what, floor=1,
          decides='values reach the parameter they are meant for')
    def _r(R):
        A = R.A
        bad, n = _swapped_args(A, modules)
        if n < floor:
            raise AnalysisError('%s: only %d resolved calls examined' % (rid, n))
        anchor = next(iter(A.repo.all_functions(modules[0])))
        R.ok(anchor, 'resolved calls with >= 2 parameters examined: %d' % n)
        for f, c, text in bad:
            R.fail(f, c, 'the arguments of this call are in the wrong order: '
                   + text, line=c.lineno)
    return _r


_swap_rule('R06.k', ('C06', 'C04'), ('bardolph.parser',), 'compiler', 60)
_swap_rule('R11.i', ('C11',), ('bardolph.lib.time_pattern',), 'time patterns', 1)
_swap_rule('R01.k', ('C01', 'C12'), ('bardolph.vm', 'bardolph.controller'),
           'VM and controller', 40)
_swap_rule('R20.g', ('C20', 'C08'), ('web', 'bardolph.lib.job_control'),
           'web tier and job control', 10)


SCRIPTJOB = 'bardolph.controller.script_job'
WEBAPP = 'web.web_app'
FRONT = 'web.front_end'
VMIO = 'bardolph.vm.vm_io'
VMDISC = 'bardolph.vm.vm_discover'
LOOP = 'bardolph.parser.loop_parser'


@rule('R20.h', ('C20', 'C06'), 'a script that compiles is the script that runs: '
      'the loaders keep the compiled program', floor=4,
      decides='a request for path p starts the script the manifest lists for '
              'p (the job built from a file holds that file\'s program)')
def r20h(R):
    A = R.A
    for lname, parse_name in (('ScriptJob.load_file', 'Parser.parse_file'),
                              ('ScriptJob.load_string', 'Parser.parse')):
        f = A.func(SCRIPTJOB, lname)
        cfg = A.cfg(f)
        tests = [n for n in cfg.nodes if n.kind == 'cond' and any(
            parse_name in A.callee_names(f, c) for c in n.calls())]
        stores = [n for n in cfg.nodes if n.kind == 'stmt'
                  and isinstance(n.ast, ast.Assign)
                  and any(self_attr(t) == '_program' for t in n.ast.targets)
                  and isinstance(n.ast.value, ast.Call)
                  and 'Parser.get_program' in A.callee_names(f, n.ast.value)]
        ok = bool(tests and stores)
        p = None
        if ok:
            starts = [m for t in tests for m, lab in t.succs if lab is True]
            p = cfg.find_path(starts, lambda n: n is cfg.exit, avoid=stores)
            ok = p is None
        R.check(f, '%s: parsed -> self._program = parser.get_program()' % lname,
                ok, '%s can succeed in compiling and not keep the program: the '
                'job runs nothing (or what it held before)' % lname,
                path=path_text(p) if p else None)
    for cname, lname in (('ScriptJob.from_file', 'ScriptJob.load_file'),
                         ('ScriptJob.from_string', 'ScriptJob.load_string')):
        f = A.func(SCRIPTJOB, cname)
        cfg = A.cfg(f)
        loads = A.calls_nodes(f, lname)
        p = cfg.find_path([cfg.entry], lambda n: n is cfg.exit, avoid=loads) \
            if loads else []
        R.check(f, '%s -> %s' % (cname, lname), bool(loads) and p is None,
                '%s returns a job that was never given its script' % cname)


@rule('R20.i', ('C20', 'C09'), 'every route performs its action on the '
      'application object', floor=6,
      decides='stop, stop-current, stop-all, off, capture and a script\'s own '
              'path do what they say')
def r20i(R):
    A = R.A
    routes = (('FrontEnd.stop_script', 'WebApp.stop_script', True),
              ('FrontEnd.stop_current', 'WebApp.stop_current', False),
              ('FrontEnd.stop_all', 'WebApp.stop_all', False),
              ('FrontEnd.off', 'WebApp.stop_current', False),
              ('FrontEnd.capture', 'WebApp.snapshot', False),
              ('FrontEnd.run_script', 'WebApp.queue_script', True))
    for hname, action, conditional in routes:
        h = A.func(FRONT, hname)
        cfg = A.cfg(h)
        acts = A.calls_nodes(h, action)
        ok = bool(acts)
        p = None
        if ok and not conditional:
            p = cfg.find_path([cfg.entry], lambda n: n is cfg.exit, avoid=acts)
            ok = p is None
        if ok and conditional:
            # on the paths that render the action page the action was taken
            # (or the script was found running already)
            render = A.calls_nodes(h, 'FrontEnd.render_action')
            running = [n for n in cfg.nodes if n.kind == 'cond'
                       and norm(n.ast).endswith('.running')]
            skip = [] if hname.endswith('stop_script') else \
                [m for n in running for m, lab in n.succs if lab is True]
            p = cfg.find_path([cfg.entry], lambda n: n in render,
                              avoid=acts + [n for n in skip if n not in render])
            if hname.endswith('stop_script'):
                ok = p is None
            else:
                # run_script: rendered "Started" only if running or queued
                q = cfg.find_path([cfg.entry], lambda n: n in render,
                                  avoid=acts + running)
                ok = q is None
        R.check(h, '%s -> %s' % (hname, action), ok,
                'the route answers as if the action had been taken although '
                '%s was not called' % action, path=path_text(p) if p else None)


@rule('R20.j', ('C20',), 'the application knows every manifest entry and '
      'reports for each whether it is running', floor=3,
      decides='a script reported as running is not started a second time; '
              'only manifest-listed files can be started')
def r20j(R):
    A = R.A
    wa = A.cls(WEBAPP, 'WebApp')
    init = wa.methods['__init__']
    cfg = A.cfg(init)
    loads = A.calls_nodes(init, 'WebApp._load_manifest')
    p = cfg.find_path([cfg.entry], lambda n: n is cfg.exit, avoid=loads) if loads else []
    R.check(init, 'WebApp.__init__ loads the manifest', bool(loads) and p is None,
            'the application is built without its manifest: no script can be '
            'started')
    for mname in ('get_script_control', 'get_script_list'):
        m = wa.methods[mname]
        mcfg = A.cfg(m)
        def sets_running(g, gcfg):
            return [n for n in gcfg.nodes if n.kind == 'stmt'
                    and isinstance(n.ast, ast.Assign)
                    and any(isinstance(t, ast.Attribute) and t.attr == 'running'
                            for t in n.ast.targets)
                    and isinstance(n.ast.value, ast.Call)
                    and 'JobControl.is_running' in A.callee_names(g, n.ast.value)]
        sets = sets_running(m, mcfg)
        # ... or through a helper of the class that does so on every path
        for n in mcfg.nodes:
            for c in n.calls():
                for g in A.callees(m, c):
                    if g.cls is wa and g is not m:
                        gcfg = A.cfg(g)
                        gs = sets_running(g, gcfg)
                        if gs and gcfg.find_path([gcfg.entry], lambda x: x is gcfg.exit,
                                                 avoid=gs) is None:
                            sets.append(n)
        ok = bool(sets)
        p = None
        if ok and mname == 'get_script_control':
            # every non-None answer carries the running state
            rets = [r for r in mcfg.return_nodes()]
            found = [t for t in mcfg.nodes if t.kind == 'cond'
                     and A.canonical_atom(t.ast)[0].endswith(' is None')]
            starts = [x for t in found for x, lab in t.succs
                      if lab is not A.canonical_atom(t.ast)[1]]
            p = mcfg.find_path(starts, lambda n: n in rets, avoid=sets)
            ok = bool(found) and p is None
        if ok and mname == 'get_script_list':
            loops = [n for n in mcfg.nodes if n.kind == 'for']
            ok = bool(loops)
            if ok:
                lp = loops[0]
                body = [x for x, lab in lp.succs if lab is True]
                appends = [n for n in mcfg.nodes for c in n.calls()
                           if isinstance(c.func, ast.Attribute) and c.func.attr == 'append']
                ok = bool(appends) and \
                    mcfg.find_path(body, lambda n: n is lp, avoid=sets) is None and \
                    mcfg.find_path(body, lambda n: n is lp, avoid=appends) is None \
                    and '_scripts' in norm(lp.ast.iter)
        R.check(m, '%s: running = jobs.is_running(<entry>.path) for every entry'
                % mname, ok,
                '%s hands out a script entry without its running state (or '
                'drops entries): a running script is started again by a '
                'repeated request, or is missing from the page' % mname,
                path=path_text(p) if p else None)


@rule('R19.g', ('C19', 'C17'), 'flush writes what is still pending and flushes '
      'the sink', floor=2,
      decides='output has all been written when the script ends')
def r19g(R):
    A = R.A
    fl = A.func(VMIO, 'VmIo.flush')
    cfg = A.cfg(fl)
    from ..cfg import in_cycle
    aliases = set(['self._unnamed'])
    for s in walk_own(fl.node):
        if isinstance(s, ast.Assign) and norm(s.value) == 'self._unnamed':
            aliases |= set(norm(t) for t in s.targets)
    outs = [n for n in cfg.nodes for c in n.calls()
            if isinstance(c.func, ast.Attribute) and c.func.attr == 'out']
    heads = [n for n in cfg.nodes if (n.kind == 'for' and norm(n.ast.iter) in aliases)
             or (n.kind == 'loop-head' and any(a in norm(n.ast.test) for a in aliases))]
    ok = bool(heads and outs) and all(in_cycle(cfg, n) for n in outs)
    if ok:
        lp = heads[0]
        if lp.kind == 'for':
            body = [x for x, lab in lp.succs if lab is True]
            elem = [norm(lp.ast.target)]
        else:
            test = [x for x, _l in lp.succs]
            body = [y for t in test for y, lab in t.succs if lab is True] or test
            elem = ['%s[' % a for a in aliases]
        ok = cfg.find_path(body, lambda n: n is lp, avoid=outs) is None and \
            all(any(norm(c.args[0]) == e or norm(c.args[0]).startswith(e) for e in elem)
                for n in outs for c in n.calls()
                if isinstance(c.func, ast.Attribute) and c.func.attr == 'out' and c.args)
    R.check(fl, 'every pending value is written', ok,
            'values still pending when the run ends are dropped')
    sink_flush = [n for n in cfg.nodes for c in n.calls()
                  if isinstance(c.func, ast.Attribute) and c.func.attr == 'flush'
                  and not self_attr(c.func.value)]
    p = cfg.find_path([cfg.entry], lambda n: n is cfg.exit, avoid=sink_flush) \
        if sink_flush else []
    R.check(fl, 'the sink is flushed', bool(sink_flush) and p is None,
            'the output sink is not flushed at the end of a run: an '
            'unterminated line stays pending')


@rule('R04.i', ('C04', 'C12'), 'the iteration instructions always answer: a '
      'name, or NULL at the end / for an empty population', floor=4,
      decides='a light-iterating loop binds each name once and ends; over an '
              'empty population its body does not run')
def r04i(R):
    A = R.A
    vd = A.cls(VMDISC, 'VmDiscover')
    for mname in ('disc', 'discm', 'dnext', 'dnextm'):
        m = vd.methods[mname]
        cfg = A.cfg(m)
        stores = [n for n in cfg.nodes if n.kind == 'stmt'
                  and isinstance(n.ast, ast.Assign)
                  and any(isinstance(t, ast.Attribute) and t.attr == 'result'
                          for t in n.ast.targets)]
        p = cfg.find_path([cfg.entry], lambda n: n is cfg.exit, avoid=stores) \
            if stores else []
        R.check(m, '%s sets the result register on every path' % mname,
                bool(stores) and p is None,
                '%s can return without setting the result register: the loop '
                'sees the result of an unrelated earlier instruction (its body '
                'runs with a stale name, or never ends)' % mname,
                path=path_text(p) if p else None)
    # an empty list is recognised before it is indexed
    for mname in ('disc', 'discm'):
        m = vd.methods[mname]
        cfg = A.cfg(m)
        idx = [n for n in cfg.nodes if any(
            isinstance(x, ast.Subscript) and isinstance(x.ctx, ast.Load)
            and isinstance(x.value, ast.Name) for e in n.exprs() for x in ast.walk(e))]
        ok = bool(idx)
        for n in idx:
            facts = A.path_facts(m, n)
            nonempty = any(
                (text.startswith('0 == len(') and truth is False)
                or (text.startswith('len(') and text.endswith(') > 0') and truth is True)
                or (text.startswith('len(') and text.endswith(') >= 1') and truth is True)
                or (text.startswith('0 < len(') and truth is True)
                for text, truth in facts)
            if not nonempty:
                ok = False
        R.check(m, '%s indexes the name list only when it is not empty' % mname,
                ok, '%s takes the first name of a list that may be empty: an '
                'IndexError stops the script where the loop should simply not '
                'run' % mname)


@rule('R04.j', ('C04',), 'loop prologue constants: the count starts at zero, '
      'a single pass has increment zero, a full turn is 360 or 65536',
      floor=3,
      decides='`repeat in ...` counts exactly the names pushed; `cycle` '
              'spreads a full turn; one pass uses the start value')
def r04j(R):
    A = R.A
    lp = A.cls(LOOP, 'LoopParser')

    def moveq_nodes(m, value, dest_member):
        out = []
        for call, ops in A.emission_sites(m):
            for o, a in ops:
                if o == 'MOVEQ' and len(a) == 2 and A.try_fold(a[0], m, 'x') == value:
                    d = A.try_fold(a[1], m)
                    if isinstance(d, EnumVal) and d.member == dest_member:
                        out += A.node_of_call(m, call)
        return out
    # `with v in <lights>`: the counter is cleared before names are counted
    pw = lp.methods['_pre_loop_with']
    cfg = A.cfg(pw)
    zero = moveq_nodes(pw, 0, 'COUNTER')
    lists = A.calls_nodes(pw, 'LoopParser._pre_loop_list')
    p = cfg.find_path([cfg.entry], lambda n: n in lists, avoid=zero) if zero else []
    R.check(pw, 'MOVEQ 0 -> COUNTER before the names are pushed and counted',
            bool(zero and lists) and p is None,
            'the name counter is not reset to 0 before the `in` list is '
            'counted: the loop runs for as many extra passes as an earlier '
            'loop left in the counter')
    # one pass: increment 0
    ci = lp.methods['_calc_incr']
    R.check(ci, 'count == 1 -> MOVEQ 0 -> INCR', bool(moveq_nodes(ci, 0, 'INCR')),
            'for a single pass the increment is not set to zero (division by '
            'count - 1 = 0 otherwise)')
    # cycle: the full turn
    cv = lp.methods['_cycle_var_range']
    pushed = sorted(A.try_fold(c.args[0], cv, 'x') for c in A.calls_in(cv)
                    if isinstance(c.func, ast.Attribute) and c.func.attr == 'push'
                    and c.args and isinstance(A.try_fold(c.args[0], cv, 'x'), int))
    R.check(cv, 'cycle: full turn pushed as %s' % pushed, pushed == [360, 65536],
            'the full turn a cycle is spread over must be 360 (logical) or '
            '65536 (raw)')


MATH = 'bardolph.runtime.bardolph_math'
JOBS = 'bardolph.lib.job_control'
IOPARSER = 'bardolph.parser.io_parser'
PARSE = 'bardolph.parser.parse'
MPARSE = 'bardolph.parser.matrix_parser'


def _window(A, f, test):
    """interval [lo, hi) or [lo, inf) / (-inf, hi) a conjunction of
    comparisons of one variable with constants describes: (lo, lo_incl, hi,
    hi_incl) with None for an open side; None when it is something else."""
    parts = test.values if isinstance(test, ast.BoolOp) and \
        isinstance(test.op, ast.And) else [test]
    lo = hi = None
    lo_incl = hi_incl = None
    for c in parts:
        if not isinstance(c, ast.Compare):
            return None
        comps = [c.left] + c.comparators
        for i, op in enumerate(c.ops):
            l, r = A.try_fold(comps[i], f), A.try_fold(comps[i + 1], f)
            if isinstance(r, (int, float)) and not isinstance(l, (int, float)):
                if isinstance(op, (ast.Lt, ast.LtE)):
                    hi, hi_incl = r, isinstance(op, ast.LtE)
                elif isinstance(op, (ast.Gt, ast.GtE)):
                    lo, lo_incl = r, isinstance(op, ast.GtE)
                else:
                    return None
            elif isinstance(l, (int, float)) and not isinstance(r, (int, float)):
                if isinstance(op, (ast.Lt, ast.LtE)):
                    lo, lo_incl = l, isinstance(op, ast.LtE)
                elif isinstance(op, (ast.Gt, ast.GtE)):
                    hi, hi_incl = l, isinstance(op, ast.GtE)
                else:
                    return None
            else:
                return None
    return lo, lo_incl, hi, hi_incl


@rule('R02.i', ('C02', 'C16'), 'built-in functions: the documented domain '
      'tests; only functions marked as built-ins are registered', floor=3,
      decides='`[sqrt x]` is the root for every x >= 0 (else -1), `[cycle a]` '
              'leaves 0 <= a < 360 alone and wraps everything else; a name is '
              'taken only by a real built-in')
def r02i(R):
    A = R.A
    sq = A.func(MATH, 'sqrt')
    rets = [n for n in walk_own(sq.node) if isinstance(n, ast.Return)]
    ok = False
    if len(rets) == 1 and isinstance(rets[0].value, ast.IfExp):
        e = rets[0].value
        w = _window(A, sq, e.test)
        root_first = 'math.sqrt' in norm(e.body)
        other = A.try_fold(e.orelse if root_first else e.body, sq, 'x')
        if w is not None:
            lo, lo_incl, hi, hi_incl = w
            if root_first:
                ok = lo == 0 and lo_incl is True and hi is None and other == -1
            else:
                ok = hi == 0 and hi_incl is False and lo is None and other == -1
    R.check(sq, 'sqrt(x) = math.sqrt(x) if x >= 0 else -1', ok,
            'the square root is not taken for exactly the non-negative '
            'arguments (or the error value is not -1): e.g. [sqrt 0] gives -1')
    cy = A.func(MATH, 'cycle')
    rets = [n for n in walk_own(cy.node) if isinstance(n, ast.Return)]
    ok = False
    if len(rets) == 1 and isinstance(rets[0].value, ast.IfExp):
        e = rets[0].value
        w = _window(A, cy, e.test)
        p = cy.params[0]
        if w is not None:
            lo, lo_incl, hi, hi_incl = w
            ident, wrap = e.body, e.orelse
            ok = lo == 0 and lo_incl is True and hi == 360 and hi_incl is False \
                and norm(ident) == p and isinstance(wrap, ast.BinOp) \
                and isinstance(wrap.op, ast.Mod) and norm(wrap.left) == p \
                and A.try_fold(wrap.right, cy) == 360
    R.check(cy, 'cycle(a) = a if 0 <= a < 360 else a % 360', ok,
            'cycle does not leave exactly 0 <= a < 360 unchanged and reduce '
            'everything else modulo 360: [cycle 360] must be 0, [cycle 0] the '
            'integer 0')
    ib = A.func('bardolph.runtime.bardolph_fn', 'is_builtin')
    rets = [n for n in walk_own(ib.node) if isinstance(n, ast.Return)]
    ok = False
    if len(rets) == 1 and isinstance(rets[0].value, ast.IfExp):
        e = rets[0].value
        isfn = 'isfunction' in norm(e.test)
        marked, other = (e.body, e.orelse) if isfn else (e.orelse, e.body)
        ok = 'hasattr' in norm(marked) and A.try_fold(other, ib, 'x') is False
    elif len(rets) == 1 and isinstance(rets[0].value, ast.BoolOp) \
            and isinstance(rets[0].value.op, ast.And):
        t = norm(rets[0].value)
        ok = 'isfunction' in t and 'hasattr' in t
    R.check(ib, 'is_builtin: a function AND marked as built-in', ok,
            'objects that are not marked functions are registered as built-in '
            'routines: their names (math, builtins ...) can no longer be '
            'defined by a script')


@rule('R08.g', ('C08', 'C09', 'C20'), 'an agent keeps the name it was given; '
      'it is running while its thread is alive; the controller has jobs '
      'while anything is queued, active or in the background', floor=3,
      decides='jobs are found under the name they were started with; a stop '
              'reaches a job that runs')
def r08g(R):
    A = R.A
    ag = A.cls(JOBS, 'Agent')
    init = ag.methods['__init__']
    pname = [p for p in init.params if p == 'name']
    ok = False
    for n in walk_own(init.node):
        if isinstance(n, ast.Assign) and self_attr(n.targets[0]) in ('_name', 'name'):
            v = n.value
            if isinstance(v, ast.BoolOp) and isinstance(v.op, ast.Or) \
                    and norm(v.values[0]) == 'name':
                ok = True
            elif isinstance(v, ast.IfExp) or norm(v) == 'name':
                ok = norm(v).startswith('name')
    R.check(init, 'Agent name = name or <generated>', ok and bool(pname),
            'the agent does not keep the name it is given (it is replaced by '
            'the generated one): is_running / stop by name never find the job')
    ir = ag.methods['is_running']
    rets = [r for r in A.cfg(ir).return_nodes() if r.ret_expr is not None]
    alive = [r for r in rets if 'is_alive' in norm(r.ret_expr)]
    ok = bool(alive) and all(('self._thread is None', False) in A.path_facts(ir, r)
                             for r in alive)
    R.check(ir, 'Agent.is_running: thread exists and is alive', ok,
            'Agent.is_running does not answer "a thread exists and is alive": '
            'stop-current finds nothing to stop')
    hj = A.func(JOBS, 'JobControl.has_jobs')
    consts = []
    for n in walk_own(hj.node):
        if isinstance(n, ast.Compare) and isinstance(n.left, ast.Call) \
                and norm(n.left.func) == 'len':
            consts.append((type(n.ops[0]).__name__, A.try_fold(n.comparators[0], hj, 'x')))
    R.check(hj, 'has_jobs: len(...) > 0 for the queue and the background table',
            len(consts) == 2 and all(c in (('Gt', 0), ('NotEq', 0), ('GtE', 1))
                                     for c in consts),
            'has_jobs does not count a single queued / background job')


@rule('R19.h', ('C19', 'C06'), 'printf requires a non-empty format; an output '
      'operand is followed by a literal only when one was asked for', floor=2,
      decides='positional fields take the following values in order')
def r19h(R):
    A = R.A
    pf = A.func(IOPARSER, 'IoParser.printf')
    empties = [n for n in A.cfg(pf).nodes if n.kind == 'cond'
               and isinstance(n.ast, ast.Compare) and isinstance(n.ast.left, ast.Call)
               and norm(n.ast.left.func) == 'len']
    ok = len(empties) == 1 and A.try_fold(empties[0].ast.comparators[0], pf, 'x') == 0 \
        and isinstance(empties[0].ast.ops[0], ast.Eq)
    R.check(pf, 'printf: format rejected only if it is empty', ok,
            'the length test on the format string is not "== 0": one-character '
            'formats are rejected')
    orv = A.func(IOPARSER, 'IoParser._out_rvalue')
    end = [p for p in orv.params if p not in ('self',)]
    lits = []
    for call, ops in A.emission_sites(orv):
        for o, a in ops:
            if o == 'OUT' and a and getattr(A.try_fold(a[0], orv), 'member', None) == 'LITERAL':
                lits += A.node_of_call(orv, call)
    ok = all(end and ('%s is None' % end[0], False) in A.path_facts(orv, n)
             for n in lits)
    R.check(orv, 'OUT LITERAL only when a terminator was given', ok,
            'every output operand is followed by a spurious literal None: '
            'printf fields are filled with None')


@rule('R06.l', ('C06', 'C15', 'C01', 'C18'), 'operands that may not be registers are '
      'parsed with registers excluded; a quoted value goes to the name '
      'register only; a name may be one character long', floor=5,
      decides='documented restrictions are enforced at compile time and '
              'every well-formed operand is accepted')
def r06l(R):
    A = R.A
    # zone / row / column values: at_rvalue(False)
    for modname, fname in ((PARSE, 'Parser._set_zones'), (PARSE, 'Parser._range'),
                           (MPARSE, 'MatrixParser._rows'),
                           (MPARSE, 'MatrixParser._columns'),
                           (MPARSE, 'MatrixParser._range')):
        f = A.func(modname, fname)
        probes = [c for c in A.calls_in(f) if isinstance(c.func, ast.Attribute)
                  and c.func.attr in ('at_rvalue', '_at_rvalue')]
        if not probes:
            raise AnalysisError('%s: at_rvalue probe not found' % fname)
        for c in probes:
            arg = c.args[0] if c.args else next(
                (k.value for k in c.keywords if k.arg == 'include_reg'), None)
            R.check(f, c, arg is not None and A.try_fold(arg, f, 'x') is False,
                    'a zone / row / column value is probed with registers '
                    'allowed: `set "S" zone 3` followed by `hue 5` takes the '
                    'register for the end of the range, or `row hue` compiles',
                    line=c.lineno)
    for modname, fname in ((PARSE, 'Parser._range'), (MPARSE, 'MatrixParser._range')):
        f = A.func(modname, fname)
        d = f.node.args.defaults
        R.check(f, '%s(only_one=False)' % fname,
                len(d) == 1 and isinstance(d[0], ast.Constant) and d[0].value is False,
                'ranges take only one value by default: `zone a b` is rejected')
    sr = A.func(PARSE, 'Parser._string_to_reg')
    em = [n for call, ops in A.emission_sites(sr) for o, a in ops if o == 'MOVEQ'
          for n in A.node_of_call(sr, call)]
    reg = sr.params[1]
    eq = '%s == %s' % tuple(sorted((reg, 'Register.NAME')))
    ok = bool(em) and all(
        (eq, True) in A.path_facts(sr, n)
        or ('%s is %s' % tuple(sorted((reg, 'Register.NAME'))), True) in A.path_facts(sr, n)
        for n in em)
    R.check(sr, 'a quoted value is stored only in the name register', ok,
            'a quoted string is accepted as the value of a numeric register '
            '(hue "abc"): the script compiles and the VM faults')
    op = A.func(PARSE, 'Parser._operand')
    # the string a quoted operand denotes, tested for "not empty" in any
    # notation (len(s) > 0, len(s) != 0, s, not s on the other edge ...)
    strs = set(norm(n.ast.targets[0]) for n in A.cfg(op).nodes
               if n.kind == 'stmt' and isinstance(n.ast, ast.Assign)
               and isinstance(n.ast.value, ast.Call)
               and 'current_str' in norm(n.ast.value.func))
    lens = [n for n in A.cfg(op).nodes if n.kind == 'cond'
            and A.emptiness(n.ast) is not None
            and (A.emptiness(n.ast)[0] in strs or isinstance(n.ast, ast.Compare))]
    ok = len(lens) == 1
    R.check(op, 'a light name of any length > 0 is an operand', ok,
            'one-character light names are not accepted as operands')
    # WAIT before an action unless it is staged inside a matrix
    ac = A.func(PARSE, 'Parser._action')
    cfg = A.cfg(ac)
    waits = A.emit_nodes(ac, 'WAIT')
    ok = bool(waits)
    for n in waits:
        facts = A.path_facts(ac, n)
        ok = ok and ('self._context.in_matrix()', False) in facts and any(
            'STAGE' in t and truth is False for t, truth in facts)
    R.check(ac, 'WAIT unless in a matrix block or staging', ok,
            'the delay before an action is also emitted for stages (inside '
            'routines): a matrix built from several stages waits once per '
            'stage instead of once')


@rule('R20.k', ('C20',), 'pages are rendered from the script entry; a missing '
      'entry stops nothing; the manifest is read when there is one; `off` '
      'runs its script', floor=8,
      decides='routes render without error for listed paths; stop acts on '
              'the named job; scripts run queued unless marked background')
def r20k(R):
    A = R.A
    fe = A.cls(FRONT, 'FrontEnd')
    n = 0
    for m in fe.methods.values():
        for c in A.calls_in(m):
            if 'FrontEnd.render_action' in A.callee_names(m, c) and len(c.args) == 2:
                n += 1
                R.check(m, c, isinstance(c.args[0], ast.Name)
                        and isinstance(A.try_fold(c.args[1], m, None), str),
                        'render_action(%s, %s): the script entry and the '
                        'message are exchanged - the page raises instead of '
                        'rendering' % (norm(c.args[0]), norm(c.args[1])),
                        line=c.lineno)
    if n < 4:
        raise AnalysisError('R20.k: only %d render_action calls found' % n)
    # WebApp.stop_script: an unknown path stops nothing, a known one is stopped
    ss = A.func(WEBAPP, 'WebApp.stop_script')
    cfg = A.cfg(ss)
    stops = A.calls_nodes(ss, 'JobControl.stop_job')
    var = None
    for s in walk_own(ss.node):
        if isinstance(s, ast.Assign) and isinstance(s.value, ast.Call) \
                and isinstance(s.value.func, ast.Attribute) and s.value.func.attr == 'get' \
                and '_scripts' in norm(s.value.func.value):
            var = norm(s.targets[0])
    ok = var is not None and bool(stops) and all(
        ('%s is None' % var, False) in A.path_facts(ss, x) for x in stops)
    p = None
    if ok:
        tests = [t for t in cfg.nodes if t.kind == 'cond'
                 and A.canonical_atom(t.ast)[0] == '%s is None' % var]
        for t in tests:
            _txt, pol = A.canonical_atom(t.ast)
            starts = [x for x, lab in t.succs if lab is not pol]
            p = cfg.find_path(starts, lambda x: x is cfg.exit, avoid=stops)
            ok = ok and p is None
    R.check(ss, 'stop_script: known entry -> stop_job(entry.path); unknown -> nothing',
            ok, 'stop_script stops nothing for a listed path (or dereferences '
            'a missing entry)', path=path_text(p) if p else None)
    # the manifest is read whenever a file name is configured
    lm = A.func(WEBAPP, 'WebApp._load_manifest')
    lcfg = A.cfg(lm)
    reads = [x for x in lcfg.nodes for c in x.calls() if norm(c.func) == 'json.load']
    var = None
    for s in walk_own(lm.node):
        if isinstance(s, ast.Assign) and isinstance(s.value, ast.Call) \
                and 'manifest_file_name' in norm(s.value):
            var = norm(s.targets[0])
    ok = var is not None and bool(reads) and all(
        ('%s is None' % var, False) in A.path_facts(lm, x) for x in reads)
    if ok:
        tests = [t for t in lcfg.nodes if t.kind == 'cond'
                 and A.canonical_atom(t.ast)[0] == '%s is None' % var]
        for t in tests:
            _txt, pol = A.canonical_atom(t.ast)
            starts = [x for x, lab in t.succs if lab is not pol]
            ok = ok and lcfg.find_path(starts, lambda x: x is lcfg.exit,
                                       avoid=reads) is None
    R.check(lm, 'manifest read iff a manifest file name is configured', ok,
            'the manifest is not read when there is one (test reversed): no '
            'script can be started')
    rb = [c for c in A.calls_in(lm) if isinstance(c.func, ast.Attribute)
          and c.func.attr == 'get' and c.args
          and A.try_fold(c.args[0], lm, None) == 'run_background']
    R.check(lm, 'run_background defaults to False',
            len(rb) == 1 and len(rb[0].args) == 2
            and A.try_fold(rb[0].args[1], lm, 'x') is False,
            'an entry without a run_background flag is run in the background: '
            'unmarked scripts run concurrently instead of queued')
    # /off: the script listed for `off` is queued
    off = A.func(FRONT, 'FrontEnd.off')
    ocfg = A.cfg(off)
    q = A.calls_nodes(off, 'WebApp.queue_script')
    render = A.calls_nodes(off, 'FrontEnd.render_action')
    ok = bool(q and render) and ocfg.find_path(
        [ocfg.entry], lambda x: x in render, avoid=q) is None
    R.check(off, 'off: queue_script before the action page', ok,
            'the off route renders its page without starting the off script')


@rule('R07.e', ('C07', 'C14'), 'rgb -> raw: each HSV component (0..1) is '
      'scaled by exactly 65535, clamped to 0..65535 and rounded', floor=1,
      decides='rgb colours are transmitted as the exact 16-bit values of '
              'their hue, saturation and brightness')
def r07e(R):
    A = R.A
    f = A.func('bardolph.controller.units', 'rgb_to_raw')
    # the scaling expression: a lambda or a helper applied to h, s, v
    bodies = []
    for n in walk_own(f.node):
        if isinstance(n, ast.Lambda) and len(n.args.args) == 1:
            bodies.append((n.args.args[0].arg, n.body))
    for c in A.calls_in(f):
        for g in A.callees(f, c):
            if g.module is f.module and g.name.startswith('_') and len(g.params) == 1:
                rets = [x for x in walk_own(g.node) if isinstance(x, ast.Return)]
                if len(rets) == 1 and rets[0].value is not None:
                    bodies.append((g.params[0], rets[0].value))
    # ... or written out for each component (a helper expanded in place)
    for n in walk_own(f.node):
        if isinstance(n, ast.Return) and isinstance(n.value, (ast.List, ast.Tuple)):
            for e in n.value.elts[:3]:
                names = [x.id for x in ast.walk(e) if isinstance(x, ast.Name)
                         and x.id not in ('round', 'max', 'min')]
                if isinstance(e, ast.Call) and len(set(names)) == 1:
                    bodies.append((names[0], e))
    ok = False
    found = None
    for p, body in bodies:
        muls = [x for x in ast.walk(body) if isinstance(x, ast.BinOp)
                and isinstance(x.op, ast.Mult)
                and p in (norm(x.left), norm(x.right))]
        if len(muls) != 1:
            continue
        k = A.try_fold(muls[0].right if norm(muls[0].left) == p else muls[0].left, f)
        caps = [A.try_fold(a, f, None) for x in ast.walk(body)
                if isinstance(x, ast.Call) and norm(x.func) in ('min', 'max')
                for a in x.args]
        caps = sorted(c for c in caps if isinstance(c, (int, float)))
        found = (k, caps)
        ok = k == 65535 and caps == [0, 65535] and any(
            isinstance(x, ast.Call) and norm(x.func) == 'round' for x in ast.walk(body))
    R.check(f, 'rgb_to_raw: round(clamp(x * 65535, 0, 65535)) (found %s)' % (found,),
            ok, 'the HSV components of an rgb colour are not scaled by exactly '
            '65535 / clamped to 0..65535 / rounded')
    from .c07 import nan_absorbed
    for p, body in bodies:
        if any(isinstance(x, ast.Call) and norm(x.func) in ('min', 'max')
               for x in ast.walk(body)):
            R.check(f, 'NaN: %s' % norm(body)[:60], nan_absorbed(body, p),
                    'the clamp of rgb_to_raw does not absorb NaN (the value is '
                    'the first argument of the outer min / max): a NaN colour '
                    'register reaches round(), which raises, and the machine '
                    'stops')


@rule('R06.m', ('C06',), 'a token without text never equals a piece of text',
      floor=1,
      decides='closing braces, brackets and parentheses must really be there: '
              'the end of input or a keyword is not taken for them')
def r06m(R):
    A = R.A
    eq = A.func('bardolph.parser.token', 'Token.__eq__')
    cfg = A.cfg(eq)
    is_str = [t for t in cfg.nodes if t.kind == 'cond' and isinstance(t.ast, ast.Call)
              and norm(t.ast.func) == 'isinstance' and len(t.ast.args) == 2
              and norm(t.ast.args[1]) == 'str']
    ok = bool(is_str)
    n_ret = 0
    for r in cfg.return_nodes():
        facts = A.path_facts(eq, r)
        if (norm(is_str[0].ast), True) not in facts if is_str else True:
            continue
        n_ret += 1
        has = [t for t in facts if 'has_string()' in t[0]]
        if has and has[0][1] is False:
            # no text: must answer False (a constant, or the falsy result of
            # `has_string() and ...` itself)
            if not ((isinstance(r.ret_expr, ast.Constant) and r.ret_expr.value is False)
                    or getattr(r, 'ret_truth', None) is False):
                ok = False
        elif has and has[0][1] is True:
            if 'content' not in norm(r.ret_expr):
                ok = False
    R.check(eq, 'Token == str: content compared iff the token has text, else False',
            ok and n_ret >= 2,
            'a token that has no text of its own compares equal to a string: '
            'the end of input passes for `}` / `]` / `)` and unterminated '
            'expressions are accepted')
