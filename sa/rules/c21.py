"""What each VM handler must do with its instruction (operational clauses of
C01 / C05 / C07 / C11 / C14 that no other rule pins down).

Every rule here evaluates the handler *per case* - per Enum member of the
operand it dispatches on, per truth value of a register - with the
constant-folding walk `Analysis.nodes_under`, or asks by edge dominance; none
reads the shape of an if/elif chain.
"""
import ast

from ..analysis import PROPERTY_TEXT, path_text, self_attr  # noqa: F401
from ..cfg import reachable_without_edges
from ..const import EnumVal, Unfoldable
from ..index import AnalysisError, norm
from ..report import rule
from ..resolve import walk_own

MACHINE = 'bardolph.vm.machine'
CLOCK = 'bardolph.lib.clock'
COLOUR_REGS = {True: ['blue', 'green', 'kelvin', 'red'],
               False: ['brightness', 'hue', 'kelvin', 'saturation']}


def _reg_stores(nodes):
    """names of the register attributes stored by the given CFG nodes"""
    out = set()
    for n in nodes:
        if n.kind != 'stmt' or not isinstance(n.ast, (ast.Assign, ast.AugAssign)):
            continue
        targets = n.ast.targets if isinstance(n.ast, ast.Assign) else [n.ast.target]
        for t in targets:
            for x in ast.walk(t):
                if isinstance(x, ast.Attribute) and isinstance(x.ctx, ast.Store):
                    out.add(x.attr)
    return out


@rule('R01.h', ('C01', 'C11'), 'WAIT pauses for the time register: a pattern '
      'waits for the time of day, a positive number for that long', floor=3,
      decides='the delay requested before each command is the one the time '
              'register holds at that moment')
def r01h(R):
    A = R.A
    w = A.func(MACHINE, 'Machine._wait')
    cfg = A.cfg(w)
    until = A.calls_nodes(w, 'Clock.wait_until')
    pause = A.calls_nodes(w, 'Clock.pause_for')
    is_pat = [n for n in cfg.nodes if n.kind == 'cond' and isinstance(n.ast, ast.Call)
              and norm(n.ast.func) == 'isinstance' and len(n.ast.args) == 2
              and norm(n.ast.args[1]).endswith('TimePattern')]
    ok = bool(until and is_pat)
    p = None
    if ok:
        starts = [m for n in is_pat for m, lab in n.succs if lab is True]
        p = cfg.find_path(starts, lambda n: n in (cfg.exit, cfg.raise_exit),
                          avoid=until)
        # and only patterns go there
        only = all(u.id not in reachable_without_edges(
            cfg, cfg.entry, {(n.id, True) for n in is_pat}) for u in until)
        ok = p is None and only
    R.check(w, 'time is a pattern -> clock.wait_until(time)', ok,
            'a `time at` wait does not reach Clock.wait_until (or a number '
            'does): the script does not wait for the time of day',
            path=path_text(p) if p else None)
    # the numeric branch: pause exactly when time > 0
    pos = []
    for n in cfg.nodes:
        if n.kind == 'cond' and isinstance(n.ast, ast.Compare) and len(n.ast.ops) == 1:
            l, r = n.ast.left, n.ast.comparators[0]
            lk, rk = A.try_fold(l, w), A.try_fold(r, w)
            op = n.ast.ops[0]
            # (time >= 0 is as good: pausing for nothing is no pause)
            if rk == 0 and not isinstance(lk, (int, float)) \
                    and isinstance(op, (ast.Gt, ast.GtE)):
                pos.append((n, True))
            elif lk == 0 and not isinstance(rk, (int, float)) \
                    and isinstance(op, (ast.Lt, ast.LtE)):
                pos.append((n, True))
            elif rk == 0 and not isinstance(lk, (int, float)) \
                    and isinstance(op, (ast.LtE, ast.Lt)):
                pos.append((n, False))
    ok = bool(pause) and len(pos) == 1
    q = None
    if ok:
        n, lab = pos[0]
        starts = [m for m, lb in n.succs if lb is lab]
        q = cfg.find_path(starts, lambda x: x in (cfg.exit, cfg.raise_exit),
                          avoid=pause)
        guarded = all(u.id not in reachable_without_edges(
            cfg, cfg.entry, {(n.id, lab)}) for u in pause)
        ok = q is None and guarded
    R.check(w, 'time > 0 -> clock.pause_for(time)', ok,
            'a positive delay does not reach Clock.pause_for, or the test is '
            'not `time > 0` (a delay between 0 and the constant is dropped)',
            path=path_text(q) if q else None)
    # the value handed over is the time register (possibly rescaled)
    args_ok = all(
        any(isinstance(x, ast.Name) for x in ast.walk(c.args[0]))
        for n in until + pause for c in n.calls()
        if isinstance(c.func, ast.Attribute)
        and c.func.attr in ('wait_until', 'pause_for') and c.args)
    R.check(w, 'the clock is given the time register', args_ok,
            'the clock is not handed the value of the time register')


@rule('R11.h', ('C11',), 'TIME_PATTERN: INIT stores a pattern in the time '
      'register, UNION merges into it', floor=2,
      decides='`time at P1 or P2 ...` waits for the first minute matched by '
              'at least one of the listed patterns')
def r11h(R):
    A = R.A
    tp = A.func(MACHINE, 'Machine._time_pattern')
    so = A.cls('bardolph.vm.vm_codes', 'SetOp')
    # the operand that selects the operation: compared with a SetOp member
    sel = None
    for n in A.cfg(tp).nodes:
        if n.kind == 'cond' and isinstance(n.ast, ast.Compare):
            v = A.try_fold(n.ast.comparators[0], tp)
            if isinstance(v, EnumVal) and v.enum == 'SetOp':
                sel = norm(n.ast.left)
            v = A.try_fold(n.ast.left, tp)
            if isinstance(v, EnumVal) and v.enum == 'SetOp':
                sel = norm(n.ast.comparators[0])
    if sel is None:
        raise AnalysisError('Machine._time_pattern: SetOp selector not found')
    for member in so.enum_members():
        nodes = A.nodes_under(tp, {sel: EnumVal('SetOp', member)})
        stores = 'time' in _reg_stores(nodes)
        unions = any(isinstance(c.func, ast.Attribute) and c.func.attr == 'union'
                     and norm(c.func.value).endswith('.time')
                     for n in nodes for c in n.calls())
        if member == 'INIT':
            ok, want = stores and not unions, 'store a pattern in the time register'
        else:
            ok, want = unions and not stores, 'merge into the time register'
        R.check(tp, 'SetOp.%s: %s' % (member, 'store' if stores else
                                      'union' if unions else 'nothing'), ok,
                'TIME_PATTERN %s must %s: otherwise the alternatives of '
                '`time at ... or ...` are lost or replace each other' % (member, want))


@rule('R01.i', ('C01', 'C14'), 'GET_COLOR loads the light\'s colour into the '
      'colour registers of the current unit mode', floor=4,
      decides='a get statement takes effect: the registers hold what the '
              'light reports, in the script\'s units')
def r01i(R):
    A = R.A
    g = A.func(MACHINE, 'Machine._get_color')
    cfg = A.cfg(g)
    reads = [n for n in cfg.nodes for c in n.calls()
             if isinstance(c.func, ast.Attribute) and c.func.attr == 'get_color'
             and not norm(c.func.value).startswith('self._reg')]
    sinks = [n for n in cfg.nodes for c in n.calls()
             if any(x in ('Machine._color_to_reg', 'Registers.store_color')
                    for x in A.callee_names(g, c))]
    sinks += [n for n in cfg.nodes if len(_reg_stores([n]) & {
        'hue', 'saturation', 'brightness', 'red', 'green', 'blue'}) >= 3]
    ok = bool(reads and sinks)
    p = None
    if ok:
        p = cfg.find_path([m for n in reads for m, _l in n.succs],
                          lambda n: n is cfg.exit, avoid=sinks)
        ok = p is None
    R.check(g, 'light.get_color() -> registers', ok,
            'the colour read from the light is not stored in the registers: '
            '`get` has no effect', path=path_text(p) if p else None)
    conv = [n for n in cfg.nodes for c in n.calls()
            if 'Machine._assure_units' in A.callee_names(g, c)]
    q = cfg.find_path([cfg.entry], lambda n: n in sinks, avoid=conv) if sinks else []
    R.check(g, 'converted with _assure_units before it is stored',
            bool(conv) and q is None,
            'the raw colour reported by the light reaches the registers '
            'without being converted to the unit mode of the script')
    # the register file is written per mode
    for fname in ('Machine._color_to_reg', 'Registers.store_color'):
        try:
            f = A.func(MACHINE, fname)
        except AnalysisError:
            continue
        um = A.cls('bardolph.controller.units', 'UnitMode')
        sels = set()
        for n in A.cfg(f).nodes:
            if n.kind == 'cond' and isinstance(n.ast, ast.Compare):
                for side, other in ((n.ast.left, n.ast.comparators[0]),
                                    (n.ast.comparators[0], n.ast.left)):
                    v = A.try_fold(other, f)
                    if isinstance(v, EnumVal) and v.enum == 'UnitMode':
                        sels.add(norm(side))
        if len(sels) != 1:
            raise AnalysisError('%s: unit-mode selector not found' % fname)
        sel = sels.pop()
        for member in um.enum_members():
            nodes = A.nodes_under(f, {sel: EnumVal('UnitMode', member)})
            got = sorted(_reg_stores(nodes) & set(
                COLOUR_REGS[True] + COLOUR_REGS[False]))
            R.check(f, '%s in %s mode -> %s' % (fname.split('.')[1], member, got),
                    got == COLOUR_REGS[member == 'RGB'],
                    'in %s units a colour must be stored in %s, not %s'
                    % (member.lower(), COLOUR_REGS[member == 'RGB'], got))


@rule('R07.d', ('C07', 'C01'), 'the power level sent is 65535 for on and 0 for '
      'off', floor=2,
      decides='on / off reach the device as full power and no power')
def r07d(R):
    A = R.A
    n_ok = 0
    for fname, expr in (('Registers.get_power', 'self.power'),
                        ('Machine._power_param', 'self._reg.power')):
        f = A.func(MACHINE, fname)
        for truth, want in ((True, 65535), (False, 0)):
            try:
                got = A.peval(f, {expr: truth})
            except Unfoldable as ex:
                raise AnalysisError('%s: cannot evaluate (%s)' % (fname, ex))
            n_ok += 1
            R.check(f, '%s with power %s -> %s' % (fname.split('.')[1], truth, got),
                    got == want,
                    'power %s must be sent as %d, not %r: the device treats '
                    'any non-zero level as on' % (
                        'on' if truth else 'off', want, got))


@rule('R05.h', ('C05', 'C06'), 'the run loop fetches only inside the program',
      floor=1,
      decides='control never runs past the last instruction: a script that '
              'reaches its end stops there')
def r05h(R):
    A = R.A
    run = A.func(MACHINE, 'Machine.run')
    cfg = A.cfg(run)
    fetch = [n for n in cfg.nodes if any(
        isinstance(x, ast.Subscript) and self_attr(x.value) == '_program'
        for e in n.exprs() for x in ast.walk(e))]
    if not fetch:
        raise AnalysisError('Machine.run: instruction fetch not found')
    # locals bound to len(self._program)
    lens = set(['len(self._program)'])
    for n in walk_own(run.node):
        if isinstance(n, ast.Assign) and norm(n.value) == 'len(self._program)':
            lens |= set(norm(t) for t in n.targets)
    guards = []
    for n in cfg.nodes:
        if n.kind == 'cond' and isinstance(n.ast, ast.Compare) and len(n.ast.ops) == 1:
            l, r, op = norm(n.ast.left), norm(n.ast.comparators[0]), n.ast.ops[0]
            if l.endswith('.pc') and r in lens and isinstance(op, ast.Lt):
                guards.append((n, True))
            elif r.endswith('.pc') and l in lens and isinstance(op, ast.Gt):
                guards.append((n, True))
            elif l.endswith('.pc') and r in lens and isinstance(op, ast.GtE):
                guards.append((n, False))
    ok = bool(guards) and all(
        f.id not in reachable_without_edges(cfg, cfg.entry, {(g.id, lab) for g, lab in guards})
        for f in fetch)
    R.check(run, 'fetch self._program[pc] only while pc < len(program)', ok,
            'the instruction fetch is not guarded by pc < len(program) '
            '(strictly): after the last instruction the loop indexes past the '
            'end and every run ends in an internal fault')
