"""Importing this package registers every rule with sa.report.RULES."""
from . import c01, c02, c03, c04, c05, c06, c07, c08, c09, c11, c12, c13, c14, c16, c17, c18, c21, c22, c23, c24, c25, c26  # noqa: F401
