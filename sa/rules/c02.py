"""C02 - Expressions follow the documented precedence, associativity and
arithmetic."""
import ast

from ..analysis import PROPERTY_TEXT, path_text
from ..const import EnumVal, FuncRef, Unfoldable, regex_literal_strings
from ..index import AnalysisError, norm
from ..report import rule
from ..resolve import walk_own

TOKEN = 'bardolph.parser.token'
LEX = 'bardolph.parser.lex'
EXPR = 'bardolph.parser.expr_parser'
VMMATH = 'bardolph.vm.vm_math'
PARSE = 'bardolph.parser.parse'

PROPERTY_TEXT['C02'] = (
    'the operator set is the same in the lexer, Token.is_binop, Token.prec, '
    'ExpressionParser._do_op and the VM operator table, and equals the '
    'documented fourteen (R02.a); the precedence order relation and the '
    'associativity read from Token.prec/assoc (R02.b); each symbol maps to '
    'the operator and library function of the same meaning, operands are '
    'popped right-then-left, logical operands are coerced with bool (R02.c); '
    '[random a b] is closed on both ends (R02.d); a leading minus emits a '
    'negation on every path (R02.g).',
    'values of expressions, grouping performed by the climbing loop, numeric '
    'results of built-ins other than the range of random.')

# Oracle tables: the property statement and docs/language.rst.
DOCUMENTED_BINOPS = {'+', '-', '*', '/', '%', '^', '<', '<=', '>', '>=', '==',
                     '!=', 'and', 'or'}
PREC_CLASSES = [          # loosest first; members of one class bind equally
    {'or'}, {'and'}, {'<', '<=', '>', '>=', '==', '!='}, {'+', '-'},
    {'*', '/', '%'}, {'^'}]
RIGHT_ASSOC = {'^', 'not'}
SYMBOL_OPERATOR = {'+': 'ADD', '-': 'SUB', '*': 'MUL', '/': 'DIV', '%': 'MOD',
                   '^': 'POW', 'and': 'AND', 'or': 'OR', '<': 'LT', '<=': 'LTE',
                   '>': 'GT', '>=': 'GTE', '==': 'EQ', '!=': 'NOTEQ'}
OPERATOR_FN = {'ADD': {'add', '__add__'}, 'SUB': {'sub', '__sub__'},
               'MUL': {'mul', '__mul__'}, 'DIV': {'truediv', '__truediv__'},
               'MOD': {'mod', '__mod__'}, 'POW': {'pow', '__pow__'},
               'LT': {'lt', '__lt__'}, 'LTE': {'le', '__le__'},
               'GT': {'gt', '__gt__'}, 'GTE': {'ge', '__ge__'},
               'EQ': {'eq', '__eq__'}, 'NOTEQ': {'ne', '__ne__'}}


def _dict_in(A, func):
    """The (single) dict display in func that folds."""
    tables = [t for t, _n in A.tables_in(func)
              if all(isinstance(k, str) for k in t)]
    if not tables:
        raise AnalysisError('%s: table not found' % func.short)
    return max(tables, key=len)


def binop_sets(A):
    tok = A.cls(TOKEN, 'Token')
    lex = A.cls(LEX, 'Lex')
    prec_f = A.func(TOKEN, 'Token.prec')
    isbin_f = A.func(TOKEN, 'Token.is_binop')
    doop_f = A.func(EXPR, 'ExpressionParser._do_op')
    prec = _dict_in(A, prec_f)
    doop = _dict_in(A, doop_f)
    # Token.is_binop
    isbin = set()
    uses_compare = False
    for node in walk_own(isbin_f.node):
        if isinstance(node, ast.Compare) and len(node.ops) == 1 \
                and isinstance(node.ops[0], ast.In):
            v = A.try_fold(node.comparators[0], isbin_f)
            if isinstance(v, str):
                isbin |= set(v)
            elif isinstance(v, (tuple, list, set)):
                isbin |= set(v)
        if isinstance(node, ast.Call) and node.args:
            v = A.try_fold(node.args[0], isbin_f)
            if isinstance(v, EnumVal) and v.member == 'COMPARE':
                uses_compare = True
    cmp_spec = A.fold(lex.class_attrs['_CMP_SPEC'], lex) \
        if '_CMP_SPEC' in lex.class_attrs else None
    cmp_set = regex_literal_strings(cmp_spec) if cmp_spec else None
    if cmp_set is None:
        raise AnalysisError('Lex._CMP_SPEC is not a finite literal alternation')
    if uses_compare:
        isbin |= cmp_set
    # VM
    vm = A.cls(VMMATH, 'VmMath')
    fn_table = A.fold(vm.class_attrs['_fn_table'], vm)
    op_f = A.func(VMMATH, 'VmMath.op')
    # which handler op() reaches for each Operator member (conditions folded
    # with the parameter bound to the member, so any if/elif/else shape works)
    logical = set()
    oper_enum = A.repo.resolve_expr_static(op_f.module, ast.parse('Operator', mode='eval').body)
    if oper_enum is None or not op_f.params[1:]:
        raise AnalysisError('VmMath.op: Operator enum / parameter not found')
    pname = op_f.params[1]
    for member in oper_enum.enum_members():
        reached = A.calls_under(op_f, {pname: EnumVal('Operator', member)})
        if 'VmMath.logical_op' in reached and 'VmMath.bin_op' not in reached:
            logical.add(member)
    return dict(prec=prec, doop=doop, isbin=isbin, cmp_set=cmp_set,
                fn_table=fn_table, logical=logical, prec_f=prec_f,
                isbin_f=isbin_f, doop_f=doop_f, vm=vm, lex=lex)


@rule('R02.a', ('C02', 'C06', 'C16'), 'operator set agrees across lexer, '
      'is_binop, prec, _do_op and the VM table (= the documented fourteen)',
      floor=62,
      decides='every documented operator lexes, reduces and evaluates; none '
              'is accepted in one place and unknown in another')
def r02a(R):
    A = R.A
    S = binop_sets(A)
    prec_keys = set(S['prec']) - {'not'}
    doop_keys = set(S['doop'])
    vm_ops = set(k.member for k in S['fn_table']) | S['logical']
    for sym in sorted(DOCUMENTED_BINOPS | prec_keys | doop_keys | S['isbin']):
        doc = sym in DOCUMENTED_BINOPS
        R.check(S['prec_f'], "prec[%r]" % sym, (sym in prec_keys) == doc,
                'operator %r %s Token.prec: it %s' % (
                    sym, 'is missing from' if doc else 'is not documented but is in',
                    'gets precedence -1 and is never reduced' if doc
                    else 'is an undocumented operator'))
        R.check(S['isbin_f'], "is_binop(%r)" % sym, (sym in S['isbin']) == doc,
                'operator %r %s by Token.is_binop' % (
                    sym, 'is not recognised' if doc else 'is recognised'))
        R.check(S['doop_f'], "_do_op[%r]" % sym, (sym in doop_keys) == doc,
                'operator %r has %s entry in ExpressionParser._do_op' % (
                    sym, 'no' if doc else 'an undocumented'))
        if sym in S['doop']:
            opv = S['doop'][sym]
            ok = isinstance(opv, EnumVal) and opv.member in vm_ops
            R.check(S['vm'], "VmMath handles %s (for %r)" % (opv, sym), ok,
                    'Operator %s reduced from %r has no entry in '
                    'VmMath._fn_table nor in the logical set: KeyError at run '
                    'time' % (opv, sym))
        if sym in ('<', '<=', '>', '>=', '==', '!='):
            R.check(S['lex'], "_CMP_SPEC matches %r" % sym,
                    sym in S['cmp_set'],
                    'comparison %r is not an alternative of Lex._CMP_SPEC'
                    % sym)


@rule('R02.b', ('C02', 'C06', 'C01'), 'precedence order relation and associativity '
      '(Token.prec / Token.assoc)', floor=15 + 14,
      decides='^ tighter than * / %, tighter than + -, tighter than '
              'comparisons, tighter than and, tighter than or; ^ groups right '
              'to left, the rest left to right')
def r02b(R):
    A = R.A
    prec_f = A.func(TOKEN, 'Token.prec')
    assoc_f = A.func(TOKEN, 'Token.assoc')
    syms = sorted(DOCUMENTED_BINOPS)
    val = {}
    for s in syms + ['not']:
        try:
            val[s] = A.peval(prec_f, {'self.content': s, 'self._content': s})
        except Unfoldable as ex:
            raise AnalysisError('Token.prec does not fold for %r: %s' % (s, ex))
    cls_of = {}
    for i, c in enumerate(PREC_CLASSES):
        for s in c:
            cls_of[s] = i
    # adjacent-class and in-class relations are enough (transitivity)
    for i, c in enumerate(PREC_CLASSES):
        members = sorted(c)
        for a in members[1:]:
            R.check(prec_f, 'prec(%r) == prec(%r)' % (members[0], a),
                    val[members[0]] == val[a],
                    'operators %r and %r are documented as equal precedence '
                    'but Token.prec gives %s and %s'
                    % (members[0], a, val[members[0]], val[a]))
        if i + 1 < len(PREC_CLASSES):
            lo, hi = members[0], sorted(PREC_CLASSES[i + 1])[0]
            R.check(prec_f, 'prec(%r) < prec(%r)' % (lo, hi),
                    isinstance(val[lo], (int, float)) and val[lo] < val[hi],
                    '%r must bind tighter than %r but Token.prec gives %s vs %s'
                    % (hi, lo, val[hi], val[lo]))
    # `not` must stay below every binary operator: the climbing loop treats
    # it as a (right-associative) operator of that precedence if it is not,
    # and loops for ever on `a or b not c`
    R.check(prec_f, "prec('not') < prec of every binary operator",
            isinstance(val['not'], (int, float)) and all(
                val['not'] < val[s] for s in syms),
            '`not` has the precedence of a binary operator (%s): the '
            'expression parser takes it for one and does not terminate on an '
            'input such as {1 or 2 not 3}' % val['not'])
    R.check(prec_f, "prec(x) >= 0 for every binary operator",
            all(isinstance(val[s], (int, float)) and val[s] >= 0 for s in syms),
            'a binary operator has negative precedence: the climbing loop '
            '(min_prec 0) never reduces it')
    for s in syms + ['not']:
        try:
            a = A.peval(assoc_f, {'self.content': s, 'self._content': s})
        except Unfoldable as ex:
            raise AnalysisError('Token.assoc does not fold for %r: %s' % (s, ex))
        want = 'RIGHT' if s in RIGHT_ASSOC else 'LEFT'
        R.check(assoc_f, 'assoc(%r)' % s,
                isinstance(a, EnumVal) and a.member == want,
                'operator %r must group %s but Token.assoc gives %s'
                % (s, want.lower(), a))


@rule('R02.c', ('C02',), 'symbol -> Operator -> library function mapping; '
      'operand order; logical coercion', floor=14 + 12 + 3,
      decides='each operator computes the ordinary arithmetic / logical value')
def r02c(R):
    A = R.A
    S = binop_sets(A)
    for sym, want in sorted(SYMBOL_OPERATOR.items()):
        got = S['doop'].get(sym)
        R.check(S['doop_f'], "%r -> Operator.%s" % (sym, want),
                isinstance(got, EnumVal) and got.member == want,
                'symbol %r is compiled to %s instead of Operator.%s'
                % (sym, got, want))
    for opv, fn in sorted(S['fn_table'].items(), key=lambda kv: repr(kv[0])):
        want = OPERATOR_FN.get(opv.member)
        name = fn.name.rsplit('.', 1)[-1] if isinstance(fn, FuncRef) else repr(fn)
        R.check(S['vm'], "_fn_table[%s] = %s" % (opv, name),
                want is not None and isinstance(fn, FuncRef)
                and fn.name.startswith('operator.') and name in want,
                'Operator.%s is evaluated with %s (expected operator.%s)'
                % (opv.member, name, sorted(want)[0] if want else '?'))
    # operand order in bin_op: first pop is the RIGHT operand
    binop = A.func(VMMATH, 'VmMath.bin_op')
    cfg = A.cfg(binop)
    pops = []
    for n in cfg.nodes:
        if n.kind == 'stmt' and isinstance(n.ast, ast.Assign) \
                and isinstance(n.ast.value, ast.Call) \
                and any(x.endswith('.pop') for x in A.callee_names(binop, n.ast.value)) \
                and isinstance(n.ast.targets[0], ast.Name):
            pops.append(n.ast.targets[0].id)
    apply_call = None
    for c in A.calls_in(binop):
        if isinstance(c.func, ast.Subscript) and len(c.args) == 2:
            apply_call = c
    if apply_call is None or len(pops) != 2:
        raise AnalysisError('VmMath.bin_op: shape not recognised')
    got = [norm(a) for a in apply_call.args]
    R.check(binop, apply_call, got == [pops[1], pops[0]],
            'operands are applied as (%s): the value popped first is the '
            'right-hand operand, so it must be the second argument'
            % ', '.join(got))
    # logical_op: both operands through bool(); AND -> and, else -> or
    lop = A.func(VMMATH, 'VmMath.logical_op')
    raw_pops = [c for c in A.calls_in(lop)
                if any(x.endswith('.pop') for x in A.callee_names(lop, c))]
    wrapped = [c for c in A.calls_in(lop) if norm(c.func) == 'bool'
               and c.args and c.args[0] in raw_pops]
    R.check(lop, 'bool(pop()) x2', len(raw_pops) == 2 and len(wrapped) == 2,
            'logical operands are not both coerced with bool(): numbers in a '
            'logical position would not count as false-when-zero')
    # per operator member: which boolean connective computes the result
    # (conditional expressions are if statements in the CFG)
    op_param = lop.params[1] if len(lop.params) > 1 else 'operator'
    ok = True
    seen_ops = {}
    for member, want in (('AND', ast.And), ('OR', ast.Or)):
        nodes = A.nodes_under(lop, {op_param: EnumVal('Operator', member)})
        kinds = set(type(x.op) for n in nodes if n.kind in ('stmt', 'return')
                    and n.ast is not None for e in n.exprs()
                    for x in ast.walk(e) if isinstance(x, ast.BoolOp))
        seen_ops[member] = sorted(k.__name__ for k in kinds)
        ok = ok and kinds == {want}
    if not any(seen_ops.values()):
        raise AnalysisError('VmMath.logical_op: no boolean connective found')
    R.check(lop, 'AND -> %s, OR -> %s' % (seen_ops['AND'], seen_ops['OR']), ok,
            'Operator.AND / OR are evaluated with the wrong connective')


@rule('R02.d', ('C02',), '[random a b] draws from the closed range a..b',
      floor=1, decides='a <= n <= b and every such n can occur')
def r02d(R):
    A = R.A
    f = A.func('bardolph.runtime.bardolph_math', 'random')
    params = f.params
    found = False
    for c in A.calls_in(f):
        site = A.rs.site_for(f, c)
        if site.kind != 'extern' or not site.recv_text.startswith('random'):
            continue
        found = True
        name = c.func.attr if isinstance(c.func, ast.Attribute) else norm(c.func)
        args = [norm(a) for a in c.args]
        if name == 'randint':
            ok = args == params
            msg = 'randint arguments are not (min, max)'
        elif name == 'randrange':
            ok = len(c.args) == 2 and args[0] == params[0] and \
                args[1].replace(' ', '') in (params[1] + '+1', '1+' + params[1])
            msg = ('random.randrange(a, b) is half-open: b itself can never '
                   'be drawn')
        else:
            ok, msg = False, 'unexpected random-module call %s' % name
        R.check(f, c, ok, msg)
    if not found:
        raise AnalysisError('bardolph_math.random: no call into the random '
                            'module found')


@rule('R02.g', ('C02',), 'a leading minus emits a negation on every path',
      floor=2, decides='a leading minus negates its operand')
def r02g(R):
    A = R.A
    for modname, fname in ((EXPR, 'ExpressionParser._atom'),
                           (PARSE, 'Parser._rvalue')):
        f = A.normalised(A.func(modname, fname))
        cfg = A.cfg(f)
        # the flag: a local assigned from a comparison with '-'
        flags = []
        for n in cfg.nodes:
            # flag = <...> == '-', possibly conjoined with a token-class test
            if n.kind == 'stmt' and isinstance(n.ast, ast.Assign) \
                    and isinstance(n.ast.targets[0], ast.Name) \
                    and any(isinstance(x, ast.Compare) and any(
                        isinstance(c, ast.Constant) and c.value == '-'
                        for c in x.comparators) for x in ast.walk(n.ast.value)):
                flags.append(n.ast.targets[0].id)
        if not flags:
            raise AnalysisError('%s: unary-minus flag not found' % f.short)
        flag = flags[0]
        neg_nodes = []
        for n in cfg.nodes:
            t = n.text()
            if n.kind == 'stmt' and isinstance(n.ast, ast.AugAssign) \
                    and isinstance(n.ast.op, ast.Mult) \
                    and A.try_fold(n.ast.value, f) == -1:
                neg_nodes.append(n)
            if n.kind == 'stmt' and isinstance(n.ast, ast.Assign) \
                    and isinstance(n.ast.value, ast.UnaryOp) \
                    and isinstance(n.ast.value.op, ast.USub):
                neg_nodes.append(n)
            for call, ops in A.emission_sites(f):
                if call in n.calls():
                    names = [op for op, _ in ops]
                    folded = [[A.try_fold(a, f) for a in args] for _, args in ops]
                    # PUSHQ -1 (followed by OP MUL, in the same call or the
                    # next one), or OP USUB
                    if ('PUSHQ' in names and [-1] in [x[:1] for x in folded]) \
                            or any(isinstance(v, EnumVal) and v.member == 'USUB'
                                   for x in folded for v in x):
                        neg_nodes.append(n)
        negset = [n for n in neg_nodes]

        def succ_ok(n):
            return n.is_return and A.ret_class(f, n)[0] != 'fail'

        # Path-sensitive search from the flag's definition with the flag
        # assumed True. Until the first next_token() on the path the current
        # token is '-', so tests of its text fold.
        from ..const import Ctx, fold as kfold, Unfoldable as U
        tok_texts = ['str(self.current_token)', 'str(self._current_token)',
                     'self.current_token.content',
                     'self._current_token.content']
        # locals assigned the token text before anything is consumed
        for n0 in walk_own(f.node):
            if isinstance(n0, ast.Assign) and isinstance(n0.targets[0], ast.Name) \
                    and norm(n0.value) in tok_texts:
                tok_texts.append(n0.targets[0].id)

        def on_node(n, facts):
            for c in n.calls():
                if any(x.endswith('.next_token') for x in A.callee_names(f, c)):
                    return frozenset(set(facts) | {('<consumed>', True,
                                                    frozenset())})
            return facts

        def decide(n, facts):
            if any(a == '<consumed>' for a, _t, _n in facts):
                return None
            ctx = Ctx(A.repo, f.module, f.cls,
                      subst={t: '-' for t in tok_texts})
            try:
                return bool(kfold(n.ast, ctx))
            except U:
                return None
        start = [n for n in cfg.nodes if n.kind == 'stmt'
                 and isinstance(n.ast, ast.Assign)
                 and isinstance(n.ast.targets[0], ast.Name)
                 and n.ast.targets[0].id == flag]
        nxt = [m for s0 in start for m, _l in s0.succs]
        from ..cfg import find_path_sensitive
        # flag = a and b and <text is '-'>: the flag being true makes every
        # conjunct true
        assume = {flag: True}
        for s0 in start:
            v = s0.ast.value
            if isinstance(v, ast.BoolOp) and isinstance(v.op, ast.And):
                for x in v.values:
                    if isinstance(x, ast.Name):
                        assume[x.id] = True
        p = find_path_sensitive(cfg, nxt, succ_ok, avoid=negset,
                                assume=assume, decide=decide,
                                on_node=on_node)
        R.check(f, 'unary minus flag `%s`' % flag,
                p is None and bool(neg_nodes),
                'with a leading minus the routine can succeed without '
                'emitting / applying a negation: -x would compile as x',
                path=path_text(p) if p else None)


def _tighter(a, b):
    """Documented grouping: operator a binds tighter than operator b."""
    ca = [i for i, c in enumerate(PREC_CLASSES) if a in c][0]
    cb = [i for i, c in enumerate(PREC_CLASSES) if b in c][0]
    return ca > cb


def _same_class(a, b):
    return any(a in c and b in c for c in PREC_CLASSES)


@rule('R02.f', ('C02',), 'precedence climbing: loop guards and the recursive '
      'call\'s minimum precedence, folded over the operator table, give the '
      'documented grouping', floor=14 * 14,
      decides='equal-precedence operators group left to right (^ right to '
              'left); a tighter operator to the right is reduced first; a '
              'looser or equal one is not swallowed by the recursion')
def r02f(R):
    A = R.A
    from ..const import Ctx, fold as kfold
    ex = A.func(EXPR, 'ExpressionParser._expression')
    prec_f = A.func(TOKEN, 'Token.prec')
    assoc_f = A.func(TOKEN, 'Token.assoc')
    whiles = [n for n in walk_own(ex.node) if isinstance(n, ast.While)]
    outer = [w for w in whiles if any(isinstance(x, ast.While) and x is not w
                                      for x in ast.walk(w))]
    inner = [w for w in whiles if w not in outer]
    if len(outer) != 1 or len(inner) != 1:
        raise AnalysisError('ExpressionParser._expression: loop structure changed')
    outer, inner = outer[0], inner[0]
    rec = [c for c in ast.walk(inner) if isinstance(c, ast.Call)
           and 'ExpressionParser._expression' in A.callee_names(ex, c)]
    if len(rec) != 1 or not rec[0].args:
        raise AnalysisError('ExpressionParser._expression: recursive call not found')
    arg = rec[0].args[0]
    min_param = ex.params[1]
    opv = [norm(n.targets[0]) for n in ast.walk(outer)
           if isinstance(n, ast.Assign) and norm(n.value) == 'self.current_token'
           and isinstance(n.targets[0], ast.Name)]
    if len(opv) != 1:
        raise AnalysisError('_expression: pending-operator local not found')
    OP = opv[0]
    syms = sorted(DOCUMENTED_BINOPS)
    prec, assoc = {}, {}
    for s in syms:
        prec[s] = A.peval(prec_f, {'self.content': s, 'self._content': s})
        assoc[s] = A.peval(assoc_f, {'self.content': s, 'self._content': s})

    def subst(cur, op=None, min_prec=None):
        d = {'self.current_token.prec': prec[cur],
             'self.current_token.assoc': assoc[cur],
             'self.current_token.is_binop': True}
        if op is not None:
            d[OP + '.prec'] = prec[op]
            d[OP + '.assoc'] = assoc[op]
        if min_prec is not None:
            d[min_param] = min_prec
        return d

    def ev(expr, d):
        return kfold(expr, Ctx(A.repo, ex.module, ex.cls, subst=d))

    for op in syms:
        for cur in syms:
            want_recurse = _tighter(cur, op) or (_same_class(cur, op)
                                                 and cur in RIGHT_ASSOC)
            try:
                g = bool(ev(inner.test, subst(cur, op)))
            except Unfoldable as e:
                raise AnalysisError('inner loop guard does not fold: %s' % e)
            ok = g == want_recurse
            msg = ''
            if not ok:
                msg = ('after `a %s b` a following %r must%s be reduced first, '
                       'but the inner loop guard says %s'
                       % (op, cur, '' if want_recurse else ' not', g))
            elif g:
                try:
                    m = ev(arg, subst(cur, op))
                except Unfoldable as e:
                    raise AnalysisError('recursive argument does not fold: %s' % e)
                # the recursion must consume `cur` ...
                takes_cur = bool(ev(outer.test, subst(cur, None, m)))
                # ... and must stop before any operator that should be applied
                # after `op` (looser than or equal to op and not right-grouping)
                swallowed = [y for y in syms
                             if not (_tighter(y, op) or (_same_class(y, op)
                                                         and y in RIGHT_ASSOC))
                             and bool(ev(outer.test, subst(y, None, m)))]
                ok = takes_cur and not swallowed
                if not takes_cur:
                    msg = ('the recursive call (min_prec %s) does not consume the '
                           'tighter operator %r' % (m, cur))
                elif swallowed:
                    msg = ('in `a %s b %s c %s d` the recursive call (min_prec %s) '
                           'also consumes %r, which must be applied after %r: '
                           'equal-precedence operators group right to left'
                           % (op, cur, swallowed[0], m, swallowed[0], op))
            R.check(ex, 'a %s b %s c' % (op, cur), ok, msg)
    # top level: expression() starts the climb at a minimum every binary
    # operator passes
    top = A.func(EXPR, 'ExpressionParser.expression')
    starts = [c for c in A.calls_in(top)
              if 'ExpressionParser._expression' in A.callee_names(top, c)]
    ok = len(starts) == 1 and starts[0].args and all(
        bool(ev(outer.test, subst(s, None, A.try_fold(starts[0].args[0], top))))
        for s in syms)
    R.check(top, 'top-level climb accepts every binary operator', ok,
            'expression() starts the climb with a minimum precedence that '
            'excludes some operator')


@rule('R02.h', ('C02', 'C06'), 'the value of an expression is delivered to '
      'where it is wanted: popped into a register / variable, or left on the '
      'evaluation stack for an enclosing expression', floor=4,
      decides='the same value results wherever the expression is used - as a '
              'condition, a right-hand side, an operand of another expression')
def r02h(R):
    A = R.A
    from ..const import EnumVal
    for fname in ('Parser._rvalue_expr', 'Parser._rvalue_not'):
        f = A.func(PARSE, fname)
        cfg = A.cfg(f)
        dest = f.params[1]
        pops = [n for n in cfg.nodes for c in n.calls()
                if isinstance(c.func, ast.Attribute) and c.func.attr == 'pop'
                and c.args and norm(c.args[0]) == dest]
        pops += [n for n in cfg.nodes for call, ops in A.emission_sites(f)
                 for o, a in ops if o == 'POP' and a and norm(a[0]) == dest
                 and n in A.node_of_call(f, call)]
        # wanted in a register: every successful path pops into it
        p = A.path_under(f, {dest: EnumVal('Register', 'HUE')},
                         A.success_return(f), avoid=pops)
        R.check(f, '%s: destination is a register -> POP <dest>' % fname.split('.')[1],
                bool(pops) and p is None,
                'the value computed by %s stays on the evaluation stack '
                'instead of being moved to its destination: a condition tests '
                'a stale result, an assignment stores nothing'
                % fname.split('.')[1], path=path_text(p) if p else None)
        # wanted on the stack (operand of an enclosing expression): no pop
        live = set(n.id for n in A.nodes_under(f, {dest: EnumVal('OpCode', 'PUSH')}))
        gone = [n for n in pops if n.id in live]
        R.check(f, '%s: destination is the stack -> value left there'
                % fname.split('.')[1], not gone,
                'when the value is an operand of an enclosing expression it '
                'is popped off the stack (into the pseudo destination PUSH) '
                'and lost: the outer operator runs on an empty stack and the '
                'machine stops')
