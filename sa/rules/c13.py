"""C13 - The light directory stays self-consistent over any discovery/expiry
history."""
import ast

from ..analysis import PROPERTY_TEXT, path_text, self_attr
from ..cfg import in_cycle
from ..index import AnalysisError, norm
from ..report import rule
from ..resolve import walk_own

LIGHTSET = 'bardolph.controller.light_set'
SORTED = 'bardolph.lib.sorted_list'

PROPERTY_TEXT['C13'] = (
    'the four directory containers (_lights, _light_names, _groups, '
    '_locations) are updated together: a discovered light is entered in all '
    'four on every pass, an expired light is removed from all four (R13.a); '
    'a membership update removes the light from every list of the dictionary '
    'before it inserts it, and lists that become empty are deleted (R13.b); '
    'nobody outside LightSet writes the containers, objects handed out by '
    'the getters are not mutated, and no raw list mutator touches a '
    'SortedList - only add/remove, which test presence and use bisect '
    '(R13.c); next/prev step strictly (R04.e); expiry removes lights whose '
    'age exceeds the configured maximum (R13.e); a failed discovery leaves '
    'the directory alone (R12.e).',
    'the invariant itself over histories; age arithmetic.')

CONTAINERS = ('_lights', '_light_names', '_groups', '_locations')
RAW_MUTATORS = ('append', 'extend', 'insert', 'sort', 'reverse', 'pop',
                '__setitem__', 'clear')


def container_effects(A, m):
    """[(cfg node, container, 'add'|'remove')] for a LightSet method."""
    out = []
    cfg = A.cfg(m)
    for n in cfg.nodes:
        for e in n.exprs():
            for sub in ast.walk(e):
                if isinstance(sub, ast.Subscript) and self_attr(sub.value) in CONTAINERS:
                    if isinstance(sub.ctx, ast.Store):
                        # `self._lights[k] = None` before the delete is a reset
                        parent_assign = n.ast if isinstance(n.ast, ast.Assign) else None
                        if parent_assign is not None and isinstance(
                                parent_assign.value, ast.Constant) and \
                                parent_assign.value.value is None:
                            continue
                        out.append((n, sub.value.attr, 'add'))
                    elif isinstance(sub.ctx, ast.Del):
                        out.append((n, sub.value.attr, 'remove'))
                if isinstance(sub, ast.Call) and isinstance(sub.func, ast.Attribute):
                    recv = self_attr(sub.func.value)
                    if recv in CONTAINERS and sub.func.attr in ('add', 'remove'):
                        out.append((n, recv, sub.func.attr))
                    names = A.callee_names(m, sub)
                    for a in sub.args:
                        if self_attr(a) in CONTAINERS:
                            if 'LightSet._update_memberships' in names:
                                out.append((n, a.attr, 'add'))
                            elif 'LightSet._remove_memberships' in names:
                                out.append((n, a.attr, 'remove'))
    return out


def _loop_of(cfg, node):
    """Innermost `for` header whose body contains node."""
    best = None
    for h in cfg.nodes:
        if h.kind != 'for':
            continue
        body = cfg.reachable_from([m for m, lab in h.succs if lab is True], avoid=[h])
        if node in body and (best is None or h in
                             cfg.reachable_from([m for m, lab in best.succs
                                                 if lab is True], avoid=[best])):
            best = h
    return best


@rule('R13.a', ('C13',), 'the four directory containers are updated together',
      floor=7,
      decides='the name list names exactly the known lights; every known '
              'light is listed under one group and one location; expiry '
              'removes a light with all its memberships')
def r13a(R):
    A = R.A
    ls = A.cls(LIGHTSET, 'LightSet')
    seen_add = seen_rm = False
    from ..inline import absorbed_helpers
    units = ('_update_memberships', '_remove_memberships')
    absorbed = absorbed_helpers(A, list(ls.methods.values()), units)
    for name, m in sorted(ls.methods.items()):
        if name == '__init__' or m in absorbed:
            continue
        m = A.normalised(m, units)   # an extracted per-light helper is part of it
        eff = container_effects(A, m)
        if not eff:
            continue
        cfg = A.cfg(m)
        for kind in ('add', 'remove'):
            touched = sorted(set(c for _n, c, k in eff if k == kind))
            if not touched:
                continue
            if kind == 'add':
                seen_add = True
            else:
                seen_rm = True
            missing = [c for c in CONTAINERS if c not in touched]
            R.check(m, '%s: %s' % (kind, ', '.join(touched)), not missing,
                    '%s %ss a light in %s but not in %s: the directory is no '
                    'longer consistent (a light that is listed but unknown, or '
                    'known but not listed)' % (name, kind, ', '.join(touched),
                                               ', '.join(missing)))
            # every pass that touches one touches all: within each loop the
            # effect nodes are executed unconditionally
            for n, c, k in eff:
                if k != kind:
                    continue
                h = _loop_of(cfg, n)
                if h is None:
                    R.fail(m, n.ast, '%s of %s is not inside the per-light loop'
                           % (kind, c))
                    continue
                body_in = [x for x, lab in h.succs if lab is True]
                p = cfg.find_path(body_in, lambda x: x is h, avoid=[n])
                if kind == 'add':
                    R.check(m, '%s %s on every pass' % (kind, c), p is None,
                            'a pass of the discovery loop can skip the update '
                            'of %s' % c, path=path_text(p) if p else None)
        # removal: memberships + bookkeeping under one condition, the final
        # removals driven by the list built there
        if any(k == 'remove' for _n, _c, k in eff) and name == '_garbage_collect':
            rm = [(n, c) for n, c, k in eff if k == 'remove']
            member_nodes = [n for n, c in rm if c in ('_groups', '_locations')]
            final_nodes = [n for n, c in rm if c in ('_lights', '_light_names')]
            appends = [n for n in cfg.nodes for c in n.calls()
                       if isinstance(c.func, ast.Attribute) and c.func.attr == 'append'
                       and isinstance(c.func.value, ast.Name)]
            ok = bool(appends)
            if ok:
                lst = norm([c for c in appends[0].calls()
                            if isinstance(c.func, ast.Attribute)
                            and c.func.attr == 'append'][0].func.value)
                h1 = _loop_of(cfg, member_nodes[0]) if member_nodes else None
                # same branch: each of the three is reached from the others
                # without going back to the loop head
                grp = member_nodes + [appends[0]]
                for a in grp:
                    for b in grp:
                        if a is b:
                            continue
                        fwd = b in cfg.reachable_from([a], avoid=[h1] if h1 else [])
                        bwd = a in cfg.reachable_from([b], avoid=[h1] if h1 else [])
                        if not (fwd or bwd):
                            ok = False
                # second loop iterates that list, removals unconditional
                h2s = [_loop_of(cfg, n) for n in final_nodes]
                ok = ok and all(h is not None and norm(h.ast.iter) == lst
                                for h in h2s)
                for n, h in zip(final_nodes, h2s):
                    if h is None:
                        continue
                    body_in = [x for x, lab in h.succs if lab is True]
                    if cfg.find_path(body_in, lambda x: x is h, avoid=[n]) is not None:
                        ok = False
            R.check(m, 'expiry: memberships, name and map removed for the same '
                    'lights', ok,
                    'the lights whose memberships are removed are not exactly '
                    'those removed from the name list and the map')
    if not (seen_add and seen_rm):
        raise AnalysisError('LightSet: add/remove sites not found')


@rule('R13.b', ('C13',), 'a membership update removes the light everywhere, '
      'then adds it; emptied lists are deleted', floor=5,
      decides='every light is listed under exactly the one group / location '
              'it last reported; member lists are never empty')
def r13b(R):
    A = R.A
    ls = A.cls(LIGHTSET, 'LightSet')
    up = ls.methods['_update_memberships']
    cfg = A.cfg(up)
    rm = A.calls_nodes(up, 'LightSet._remove_memberships')
    ins = [n for n in cfg.nodes if n.kind == 'stmt' and (
        (isinstance(n.ast, ast.Assign) and isinstance(n.ast.targets[0], ast.Subscript)
         and norm(n.ast.targets[0].value) == 'target_dict')
        or any(isinstance(c.func, ast.Attribute) and c.func.attr == 'add'
               and norm(c.func.value).startswith('target_dict[')
               for c in n.calls()))]
    ok = bool(rm and len(ins) == 2) and \
        cfg.find_path([cfg.entry], lambda n: n in ins, avoid=rm) is None
    R.check(up, '_remove_memberships(light, target_dict) before the insertion',
            ok, 'the light is added to its new group/location without first '
            'being removed from the old one: it is listed twice')
    if rm:
        c = [c for c in rm[0].calls()
             if 'LightSet._remove_memberships' in A.callee_names(up, c)][0]
        R.check(up, c, [norm(a) for a in c.args] == ['light', 'target_dict'],
                'the removal works on a different dictionary than the insertion')
    # both insertion forms and no path without one
    p = A.path_skipping(up, rm, ins, goal=[cfg.exit]) if rm else None
    R.check(up, 'insertion on every path', bool(ins) and p is None,
            'a light can end up in no group/location list',
            path=path_text(p) if p else None)
    # new list starts with exactly this light; existing list uses add()
    R.check(up, 'new list = SortedList(<light name>), else .add(<light name>)',
            any('SortedList(light.get_name())' in n.text() for n in ins)
            and any('.add(light.get_name())' in n.text() for n in ins),
            'the light is not inserted by name into a sorted list')
    rmf = ls.methods['_remove_memberships']
    rcfg = A.cfg(rmf)
    loops = [n for n in rcfg.nodes if n.kind == 'for']
    ok = False
    if len(loops) == 2:
        l1, l2 = loops
        ok = norm(l1.ast.iter) == 'target_dict.items()'
        removes = [n for n in rcfg.nodes for c in n.calls()
                   if isinstance(c.func, ast.Attribute) and c.func.attr == 'remove'
                   and norm(c.func.value) == norm(l1.ast.target.elts[1])]
        body_in = [x for x, lab in l1.succs if lab is True]
        ok = ok and bool(removes) and \
            rcfg.find_path(body_in, lambda x: x is l1, avoid=removes) is None
        empt = [n for n in rcfg.nodes if n.kind == 'cond'
                and A.emptiness(n.ast) is not None
                and A.emptiness(n.ast)[0] == norm(l1.ast.target.elts[1])]
        dels = [n for n in rcfg.nodes if n.kind == 'stmt'
                and isinstance(n.ast, ast.Delete)
                and norm(n.ast.targets[0]).startswith('target_dict[')]
        ok = ok and bool(empt and dels)
        early = [n for n in rcfg.reachable_from(body_in, avoid=[l1])
                 if n.is_return or (n.kind == 'stmt' and isinstance(n.ast, ast.Break))]
        ok = ok and not early
    R.check(rmf, 'visit every list, remove the light, delete the emptied lists',
            ok, '_remove_memberships does not visit every list of the '
            'dictionary, or leaves empty lists behind')


@rule('R13.c', ('C13',), 'who may mutate: the containers and the SortedLists '
      'are changed only by LightSet through add/remove', floor=6,
      decides='lists stay sorted and duplicate-free; nobody corrupts the '
              'directory from outside')
def r13c(R):
    A = R.A
    ls = A.cls(LIGHTSET, 'LightSet')
    sl = A.cls(SORTED, 'SortedList')
    # (i) containers written only inside LightSet
    outside = []
    for f in A.repo.all_functions():
        if f.cls is ls or f.module.name.startswith('bardolph.fakes'):
            continue
        for node in walk_own(f.node):
            if isinstance(node, ast.Attribute) and node.attr in CONTAINERS \
                    and not (isinstance(node.value, ast.Name)
                             and node.value.id == 'self' and f.cls is not None
                             and node.attr in f.cls.instance_attr_names()):
                types = A.rs.expr_types(node.value, f)
                if ls in types:
                    outside.append((f, node))
    R.check(ls, 'private containers not touched from outside (%d sites)'
            % len(outside), not outside,
            'the directory containers are accessed from outside LightSet (%s)'
            % (outside[0][0].short if outside else ''))
    # (ii) objects handed out by getters are not mutated by their users
    getters = ('get_light_names', 'get_group_lights', 'get_location_lights',
               'get_group_names', 'get_location_names')
    n_users = 0
    for f in A.repo.all_functions():
        if f.cls is ls or f.module.name.startswith('bardolph.fakes'):
            continue
        got = {}
        for node in walk_own(f.node):
            if isinstance(node, ast.Assign) and isinstance(node.value, ast.Call) \
                    and isinstance(node.value.func, ast.Attribute) \
                    and node.value.func.attr in getters \
                    and isinstance(node.targets[0], ast.Name):
                got[node.targets[0].id] = node.value.func.attr
        helper_ret = [c for c in A.calls_in(f)
                      if any(x in ('VmDiscover._set_by_oper',
                                   'VmDiscover._names_by_oper')
                             for x in A.callee_names(f, c))]
        for node in walk_own(f.node):
            if isinstance(node, ast.Assign) and node.value in helper_ret \
                    and isinstance(node.targets[0], ast.Name):
                got[node.targets[0].id] = 'helper'
        if not got:
            continue
        n_users += 1
        bad = []
        for node in walk_own(f.node):
            if isinstance(node, ast.Call) and isinstance(node.func, ast.Attribute) \
                    and isinstance(node.func.value, ast.Name) \
                    and node.func.value.id in got \
                    and node.func.attr in RAW_MUTATORS + ('add', 'remove'):
                bad.append(node)
            if isinstance(node, ast.Subscript) and isinstance(node.ctx, (ast.Store, ast.Del)) \
                    and isinstance(node.value, ast.Name) and node.value.id in got:
                bad.append(node)
        R.check(f, 'uses %s read-only' % ', '.join(sorted(set(got.values()))),
                not bad, 'a list handed out by the light set is mutated by its '
                'user (%s): the directory is corrupted behind LightSet\'s back'
                % (norm(bad[0]) if bad else ''))
    # (iii) raw list mutators never applied to a SortedList
    for f in list(A.repo.all_functions(LIGHTSET)) + list(A.repo.all_functions(SORTED)):
        if f.cls is sl and f.name == '__init__':
            continue
        for node in walk_own(f.node):
            recv = None
            what = None
            if isinstance(node, ast.Call) and isinstance(node.func, ast.Attribute) \
                    and node.func.attr in RAW_MUTATORS:
                recv, what = node.func.value, node.func.attr
            if isinstance(node, ast.Subscript) and isinstance(node.ctx, ast.Store):
                recv, what = node.value, 'item store'
            if isinstance(node, ast.AugAssign):
                recv, what = node.target, 'augmented assignment'
            if recv is None:
                continue
            sorted_recv = False
            if f.cls is sl and norm(recv) == 'self':
                sorted_recv = True
            if self_attr(recv) == '_light_names':
                sorted_recv = True
            if isinstance(recv, ast.Subscript) and norm(recv.value) in (
                    'target_dict', 'self._groups', 'self._locations'):
                sorted_recv = True
            if isinstance(recv, ast.Name) and recv.id == 'light_list':
                sorted_recv = True
            if sorted_recv:
                R.fail(f, node, 'raw list operation (%s) on a SortedList: order '
                       'or uniqueness is no longer guaranteed' % what)
    # add()/remove() themselves
    add = sl.methods['add']
    cfg = A.cfg(add)
    guard = [n for n in cfg.nodes if n.kind == 'cond'
             and 'SortedList._index_of' in [x for c in n.calls()
                                            for x in A.callee_names(add, c)]]
    ins = [n for n in cfg.nodes for c in n.calls()
           if norm(c.func) in ('bisect.insort', 'bisect.insort_left',
                               'bisect.insort_right')]
    ok = bool(guard and ins) and \
        cfg.find_path([cfg.entry], lambda n: n in ins, avoid=guard) is None
    R.check(add, 'add(): presence test, then bisect.insort', ok,
            'SortedList.add can insert a duplicate or insert without bisect')
    rm = sl.methods['remove']
    rcfg = A.cfg(rm)
    dels = [n for n in rcfg.nodes if n.kind == 'stmt' and isinstance(n.ast, ast.Delete)]
    tests = [n for n in rcfg.nodes if n.kind == 'cond' and 'is not None' in norm(n.ast)]
    rpos = [norm(n.targets[0]) for n in walk_own(rm.node)
            if isinstance(n, ast.Assign) and isinstance(n.value, ast.Call)
            and 'SortedList._index_of' in A.callee_names(rm, n.value)]
    R.check(rm, 'remove(): delete only the found position',
            len(dels) == 1 and bool(tests) and bool(rpos)
            and norm(dels[0].ast.targets[0]) == 'self[%s]' % rpos[0],
            'SortedList.remove deletes something other than the found element '
            'or raises for an absent value')
    io = sl.methods['_index_of']
    R.check(io, '_index_of uses bisect_left and verifies equality',
            any(norm(c.func) == 'bisect.bisect_left' for c in A.calls_in(io))
            and any(isinstance(n, ast.Compare) and isinstance(n.ops[0], ast.Eq)
                    and 'self[' in norm(n) and io.params[1] in norm(n)
                    for n in walk_own(io.node)),
            '_index_of can report a position that does not hold the value')
    if n_users < 3:
        raise AnalysisError('getter users: only %d' % n_users)


@rule('R13.e', ('C13',), 'expiry removes exactly the lights older than the '
      'configured age', floor=1,
      decides='expiry removes exactly the lights not seen for longer than the '
              'configured age')
def r13e(R):
    A = R.A
    gc = A.func(LIGHTSET, 'LightSet._garbage_collect')
    cfg = A.cfg(gc)
    tests = [n for n in cfg.nodes if n.kind == 'cond'
             and isinstance(n.ast, ast.Compare) and 'get_age()' in norm(n.ast)]
    ok = False
    if len(tests) == 1:
        c = tests[0].ast
        l, r = norm(c.left), norm(c.comparators[0])
        # the limit is the local that holds the light_gc_time setting
        src = [n for n in walk_own(gc.node) if isinstance(n, ast.Assign)
               and isinstance(n.targets[0], ast.Name)
               and "'light_gc_time'" in norm(n.value)]
        lim = norm(src[0].targets[0]) if len(src) == 1 else None
        ok = lim is not None and (
            (isinstance(c.ops[0], ast.Gt) and l.endswith('get_age()') and r == lim)
            or (isinstance(c.ops[0], ast.Lt) and r.endswith('get_age()') and l == lim))
    R.check(gc, tests[0].ast if tests else 'age test', ok,
            'expiry does not compare the light\'s age with the configured '
            'light_gc_time (age > max_age)')


@rule('R13.f', ('C13',), 'age = now - birth; refresh expires; stepping from '
      'an end of the list gives None', floor=4,
      decides='expiry removes exactly the lights not seen for longer than the '
              'configured age; stepping yields the nearest remaining name')
def r13f(R):
    A = R.A
    lt = A.cls('bardolph.controller.light', 'Light')
    ga = lt.methods['get_age']
    rets = [n for n in walk_own(ga.node) if isinstance(n, ast.Return) and n.value is not None]
    ok = len(rets) == 1 and isinstance(rets[0].value, ast.BinOp) \
        and isinstance(rets[0].value.op, ast.Sub) \
        and isinstance(rets[0].value.left, ast.Call) \
        and norm(rets[0].value.left.func) in ('time.time', 'clock.now', 'now') \
        and self_attr(rets[0].value.right) == '_birth'
    R.check(ga, 'get_age() = now - birth', ok,
            'a light\'s age is not "now minus the time it was last seen": '
            'every light looks ancient (all expire) or never ages')
    rf = A.func(LIGHTSET, 'LightSet.refresh')
    cfg = A.cfg(rf)
    gcs = A.calls_nodes(rf, 'LightSet._garbage_collect')
    p = cfg.find_path([cfg.entry], lambda n: n is cfg.exit, avoid=gcs) if gcs else []
    R.check(rf, 'refresh() -> _garbage_collect()', bool(gcs) and p is None,
            'the periodic refresh no longer expires lights that have vanished')
    sl = A.cls('bardolph.lib.sorted_list', 'SortedList')
    for mname, end in (('next', 'len(self)'), ('prev', '0')):
        m = sl.methods[mname]
        mcfg = A.cfg(m)
        # the element returned is indexed only when the position is inside
        idx = [n for n in mcfg.nodes if n.is_return and n.ret_expr is not None
               and isinstance(n.ret_expr, ast.Subscript)]
        # the position: the local bound to the bisect call
        pos = [norm(s.targets[0]) for s in walk_own(m.node)
               if isinstance(s, ast.Assign) and isinstance(s.value, ast.Call)
               and 'bisect' in norm(s.value.func)]
        ok = bool(idx) and len(pos) == 1
        for n in idx:
            facts = A.path_facts(m, n)
            alt = tuple(sorted((pos[0] if pos else 'pos', end)))
            ok = ok and any(t == '%s == %s' % alt and truth is False
                            for t, truth in facts)
        # a test of the list's length against a constant may only ask
        # "empty?" (in any notation): `len(self) <= 1` would treat a
        # one-element list as empty
        wrong_threshold = [t for t in mcfg.nodes if t.kind == 'cond'
                           and isinstance(t.ast, ast.Compare)
                           and any(norm(x) == 'len(self)' for x in
                                   [t.ast.left] + t.ast.comparators)
                           and any(isinstance(x, ast.Constant) for x in
                                   [t.ast.left] + t.ast.comparators)
                           and A.emptiness(t.ast) is None]
        R.check(m, 'SortedList.%s: None at the %s end, else the neighbour'
                % (mname, 'upper' if mname == 'next' else 'lower'),
                ok and not wrong_threshold,
                'SortedList.%s does not answer None exactly at the end of the '
                'list (or treats a one-element list as empty): an iteration '
                'loses a light or never ends' % mname)
