"""Definite initialisation: an attribute that is read has been given a value.

Every property quantifies over executions that start from freshly constructed
objects (a new Machine per job, a new Parser per compile, Light objects made
by discovery, the WebApp made at start-up). Reading an attribute that was
never stored raises AttributeError - in the VM that stops the script, in the
parser it escapes as a traceback instead of an accept / reject, in discovery
it escapes from `discover()`, in the web tier the request fails. The rule
below is the classic definite-assignment analysis, done on objects:

  * `ctor_defined(C)`: the attributes of self that are stored on *every* path
    through C's constructor (CFG must-analysis; calls to methods of self and
    to base-class constructors contribute what they must-define);
  * a load `self.x` in a method of C is fine when x is a method / property /
    class attribute, or x is in ctor_defined(C), or (template method) in
    ctor_defined(S) for every subclass S that inherits the method, or every
    path from the method's entry to the load passes a store of self.x;
  * a load `r.x` on another receiver whose inferred classes are all classes of
    this repository is reported only when *no class anywhere in the
    repository* gives x a value (the type inference may be imprecise, the
    absence of the name is not).

Registers are read by name (`getattr(self, reg.name.lower())`): every member
of the Register enum that any code mentions, or the lexer knows as a word,
must be constructor-defined, and the registers a script can name start at
zero ("Any uninitialized values default to zero", docs/language.rst).
"""
import ast

from ..analysis import PROPERTY_TEXT, self_attr  # noqa: F401
from ..const import EnumVal, Unfoldable
from ..index import AnalysisError, norm, _store_targets
from ..report import rule
from ..resolve import walk_own

MACHINE = 'bardolph.vm.machine'


def _both_views(f):
    """nodes of a function as written and as normalised (helpers expanded)"""
    yield from ast.walk(f.node)
    o = getattr(f, 'original_node', None)
    if o is not None and o is not f.node:
        yield from ast.walk(o)


def _self_stores(node):
    out = set()
    for n in ast.walk(node):
        for t in _store_targets(n):
            if isinstance(t, ast.Attribute) and isinstance(t.value, ast.Name) \
                    and t.value.id == 'self':
                out.add(t.attr)
    return out


_BUILTIN_ATTRS = set()
for _t in (str, bytes, list, dict, set, frozenset, tuple, int, float, complex,
           bool, type(None), range, type(iter([]))):
    _BUILTIN_ATTRS |= set(dir(_t))


class InitAnalysis:
    def __init__(self, A):
        self.A = A
        self.memo = {}
        self.node_stores = {}
        self.all_attr_stores = None
        self._mentions = None

    # ---- per CFG node: attributes of self certainly stored by the node
    def stores_of_nodes(self, f, depth=0):
        key = f
        if key in self.node_stores:
            return self.node_stores[key]
        A = self.A
        cfg = A.cfg(f)
        per = {}
        self.node_stores[key] = per
        for n in cfg.nodes:
            s = set()
            if n.ast is not None and isinstance(
                    n.ast, (ast.Assign, ast.AugAssign, ast.AnnAssign, ast.For,
                            ast.With)) and n.kind == 'stmt':
                if isinstance(n.ast, (ast.Assign, ast.AugAssign, ast.AnnAssign)):
                    s |= _self_stores(n.ast)
            for c in n.calls():
                fn = c.func
                if not isinstance(fn, ast.Attribute) or depth >= 4:
                    continue
                recv = fn.value
                is_self = isinstance(recv, ast.Name) and recv.id == 'self'
                is_super = isinstance(recv, ast.Call) and \
                    isinstance(recv.func, ast.Name) and recv.func.id == 'super'
                is_base = fn.attr == '__init__' and c.args and \
                    isinstance(c.args[0], ast.Name) and c.args[0].id == 'self'
                if is_self or is_super or is_base:
                    callees = [t for t in A.callees(f, c) if t.cls is not None]
                    if callees:
                        s |= set.intersection(*[
                            self.must_define(t, depth + 1) for t in callees])
            per[n.id] = s
        return per

    def must_define(self, f, depth=0):
        if f in self.memo:
            return self.memo[f]
        self.memo[f] = set()
        cfg = self.A.cfg(f)
        per = self.stores_of_nodes(f, depth)
        cand = set().union(*per.values()) if per else set()
        out = set()
        for a in cand:
            avoid = [n for n in cfg.nodes if a in per[n.id]]
            if cfg.find_path([cfg.entry], lambda n: n is cfg.exit,
                             avoid=avoid) is None:
                out.add(a)
        self.memo[f] = out
        return out

    def ctor_defined(self, cls):
        for c in cls.mro():
            if '__init__' in c.methods:
                return self.must_define(c.methods['__init__'])
        return set()

    @staticmethod
    def defined_otherwise(cls, attr):
        for c in cls.mro():
            if attr in c.methods or attr in c.class_attrs:
                return True
            if c.base_texts and not c.bases and c.base_texts != ['object']:
                return True            # external base: unknown members
        return False

    def stored_anywhere(self, attr, external_only=False):
        """is `<anything>.attr` stored, or attr a method / class attribute,
        anywhere in the repository? external_only: only stores through a
        receiver other than self (and setattr) count."""
        if self.all_attr_stores is None:
            names, ext = set(), set()
            for f in self.A.repo.all_functions():
                for n in _both_views(f):
                    for t in _store_targets(n):
                        if isinstance(t, ast.Attribute):
                            names.add(t.attr)
                            copies = isinstance(n, ast.Assign) and any(
                                isinstance(x, ast.Attribute) and x.attr == t.attr
                                and isinstance(x.ctx, ast.Load)
                                for x in ast.walk(n.value))
                            if not (isinstance(t.value, ast.Name)
                                    and t.value.id == 'self') and not copies:
                                ext.add(t.attr)
                    if isinstance(n, ast.Call) and isinstance(n.func, ast.Name) \
                            and n.func.id == 'setattr':
                        # setattr(self, reg.name.lower(), v) and the like
                        if not (n.args and isinstance(n.args[0], ast.Name)
                                and n.args[0].id == 'self'):
                            nm = self.A.try_fold(n.args[1], f) \
                                if len(n.args) > 1 else None
                            nm = nm if isinstance(nm, str) else '*'
                            names.add(nm)
                            ext.add(nm)
                if f.cls is not None:
                    names.add(f.name)
                    names.update(f.cls.class_attrs)
            self.all_attr_stores = names
            self.ext_attr_stores = ext
        return attr in (self.ext_attr_stores if external_only
                        else self.all_attr_stores)

    def dominated_by_store(self, f, node_ast, attr):
        cfg = self.A.cfg(f)
        per = self.stores_of_nodes(f)
        targets = [n for n in cfg.nodes if any(
            node_ast is x for e in n.exprs() for x in ast.walk(e))]
        if not targets:
            return False
        stores = [n for n in cfg.nodes if attr in per.get(n.id, ())
                  and n not in targets]
        if not stores:
            return False
        return cfg.find_path([cfg.entry], lambda n: n in targets,
                             avoid=stores) is None

    # ---- the checks
    def may_define(self, f, depth=0, seen=None):
        """attributes of self stored on *some* path through f (call tree on
        self / base constructors included)"""
        seen = seen if seen is not None else set()
        if f in seen or depth > 4:
            return set()
        seen.add(f)
        out = _self_stores(f.node)
        for c in self.A.calls_in(f):
            fn = c.func
            if not isinstance(fn, ast.Attribute):
                continue
            recv = fn.value
            is_self = isinstance(recv, ast.Name) and recv.id == 'self'
            is_super = isinstance(recv, ast.Call) and \
                isinstance(recv.func, ast.Name) and recv.func.id == 'super'
            is_base = fn.attr == '__init__' and c.args and \
                isinstance(c.args[0], ast.Name) and c.args[0].id == 'self'
            if is_self or is_super or is_base:
                for t in self.A.callees(f, c):
                    if t.cls is not None:
                        out |= self.may_define(t, depth + 1, seen)
        return out

    def ctor_may_define(self, cls):
        for c in cls.mro():
            if '__init__' in c.methods:
                return self.may_define(c.methods['__init__'])
        return set()

    def ctor_can_finish_without(self, cls, attr):
        """is there a path through the constructor that neither stores the
        attribute nor reads it (a read would already have faulted)?"""
        init = None
        for c in cls.mro():
            if '__init__' in c.methods:
                init = c.methods['__init__']
                break
        if init is None:
            return True
        cfg = self.A.cfg(init)
        per = self.stores_of_nodes(init)
        avoid = []
        for n in cfg.nodes:
            if attr in per.get(n.id, ()):
                avoid.append(n)
            elif any(isinstance(x, ast.Attribute) and x.attr == attr
                     and isinstance(x.ctx, ast.Load)
                     and isinstance(x.value, ast.Name) and x.value.id == 'self'
                     for e in n.exprs() for x in ast.walk(e)):
                avoid.append(n)
        return cfg.find_path([cfg.entry], lambda n: n is cfg.exit,
                             avoid=avoid) is not None

    def ctor_tree(self, cls):
        """functions the constructor of cls can reach through calls on self
        and base-constructor calls"""
        for c in cls.mro():
            if '__init__' in c.methods:
                seen = set()
                self.may_define(c.methods['__init__'], 0, seen)
                return seen
        return set()

    def stored_in_family(self, cls, attr):
        """is self.<attr> stored by a method an instance of cls can run?
        Constructors of other classes of the family that cls's own
        constructor never reaches do not count (a subclass constructor that
        skips super().__init__())."""
        tree = self.ctor_tree(cls)
        for c in cls.mro() + cls.all_subclasses():
            for m in c.methods.values():
                if m.name == '__init__' and m not in tree and c in cls.mro():
                    continue
                if attr in _self_stores(m.node):
                    return True
        return False

    def is_used(self, m):
        """is the method mentioned anywhere but in its own definition?"""
        if self._mentions is None:
            names = {}
            for f in self.A.repo.all_functions():
                for n in _both_views(f):
                    if isinstance(n, ast.Attribute):
                        names[n.attr] = names.get(n.attr, 0) + 1
                    elif isinstance(n, ast.Name):
                        names[n.id] = names.get(n.id, 0) + 1
            self._mentions = names
        if m.name.startswith('__') and m.name.endswith('__'):
            return True
        return self._mentions.get(m.name, 0) > 0

    @staticmethod
    def _later_operand(m, node):
        """is the load evaluated only if an earlier operand of the same
        and / or allowed it?"""
        for b in ast.walk(m.node):
            if isinstance(b, ast.BoolOp):
                for v in b.values[1:]:
                    if any(x is node for x in ast.walk(v)):
                        return True
            if isinstance(b, ast.IfExp):
                for v in (b.body, b.orelse):
                    if any(x is node for x in ast.walk(v)):
                        return True
        return False

    def self_loads(self, classes):
        """-> (examined, [(method, attr node, reason)], unclaimed count).
        A load is reported when the attribute is not constructor-defined, not
        stored on the way, and
          (a) nothing in the class family (nor any `x.attr = ...` elsewhere)
              ever stores it, or
          (b) the constructor stores it on some paths only, or
          (c) the load is in the constructor itself, before any store.
        An attribute that other methods store (start() / clear() / parse()
        protocols) is not claimed: whether those run first is a question
        about call orders across classes."""
        bad, examined, unclaimed = [], 0, 0
        for cls in classes:
            cd = self.ctor_defined(cls)
            for m in cls.methods.values():
                if m.is_static or not m.params or m.params[0] != 'self':
                    continue
                if m.name == '__repr__':
                    continue        # debug representation: no property reads it
                for node in walk_own(m.node):
                    if not (isinstance(node, ast.Attribute)
                            and isinstance(node.ctx, ast.Load)
                            and isinstance(node.value, ast.Name)
                            and node.value.id == 'self'):
                        continue
                    a = node.attr
                    examined += 1
                    if a.startswith('__') or self.defined_otherwise(cls, a):
                        continue
                    if m.name != '__init__' and a in cd:
                        continue
                    subs = [s for s in cls.all_subclasses()
                            if s.lookup(m.name) is m]
                    if m.name != '__init__' and subs and all(
                            a in self.ctor_defined(s)
                            or self.defined_otherwise(s, a) for s in subs):
                        continue
                    if self.dominated_by_store(m, node, a):
                        continue
                    if not self.is_used(m):
                        unclaimed += 1
                        continue
                    if not self.stored_in_family(cls, a) and not \
                            self.stored_anywhere(a, external_only=True) and \
                            not self.stored_anywhere('*', external_only=True):
                        bad.append((m, node, 'nothing ever stores it'))
                    elif m.name == '__init__':
                        if self._later_operand(m, node):
                            unclaimed += 1
                        else:
                            bad.append((m, node, 'the constructor reads it '
                                        'before storing it'))
                    elif a in self.ctor_may_define(cls):
                        if self.ctor_can_finish_without(cls, a):
                            bad.append((m, node, 'the constructor stores it '
                                        'on some paths only'))
                        else:
                            unclaimed += 1
                    else:
                        unclaimed += 1
        return examined, bad, unclaimed

    # ---- receiver types, with container elements (private to this rule:
    # the resolver's own inference is left as the other rules know it)
    def elem_types(self, cexpr, f, depth):
        """classes of the values kept in the container `self.<attr>`"""
        if not (isinstance(cexpr, ast.Attribute) and isinstance(cexpr.value, ast.Name)
                and cexpr.value.id == 'self' and getattr(f, 'cls', None)):
            return set()
        out = set()
        for c in f.cls.mro() + f.cls.all_subclasses():
            for m in c.methods.values():
                for n in walk_own(m.node):
                    if isinstance(n, ast.Assign):
                        for t in n.targets:
                            if isinstance(t, ast.Subscript) and \
                                    norm(t.value) == norm(cexpr):
                                out |= self.types_of(n.value, m, depth + 1)
                    if isinstance(n, ast.Call) and isinstance(n.func, ast.Attribute) \
                            and n.func.attr in ('append', 'add', 'appendleft') \
                            and norm(n.func.value) == norm(cexpr) and n.args:
                        out |= self.types_of(n.args[0], m, depth + 1)
        return out

    def types_of(self, expr, f, depth=0):
        A = self.A
        try:
            ts = set(t for t in A.rs.expr_types(expr, f) if hasattr(t, 'methods'))
        except Exception:               # noqa: BLE001
            ts = set()
        if ts or depth > 4:
            return ts
        if isinstance(expr, ast.Name):
            if expr.id in getattr(f, 'params', ()):
                try:
                    for a, caller in A.rs.param_args(f, expr.id):
                        ts |= self.types_of(a, caller, depth + 1)
                except Exception:           # noqa: BLE001
                    pass
            for n in walk_own(f.node):
                if isinstance(n, ast.Assign) and any(
                        isinstance(t, ast.Name) and t.id == expr.id
                        for t in n.targets):
                    ts |= self.types_of(n.value, f, depth + 1)
                if isinstance(n, ast.For) and isinstance(n.target, ast.Name) \
                        and n.target.id == expr.id:
                    it = n.iter
                    if isinstance(it, ast.Call) and isinstance(it.func, ast.Attribute) \
                            and it.func.attr == 'values':
                        it = it.func.value
                    ts |= self.elem_types(it, f, depth + 1)
        elif isinstance(expr, ast.Subscript):
            ts |= self.elem_types(expr.value, f, depth + 1)
        elif isinstance(expr, ast.Call):
            if norm(expr.func) in ('copy.copy', 'copy.deepcopy') and expr.args:
                ts |= self.types_of(expr.args[0], f, depth + 1)
            if isinstance(expr.func, ast.Attribute) and expr.func.attr in (
                    'get', 'pop', 'popleft'):
                ts |= self.elem_types(expr.func.value, f, depth + 1)
            for callee in A.callees(f, expr):
                for n in walk_own(callee.node):
                    if isinstance(n, ast.Return) and n.value is not None:
                        ts |= self.types_of(n.value, callee, depth + 1)
        return ts

    def other_loads(self, funcs):
        bad, examined = [], 0
        for f in funcs:
            for node in walk_own(f.node):
                if not (isinstance(node, ast.Attribute)
                        and isinstance(node.ctx, ast.Load)):
                    continue
                if isinstance(node.value, ast.Name) and node.value.id in (
                        'self', 'cls'):
                    continue
                ts = self.types_of(node.value, f)
                if not ts:
                    continue
                examined += 1
                a = node.attr
                if a.startswith('__') or a in _BUILTIN_ATTRS:
                    continue        # the inferred class may be wrong: a str /
                                    # list / dict method is no evidence
                if any(self.defined_otherwise(t, a) for t in ts):
                    continue
                if self.stored_anywhere(a) or self.stored_anywhere('*'):
                    continue
                bad.append((f, node, ts))
        return examined, bad


def _ia(A):
    if 'init_analysis' not in A._memo:
        A._memo['init_analysis'] = InitAnalysis(A)
    return A._memo['init_analysis']


def _init_rule(rid, props, prefixes, what, floor, consequence):
    @rule(rid, props, 'no attribute is read before the constructor (or the '
          'method itself) has given it a value (%s)' % what, floor=floor,
          decides='objects are complete when they are first used: %s'
                  % consequence)
    def _r(R):
        A = R.A
        ia = _ia(A)
        classes, funcs = [], []
        for mod in A.repo.modules.values():
            if any(mod.name.startswith(p) for p in prefixes):
                classes += list(mod.classes.values())
        for p in prefixes:
            funcs += list(A.repo.all_functions(p))
        examined, bad, unclaimed = ia.self_loads(classes)
        badm = set(m for m, _n, _w in bad)
        for cls in classes:
            for m in cls.methods.values():
                if m in badm:
                    continue
                loads = sorted(set(
                    n.attr for n in walk_own(m.node)
                    if isinstance(n, ast.Attribute) and isinstance(n.ctx, ast.Load)
                    and isinstance(n.value, ast.Name) and n.value.id == 'self'))
                if loads:
                    R.ok(m, 'self.{%s}' % ', '.join(loads))
        for m, node, why in bad:
            R.fail(m, 'self.%s' % node.attr,
                   'self.%s is read here, but %s does not give it a value on '
                   'every path and nothing on the way to this statement '
                   'stores it (%s): AttributeError (%s)' % (
                       node.attr, 'the constructor of %s' % m.cls.name, why,
                       consequence), line=node.lineno)
        ex2, bad2 = ia.other_loads(funcs)
        for f, node, ts in bad2:
            R.fail(f, norm(node), '%s is read on an object of %s, but no class '
                   'in the repository ever gives an attribute of that name a '
                   'value: AttributeError (%s)' % (
                       norm(node), '/'.join(sorted(t.name for t in ts)),
                       consequence), line=node.lineno)
        if examined + ex2 < floor:
            raise AnalysisError('%s: only %d attribute loads examined'
                                % (rid, examined + ex2))
    return _r


_init_rule('R03.f', ('C03', 'C01', 'C17', 'C19', 'C06'), ('bardolph.vm',),
           'virtual machine', 40,
           'the VM stops the script on the fault')
_init_rule('R06.n', ('C06', 'C04', 'C11', 'C20'),
           ('bardolph.parser', 'bardolph.lib.time_pattern',
            'bardolph.lib.symbol', 'bardolph.lib.symbol_table'),
           'compiler', 40,
           'the compiler ends in a traceback instead of accepting the text '
           'or rejecting it with a message')
_init_rule('R12.k', ('C12', 'C13', 'C01', 'C07', 'C15'),
           ('bardolph.controller.light', 'bardolph.controller.lifx_lan_light',
            'bardolph.controller.lifx_lan_api', 'bardolph.controller.light_set',
            'bardolph.controller.color_matrix', 'bardolph.controller.routine',
            'bardolph.controller.units'),
           'devices and the light directory', 40,
           'discovery raises, or a command to one light stops the script')
_init_rule('R18.e', ('C18', 'C20'), ('bardolph.controller.snapshot',),
           'snapshots', 10,
           'the capture / status page fails instead of describing the lights')
_init_rule('R20.l', ('C20', 'C09'), ('web',), 'web tier', 15,
           'the request ends in an error page instead of starting / stopping '
           'the script')
_init_rule('R08.i', ('C08', 'C09', 'C17'),
           ('bardolph.lib.job_control', 'bardolph.controller.script_job',
            'bardolph.lib.clock'), 'jobs and the clock', 15,
           'the job thread dies with the job table left as it was')


# ------------------------------------------------------------- registers
@rule('R01.m', ('C01', 'C19', 'C17', 'C06'), 'every register exists from the start '
      'and the registers a script can name start at zero', floor=20,
      decides='reading a register the script has not set yet gives the '
              'documented zero (no delay, colour 0, zone 0) and never stops '
              'the machine')
def r01m(R):
    A = R.A
    ia = _ia(A)
    regs = A.cls(MACHINE, 'Registers')
    init = regs.methods.get('__init__')
    if init is None:
        raise AnalysisError('Registers.__init__ not found')
    # name mapping used by get_by_enum / set_by_enum
    gbe = regs.methods.get('get_by_enum')
    lower = gbe is not None and 'name.lower()' in norm(gbe.node)
    if not lower:
        raise AnalysisError('Registers.get_by_enum no longer maps a member to '
                            'its lower-case name')
    members = A.cls('bardolph.vm.vm_codes', 'Register').enum_members()
    # members some code mentions, or the lexer accepts as a word
    mentioned = set()
    for f in A.repo.all_functions():
        for n in _both_views(f):
            if isinstance(n, ast.Attribute) and isinstance(n.value, ast.Name) \
                    and n.value.id == 'Register' and n.attr in members:
                mentioned.add(n.attr)
    lex = A.cls('bardolph.parser.lex', 'Lex')
    words = A.try_fold(lex.class_attrs.get('_REG_LIST'), lex) \
        if lex.class_attrs.get('_REG_LIST') is not None else None
    if not isinstance(words, (list, tuple)) or len(words) < 8:
        words = A.try_fold(lex.class_attrs['_REG'], lex)
        words = words.split() if isinstance(words, str) else None
    if not words:
        raise AnalysisError('Lex: register word list not found')
    mentioned |= set(w.upper() for w in words if w.upper() in members)
    defined = ia.must_define(init)
    for m in sorted(mentioned):
        R.check(init, 'Register.%s -> self.%s' % (m, m.lower()),
                m.lower() in defined,
                'the register %s is not created by Registers.__init__ on '
                'every path: the first instruction (or printf field) that '
                'reads it raises AttributeError and the machine stops'
                % m.lower())
    # documented start values of the registers a script can name
    values = {}
    for n in walk_own(init.node):
        if isinstance(n, ast.Assign):
            for t in n.targets:         # a = b = 0.0 assigns every target
                for tt in (t.elts if isinstance(t, (ast.Tuple, ast.List)) else [t]):
                    if self_attr(tt) and not isinstance(t, (ast.Tuple, ast.List)):
                        values.setdefault(tt.attr, []).append(n.value)
                    elif self_attr(tt) and isinstance(n.value, (ast.Tuple, ast.List)) \
                            and len(n.value.elts) == len(t.elts):
                        values.setdefault(tt.attr, []).append(
                            n.value.elts[t.elts.index(tt)])
    for w in sorted(words):
        if w == 'default':
            continue
        vs = [A.try_fold(v, init) for v in values.get(w, [])]
        ok = bool(vs) and all(isinstance(v, (int, float))
                              and not isinstance(v, bool) and v == 0 for v in vs)
        R.check(init, 'self.%s = %s' % (w, ', '.join(str(v) for v in vs)), ok,
                'the %s register does not start at zero: a script that reads '
                'it before setting it (or never sets `time` / `duration`) '
                'gets another value than the documented 0' % w)


# ------------------------------------------------------- key before default
import re as _re

_IDENT = _re.compile(r'^[A-Za-z_][A-Za-z0-9_\-]*$')
# settings whose value no property depends on (one line of reason each)
NOT_CLAIMED_KEYS = {
    'path_root': 'only the JavaScript variable of the pages',
    'refresh_sleep_time': 'how often the background re-discovery runs',
    'failure_sleep_time': 'how often the background re-discovery runs',
    'single_light_discover': 'whether the background re-discovery runs',
    'log_level': 'logging', 'log_to_console': 'logging',
    'log_file_name': 'logging', 'log_format': 'logging',
    'log_date_format': 'logging',
}


def _lookup_calls(A, prefixes):
    for p in prefixes:
        for f in A.repo.all_functions(p):
            for c in A.calls_in(f):
                if not isinstance(c.func, ast.Attribute) or c.keywords \
                        or len(c.args) != 2:
                    continue
                if c.func.attr not in ('get', 'get_value', 'setdefault', 'pop'):
                    continue
                callees = A.callees(f, c)
                if callees and not all(
                        len([q for q in t.params if q != 'self']) == 2
                        and t.node.args.defaults for t in callees):
                    continue            # a method of another shape
                yield f, c


def _lookup_rule(rid, props, prefixes, what, floor):
    @rule(rid, props, 'a look-up with a fallback names the key first and the '
          'fallback second (%s)' % what, floor=1,
          decides='settings, manifest entries and product features are read '
                  'under their own key: the fallback is used only when the '
                  'key is absent')
    def _r(R):
        A = R.A
        n = 0
        anchor = None
        for f, c in _lookup_calls(A, prefixes):
            n += 1
            anchor = anchor or f
            k, d = (A.try_fold(a, f) for a in c.args)
            why = None
            if any(isinstance(v, str) and v in NOT_CLAIMED_KEYS for v in (k, d)):
                continue
            k_const = isinstance(c.args[0], ast.Constant) or (
                k is not None and not isinstance(k, Unfoldable))
            if not (isinstance(c.args[1], ast.Constant) or (
                    d is not None and not isinstance(d, Unfoldable))):
                d = Unfoldable
            if k_const:
                if k is None or isinstance(k, bool):
                    why = 'the constant %r can never be a key' % (k,)
                elif isinstance(k, (int, float)) and isinstance(d, str):
                    why = ('the number %r is given as the key and the string '
                           '%r as the fallback' % (k, d))
                elif isinstance(k, str) and isinstance(d, str) \
                        and not _IDENT.match(k) and _IDENT.match(d):
                    why = ('%r is not a name, %r is: they are in each '
                           'other\'s place' % (k, d))
            if why:
                R.fail(f, c, 'key and fallback of this look-up are swapped '
                       '(%s): the fallback is returned whatever the mapping '
                       'holds' % why, line=c.lineno)
        if n < floor:
            raise AnalysisError('%s: only %d look-ups with a fallback found'
                                % (rid, n))
        R.ok(anchor, 'look-ups with a fallback examined: %d' % n)
    return _r


_lookup_rule('R20.m', ('C20', 'C09'), ('web',), 'web tier', 6)
_lookup_rule('R12.l', ('C12', 'C13', 'C15', 'C01'), ('bardolph.controller',),
             'devices and discovery', 6)
_lookup_rule('R03.g', ('C03', 'C01', 'C06'),
             ('bardolph.vm', 'bardolph.lib', 'bardolph.parser'),
             'VM, library and compiler', 4)


# ------------------------------------------------------------ DI wiring
def _requested_interfaces(A, f):
    out = set()
    for n in ast.walk(f.node):
        if isinstance(n, ast.Call) and n.args and \
                norm(n.func).split('.')[-1] in ('provide', 'inject'):
            r = A.repo.resolve_expr_static(f.module, n.args[0])
            if r is not None and hasattr(r, 'qualname'):
                out.add(r)
    return out


def _wiring_rule(rid, props, modname, fname, extra_roots, what):
    @rule(rid, props, 'every interface the code asks the injector for is '
          'bound by the start-up sequence (%s)' % what, floor=4,
          decides='the process that serves the requests / runs the script '
                  'can build its parser, machine, clock and light directory: '
                  'no UnboundException in the middle of a request or a run')
    def _r(R):
        A = R.A
        entry = A.func(modname, fname)
        kinds = ('call', 'property', 'spawn')
        reach = set(A.rs.reachable([entry], kinds=kinds))
        bound = {}
        for iface, _impl, _kind, f, _node in A.rs.bindings():
            if f in reach:
                bound.setdefault(iface, f)
        scope = set(reach)
        for p in extra_roots:
            scope |= set(A.rs.reachable(list(A.repo.all_functions(p)),
                                        kinds=kinds))
        need = {}
        for f in scope:
            for i in _requested_interfaces(A, f):
                need.setdefault(i, []).append(f)
        if len(need) < 4:
            raise AnalysisError('%s: only %d requested interfaces found'
                                % (rid, len(need)))
        for i, users in sorted(need.items(), key=lambda kv: kv[0].qualname):
            R.check(entry, '%s bound by %s' % (
                i.qualname, bound[i].short if i in bound else 'nothing'),
                i in bound,
                '%s (and %d more) ask the injector for %s, but nothing the '
                'start-up sequence %s reaches binds it: UnboundException when '
                'the first request / script gets there' % (
                    sorted(u.short for u in users)[0], len(users) - 1,
                    i.qualname, entry.short))
    return _r


_wiring_rule('R20.n', ('C20', 'C09'), 'web.web_module', 'configure', ('web',),
             'web server')
_wiring_rule('R01.n', ('C01', 'C12'), 'bardolph.controller.run', 'main', (),
             'lsrun')
