"""C08 - Queued jobs run one at a time, in order, exactly once, and the queue
drains."""
import ast

from ..analysis import PROPERTY_TEXT, path_text, self_attr
from ..cfg import reachable_without_edges
from ..index import AnalysisError, norm
from ..report import rule
from ..resolve import walk_own

JOBS = 'bardolph.lib.job_control'

PROPERTY_TEXT['C08'] = (
    'lock discipline of JobControl: the fields _queue, _active_agent and '
    '_background are mutated only while the controller lock is held, and read '
    'outside it only as one atomic read of one field (R08.a); every '
    'successful acquire is released exactly once on every exit, including '
    'exceptions (R08.b); queued agents are started at one site only, under '
    'the lock, guarded by "nothing active and queue not empty", and it is the '
    'agent just taken from the left end (R08.c); the completion callback runs '
    'in a finally and clears the active agent before starting the next '
    '(R08.d); background agents are registered before they start and removed '
    'under the lock (R08.e); add = right end, insert = left end (R08.f).',
    'ordering / exactly-once as properties of histories (model checking); '
    'behaviour when the 1-second lock timeout expires.')

MUTATORS = {'append', 'appendleft', 'pop', 'popleft', 'clear', 'remove',
            'extend', 'extendleft', 'insert', 'update', 'setdefault',
            'popitem', 'rotate'}


def guarded_fields(A):
    jc = A.cls(JOBS, 'JobControl')
    init = jc.methods['__init__']
    fields = []
    lock = None
    for node in walk_own(init.node):
        if isinstance(node, ast.Assign) and self_attr(node.targets[0]):
            name = node.targets[0].attr
            if 'Lock' in norm(node.value):
                lock = name
            else:
                fields.append(name)
    if lock is None:
        raise AnalysisError('JobControl.__init__: no lock attribute')
    return jc, fields, lock


def acquire_release(A, m, lock):
    """(acquire cond nodes, release nodes) of method m."""
    cfg = A.cfg(m)
    acq, rel = [], []
    for n in cfg.nodes:
        for c in n.calls():
            names = A.callee_names(m, c)
            t = norm(c.func)
            if 'JobControl._acquire_lock' in names or t == 'self.%s.acquire' % lock:
                if n.kind == 'cond':
                    acq.append(n)
                else:
                    acq.append(n)
            if 'JobControl._release_lock' in names or t == 'self.%s.release' % lock:
                rel.append(n)
    return acq, rel


def held_nodes(A, m, lock):
    """Node ids of m at which the lock is certainly held: reachable from the
    True edge of an acquire test without passing a release, and not reachable
    at all when those True edges are removed."""
    cfg = A.cfg(m)
    acq, rel = acquire_release(A, m, lock)
    acq_conds = [n for n in acq if n.kind == 'cond']
    if not acq_conds:
        return set()
    starts = [x for n in acq_conds for x, lab in n.succs if lab is True]
    inside = set(n.id for n in cfg.reachable_from(starts, avoid=rel))
    without = reachable_without_edges(cfg, cfg.entry,
                                      set((n.id, True) for n in acq_conds))
    return set(i for i in inside if i not in without)


def field_accesses(A, m, fields):
    """[(node, field, kind, construct)] kind in write/mutate/read/escape."""
    cfg = A.cfg(m)
    out = []
    for n in cfg.nodes:
        for e in n.exprs():
            stored = set()
            for sub in ast.walk(e):
                # self.F = / del self.F[..] / self.F[..] =
                if isinstance(sub, ast.Attribute) and self_attr(sub) in fields:
                    f = sub.attr
                    if isinstance(sub.ctx, (ast.Store, ast.Del)):
                        out.append((n, f, 'write', sub))
                        stored.add(id(sub))
                if isinstance(sub, ast.Subscript) and \
                        isinstance(sub.ctx, (ast.Store, ast.Del)) and \
                        self_attr(sub.value) in fields:
                    out.append((n, sub.value.attr, 'mutate', sub))
                    stored.add(id(sub.value))
                if isinstance(sub, ast.Call) and isinstance(sub.func, ast.Attribute) \
                        and self_attr(sub.func.value) in fields \
                        and sub.func.attr in MUTATORS:
                    out.append((n, sub.func.value.attr, 'mutate', sub))
                    stored.add(id(sub.func.value))
            for sub in ast.walk(e):
                if isinstance(sub, ast.Attribute) and self_attr(sub) in fields \
                        and isinstance(sub.ctx, ast.Load) and id(sub) not in stored:
                    # bound mutator handed away: self._queue.append as a value
                    out.append((n, sub.attr, 'read', sub))
            # escapes: `self._queue.append` used as an argument
            for sub in ast.walk(e):
                if isinstance(sub, ast.Call):
                    for a in list(sub.args) + [k.value for k in sub.keywords]:
                        if isinstance(a, ast.Attribute) and a.attr in MUTATORS \
                                and self_attr(a.value) in fields:
                            out.append((n, a.value.attr, 'escape', sub))
    return out


@rule('R08.a', ('C08', 'C09'), 'guarded-by: job-table fields are mutated only '
      'under the lock and read outside it only atomically', floor=14,
      decides='at most one queued job executes at any instant; no job is '
              'lost or started twice under any interleaving of the '
              'controller\'s statements')
def r08a(R):
    A = R.A
    jc, fields, lock = guarded_fields(A)
    inherits = lock_inheritors(A, jc, lock)
    _r08a_body(R, A, jc, fields, lock, inherits)


def lock_inheritors(A, jc, lock):
    # methods only ever called with the lock held inherit it
    held_callers = {}
    for m in jc.methods.values():
        hn = held_nodes(A, m, lock)
        cfg = A.cfg(m)
        for n in cfg.nodes:
            for c in n.calls():
                for t in A.callees(m, c):
                    if t.cls is jc:
                        held_callers.setdefault(t, []).append(n.id in hn)
    inherits = set()
    for t, flags in held_callers.items():
        external = [s for s in A.rs.callers(t)
                    if s.func.cls is not jc and s.kind in ('call', 'spawn')]
        if flags and all(flags) and not external and t.name.startswith('_'):
            inherits.add(t)
    return inherits


def _r08a_body(R, A, jc, fields, lock, inherits):
    for name, m in sorted(jc.methods.items()):
        if name == '__init__':
            continue
        hn = held_nodes(A, m, lock)
        acc = field_accesses(A, m, fields)
        if not acc:
            continue
        all_held = m in inherits
        unheld_reads = []
        for n, f, kind, construct in acc:
            is_held = all_held or n.id in hn
            if kind in ('write', 'mutate'):
                R.check(m, construct, is_held,
                        '%s of %s outside the controller lock: it races with '
                        'the check-then-pop in _run_next_job / the completion '
                        'callbacks (a job can be lost, started twice, or '
                        'popleft() can raise on an emptied queue)' % (kind, f),
                        line=getattr(construct, 'lineno', 0))
            elif kind == 'escape':
                # the bound mutator is invoked by the callee: that call site
                # must be under the lock
                ok = False
                for t in A.callees(m, construct):
                    thn = held_nodes(A, t, lock)
                    for tn in A.cfg(t).nodes:
                        for c in tn.calls():
                            if isinstance(c.func, ast.Name) and c.func.id in t.params:
                                ok = tn.id in thn
                R.check(m, construct, ok, 'a bound mutator of %s is handed to a '
                        'callee that invokes it without the lock' % f)
            else:
                if not is_held:
                    unheld_reads.append((n, f, construct))
        # a value read outside the lock must not decide anything inside it:
        # by the time the lock is held the field may have changed (job
        # finished in between -> nobody starts the job just queued)
        if hn and not all_held:
            for n, f, construct in unheld_reads:
                if not (n.kind == 'stmt' and isinstance(n.ast, ast.Assign)):
                    continue
                for t in n.ast.targets:
                    if not isinstance(t, ast.Name):
                        continue
                    stale = [h for h in A.cfg(m).nodes if h.id in hn
                             and h.ast is not None and any(
                                 isinstance(x, ast.Name) and x.id == t.id
                                 and isinstance(x.ctx, ast.Load)
                                 for e in h.exprs() for x in ast.walk(e))]
                    R.check(m, n.ast, not stale,
                            '%s is read into `%s` before the lock is taken and '
                            'that value is used while the lock is held (%s): '
                            'the decision is made on a stale value - a job '
                            'that finishes in between leaves the queue with '
                            'nobody to start the next one' % (
                                f, t.id, norm(stale[0].ast)[:60] if stale else ''),
                            line=n.ast.lineno)
        if unheld_reads:
            distinct_fields = set(f for _n, f, _c in unheld_reads)
            ok = len(unheld_reads) == 1
            R.check(m, 'unlocked reads: %s' % ', '.join(
                sorted('%s x%d' % (f, sum(1 for _n, g, _c in unheld_reads if g == f))
                       for f in distinct_fields)), ok,
                'outside the lock this method reads %s %d times / combines '
                'several fields: the value can change between the reads '
                '(check-then-use on an agent that has just finished raises '
                'AttributeError; a compound answer is inconsistent)'
                % (', '.join(sorted(distinct_fields)), len(unheld_reads)))
        elif acc and all(k == 'read' for _n, _f, k, _c in acc):
            R.ok(m, 'reads %s under the lock' % ', '.join(
                sorted(set(f for _n, f, _k, _c in acc))))


@rule('R08.b', ('C08',), 'every successful acquire is released exactly once on '
      'every exit (finally), never released unheld', floor=7,
      decides='the controller never deadlocks itself nor releases a lock it '
              'does not hold')
def r08b(R):
    A = R.A
    jc, fields, lock = guarded_fields(A)
    n_regions = 0
    for name, m in sorted(jc.methods.items()):
        if name in ('_acquire_lock', '_release_lock'):
            continue
        cfg = A.cfg(m)
        acq, rel = acquire_release(A, m, lock)
        if not acq and not rel:
            continue
        n_regions += 1
        conds = [n for n in acq if n.kind == 'cond']
        R.check(m, 'acquire result is tested', len(conds) == len(acq),
                'the result of _acquire_lock() is ignored: on a timeout the '
                'method proceeds without the lock')
        starts = [x for n in conds for x, lab in n.succs if lab is True]
        p = cfg.find_path(starts, lambda n: n in (cfg.exit, cfg.raise_exit),
                          avoid=rel)
        R.check(m, 'release on every exit', p is None,
                'the lock can stay held when this method leaves (%s)'
                % ('exception path' if p and p[-1] is cfg.raise_exit else 'return'),
                path=path_text(p) if p else None)
        # an exception raised while the lock is held must also release it:
        # every call made in the held region sits inside a try (exception
        # edges exist only there) whose finally releases
        hn = held_nodes(A, m, lock)
        naked = [n for n in cfg.nodes if n.id in hn and n not in rel
                 and n.calls() and not any(lab == 'exc' for _x, lab in n.succs)]
        R.check(m, 'held region is inside try/finally', not naked,
                'a call made while the lock is held is not covered by a '
                'try/finally: if it raises, the lock stays held and every '
                'later controller operation times out (%s)'
                % (naked[0].text() if naked else ''))
        # exactly once: no release reachable after a release without re-acquire
        twice = False
        for r in rel:
            after = cfg.reachable_from([x for x, _ in r.succs], avoid=conds)
            if any(x in after for x in rel):
                twice = True
        # never unheld: releases unreachable without the acquire True edge
        without = reachable_without_edges(
            cfg, cfg.entry, set((n.id, True) for n in conds))
        unheld = [r for r in rel if r.id in without]
        R.check(m, 'released exactly once, only when held',
                not twice and not unheld,
                'the lock is released twice or without having been acquired')
    a = jc.methods['_acquire_lock']
    cfg = A.cfg(a)
    tests = [n for n in cfg.nodes if n.kind == 'cond'
             and norm(n.ast).startswith('self.%s.acquire(' % lock)]
    if not tests:
        held = [norm(n.targets[0]) for n in walk_own(a.node)
                if isinstance(n, ast.Assign)
                and norm(n.value).startswith('self.%s.acquire(' % lock)
                and isinstance(n.targets[0], ast.Name)]
        tests = [n for n in cfg.nodes if n.kind == 'cond' and norm(n.ast) in held]
    ok = False
    if tests:
        t = tests[0]
        fa = cfg.reachable_from([x for x, lab in t.succs if lab is False], avoid=[t])
        tr = cfg.reachable_from([x for x, lab in t.succs if lab is True], avoid=[t])
        ok = all(A.ret_class(a, r)[0] == 'fail' for r in fa if r.is_return) and \
            all(A.ret_class(a, r)[0] == 'ok' for r in tr if r.is_return)
    R.check(a, '_acquire_lock() is truthy exactly when the lock was taken', ok,
            '_acquire_lock reports success without holding the lock (or the '
            'reverse)')
    if n_regions < 6:
        raise AnalysisError('only %d locked regions found' % n_regions)


@rule('R08.c', ('C08',), 'single start site for queued jobs: under the lock, '
      'guarded by "nothing active and queue not empty", left end', floor=5,
      decides='at most one queued job runs; jobs start in queue order; each '
              'exactly once')
def r08c(R):
    A = R.A
    jc, fields, lock = guarded_fields(A)
    agent_exec = A.func(JOBS, 'Agent.execute')
    sites = []
    for m in jc.methods.values():
        for n in A.cfg(m).nodes:
            for c in n.calls():
                if agent_exec in A.callees(m, c):
                    sites.append((m, n, c))
    run_next = jc.methods['_run_next_job']
    spawn = jc.methods['spawn_job']
    for m, n, c in sites:
        R.check(m, c, m in (run_next, spawn) and n.id in held_nodes(A, m, lock),
                'an agent is started outside _run_next_job / spawn_job or '
                'without the controller lock')
    cfg = A.cfg(run_next)
    starts = [(n, c) for m, n, c in sites if m is run_next]
    if len(starts) != 1:
        R.fail(run_next, 'Agent.execute()', '_run_next_job must start exactly '
               'one agent (found %d sites)' % len(starts))
        return
    sn, sc = starts[0]
    # guard: self._active_agent is None and len(self._queue) > 0
    conds = [n for n in cfg.nodes if n.kind == 'cond']
    none_t = [n for n in conds if norm(n.ast) == 'self._active_agent is None']
    nonempty = [n for n in conds if norm(n.ast).replace(' ', '') in
                ('len(self._queue)>0', 'self._queue', 'len(self._queue)!=0',
                 'len(self._queue)>=1')]
    ok = bool(none_t and nonempty)
    if ok:
        reach = reachable_without_edges(
            cfg, cfg.entry, {(none_t[0].id, True)})
        reach2 = reachable_without_edges(
            cfg, cfg.entry, {(nonempty[0].id, True)})
        ok = sn.id not in reach and sn.id not in reach2
    R.check(run_next, 'start guarded by: no active agent and queue not empty',
            ok, 'a queued job can be started while another one is active, or '
            'from an empty queue')
    # the started agent is the one just stored from popleft()
    stores = [n for n in cfg.nodes if n.kind == 'stmt'
              and isinstance(n.ast, ast.Assign)
              and self_attr(n.ast.targets[0]) == '_active_agent']
    ok = len(stores) == 1 and \
        norm(stores[0].ast.value) == 'self._queue.popleft()' and \
        norm(sc.func) == 'self._active_agent.execute' and \
        cfg.find_path([cfg.entry], lambda n: n is sn, avoid=stores) is None
    R.check(run_next, 'self._active_agent = self._queue.popleft(); '
            'self._active_agent.execute()', ok,
            'the agent started is not the one recorded as active, or it is '
            'not taken from the front of the queue')
    # who assigns _active_agent
    for m in jc.methods.values():
        for n in A.cfg(m).nodes:
            if n.kind == 'stmt' and isinstance(n.ast, ast.Assign) and \
                    self_attr(n.ast.targets[0]) == '_active_agent':
                v = norm(n.ast.value)
                if m.name == '__init__':
                    continue
                ok = (m is run_next and v == 'self._queue.popleft()') or \
                    (m.name == '_on_execution_done' and v == 'None')
                R.check(m, n.ast, ok, '_active_agent is assigned outside the '
                        'start site / completion callback')


@rule('R08.d', ('C08', 'C20'), 'the completion callback always fires and clears the '
      'active agent before starting the next job', floor=3,
      decides='a job that ends by raising does not hold up the jobs behind it; '
              'the queue drains')
def r08d(R):
    A = R.A
    f = A.func(JOBS, 'Agent._execute_and_call')
    cfg = A.cfg(f)
    job_nodes = [n for n in cfg.nodes for c in n.calls()
                 if norm(c.func) == 'self._job.execute']
    cb_nodes = [n for n in cfg.nodes for c in n.calls()
                if norm(c.func) == 'self._callback']
    ok = bool(job_nodes and cb_nodes)
    p = None
    if ok:
        p = cfg.find_path([m for n in job_nodes for m, _ in n.succs],
                          lambda n: n in (cfg.exit, cfg.raise_exit),
                          avoid=cb_nodes)
        # the exception edge of the job call itself must lead to the callback
        ok = p is None and all(any(lab == 'exc' for _m, lab in n.succs)
                               for n in job_nodes)
    R.check(f, 'callback in finally around job.execute()', ok,
            'when the job raises, the completion callback is skipped: the '
            'controller keeps believing the job is active and nothing behind '
            'it ever starts', path=path_text(p) if p else None)
    jc, fields, lock = guarded_fields(A)
    done = jc.methods['_on_execution_done']
    dcfg = A.cfg(done)
    clear = [n for n in dcfg.nodes if n.kind == 'stmt'
             and isinstance(n.ast, ast.Assign)
             and self_attr(n.ast.targets[0]) == '_active_agent'
             and norm(n.ast.value) == 'None']
    nxt = A.calls_nodes(done, 'JobControl._run_next_job')
    ok = bool(clear and nxt) and \
        dcfg.find_path([dcfg.entry], lambda n: n in nxt, avoid=clear) is None
    R.check(done, 'clear _active_agent, then _run_next_job()', ok,
            'the next job is started before (or without) clearing the active '
            'agent: _run_next_job sees an active agent and starts nothing')
    # callbacks are wired to the right completion handlers
    enq = jc.methods['_enqueue_job']
    spawn = jc.methods['spawn_job']
    wired = {}
    for m in (enq, spawn):
        for c in A.calls_in(m):
            if norm(c.func) == 'Agent' and len(c.args) >= 2:
                wired[m.name] = norm(c.args[1])
    R.check(jc, 'queued -> _on_execution_done, background -> _on_background_done',
            wired == {'_enqueue_job': 'self._on_execution_done',
                      'spawn_job': 'self._on_background_done'},
            'completion callbacks are wired to the wrong handler (%s)' % wired)


@rule('R08.e', ('C08',), 'background agents: registered under their name '
      'before they start; removed under the lock when done', floor=2,
      decides='background jobs are reported as running exactly while they '
              'execute and are forgotten when they end')
def r08e(R):
    A = R.A
    jc, fields, lock = guarded_fields(A)
    spawn = jc.methods['spawn_job']
    cfg = A.cfg(spawn)
    hn = held_nodes(A, spawn, lock)
    store = [n for n in cfg.nodes if n.kind == 'stmt'
             and isinstance(n.ast, ast.Assign)
             and isinstance(n.ast.targets[0], ast.Subscript)
             and self_attr(n.ast.targets[0].value) == '_background']
    start = A.calls_nodes(spawn, 'Agent.execute')
    agv = [norm(n.targets[0]) for n in walk_own(spawn.node)
           if isinstance(n, ast.Assign) and isinstance(n.value, ast.Call)
           and norm(n.value.func) == 'Agent' and isinstance(n.targets[0], ast.Name)]
    ok = bool(store and start and agv) and all(n.id in hn for n in store + start) and \
        cfg.find_path([cfg.entry], lambda n: n in start, avoid=store) is None and \
        norm(store[0].ast.targets[0].slice) == agv[0] + '.name' and \
        norm(store[0].ast.value) == agv[0]
    R.check(spawn, '_background[agent.name] = agent before agent.execute()', ok,
            'a background agent starts before it is registered: a fast job '
            'finishes first, the removal raises KeyError and the entry stays '
            'for ever')
    done = jc.methods['_on_background_done']
    dcfg = A.cfg(done)
    dh = held_nodes(A, done, lock)
    dparam = done.params[1]
    dels = [n for n in dcfg.nodes if n.kind == 'stmt'
            and isinstance(n.ast, ast.Delete)
            and norm(n.ast.targets[0]) == 'self._background[%s.name]' % dparam]
    R.check(done, 'del self._background[agent.name] under the lock',
            len(dels) >= 1 and all(n.id in dh for n in dels),
            'the finished background agent is not removed under the lock by '
            'its own name')


@rule('R08.f', ('C08',), 'queue discipline: add = right end, insert = left '
      'end, start = left end', floor=3,
      decides='jobs start in queue order, front-inserted ones first')
def r08f(R):
    A = R.A
    jc, fields, lock = guarded_fields(A)
    want = {'add_job': 'self._queue.append', 'insert_job': 'self._queue.appendleft'}
    for name, fn in sorted(want.items()):
        m = jc.methods[name]
        got = None
        for c in A.calls_in(m):
            if 'JobControl._enqueue_job' in A.callee_names(m, c) and len(c.args) > 1:
                got = norm(c.args[1])
        R.check(m, '_enqueue_job(job, %s, name)' % got, got == fn,
                '%s must enqueue with %s' % (name, fn))
    enq = jc.methods['_enqueue_job']
    cfg = A.cfg(enq)
    hn = held_nodes(A, enq, lock)
    app = [n for n in cfg.nodes for c in n.calls()
           if isinstance(c.func, ast.Name) and c.func.id == 'append_fn']
    nxt = A.calls_nodes(enq, 'JobControl._run_next_job')
    ok = bool(app and nxt) and all(n.id in hn for n in app) and \
        cfg.find_path([cfg.entry], lambda n: n in nxt, avoid=app) is None
    R.check(enq, 'append under the lock, then _run_next_job()', ok,
            'the agent is not queued (under the lock) before the controller '
            'tries to start the next job')


@rule('R08.h', ('C08', 'C09', 'C20'), 'a container whose bound mutator is taken '
      'before the lock is held keeps its identity (never re-bound)', floor=1,
      decides='a job accepted by add_job / insert_job is in the queue the '
              'controller runs from: it is not lost when the queue is cleared '
              'in between')
def r08h(R):
    A = R.A
    jc, fields, lock = guarded_fields(A)
    inherits = lock_inheritors(A, jc, lock)
    # a bound mutator taken before the lock is held addresses the container
    # object of that moment: the field must keep its identity for life
    rebinds, early_escapes = {}, {}
    for name, m in sorted(jc.methods.items()):
        if name == '__init__':
            continue
        hn = held_nodes(A, m, lock)
        for n, f, kind, construct in field_accesses(A, m, fields):
            if kind == 'write' and isinstance(construct, ast.Attribute) \
                    and isinstance(construct.ctx, ast.Store):
                rebinds.setdefault(f, []).append((m, n))
            if kind == 'escape' and not (m in inherits or n.id in hn):
                early_escapes.setdefault(f, []).append((m, construct))
    for f, sites in sorted(early_escapes.items()):
        for m, construct in sites:
            R.check(m, construct, f not in rebinds,
                    'the bound mutator of %s is taken before the lock is held, '
                    'and %s re-binds %s to a new container: a job queued '
                    'through the stale bound method lands in the discarded '
                    'container and is never run' % (
                        f, ', '.join(sorted(set(x.short for x, _n in
                                                rebinds.get(f, [])))), f))
    if not early_escapes:
        R.ok(jc.methods['__init__'], 'no bound mutator of a guarded container '
             'is taken outside the lock')
