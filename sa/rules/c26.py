"""Rules added after the eighth round of seeded changes."""
import ast

from ..analysis import PROPERTY_TEXT, path_text, self_attr  # noqa: F401
from ..const import EnumVal
from ..index import AnalysisError, norm, ClassInfo
from ..report import rule
from ..resolve import walk_own
from .c18 import is_html_escape

PARSE = 'bardolph.parser.parse'
VMMATH = 'bardolph.vm.vm_math'
LANAPI = 'bardolph.controller.lifx_lan_api'
LANLIGHT = 'bardolph.controller.lifx_lan_light'
LIGHTSET = 'bardolph.controller.light_set'
WEBAPP = 'web.web_app'


@rule('R04.o', ('C04', 'C02', 'C01'), 'a unary operator replaces the top of '
      'the evaluation stack: the depth is unchanged', floor=2,
      decides='`not x` / `-x` leave exactly their result: the names a '
              'light-iterating loop has pending below are not shifted')
def r04o(R):
    A = R.A
    f = A.func(VMMATH, 'VmMath.unary_op')
    op = f.params[1] if len(f.params) > 1 else 'operator'
    members = [m for m in A.cls('bardolph.vm.vm_codes', 'Operator').enum_members()
               if m in ('NOT', 'USUB', 'UADD', 'UMINUS')]
    if not members:
        raise AnalysisError('Operator: no unary member found')
    for m in members:
        nodes = A.nodes_under(f, {op: EnumVal('Operator', m)})
        net = 0
        calls = []
        for n in nodes:
            for c in n.calls():
                if isinstance(c.func, ast.Attribute) and 'stack' in norm(c.func.value):
                    if c.func.attr in ('push', 'append'):
                        net += 1
                        calls.append(norm(c)[:40])
                    elif c.func.attr in ('pop',):
                        net -= 1
                        calls.append(norm(c)[:40])
                    elif c.func.attr == 'replace_top':
                        calls.append(norm(c)[:40])
        R.check(f, 'Operator.%s: %s' % (m, '; '.join(calls) or 'nothing'),
                net == 0,
                'the unary operator %s changes the depth of the evaluation '
                'stack by %+d (its operand stays below the result): inside '
                '`repeat all ...` the next pass pops that stray value into '
                'the loop variable instead of the next name' % (m, net))


@rule('R11.n', ('C11', 'C06'), 'what the compiler takes for a time pattern '
      'is a TimePattern (a literal, or a macro that holds one) or nothing',
      floor=2,
      decides='`time at <name>` with a macro that holds a number or a string '
              'is rejected as an invalid time specification, not compiled '
              'into an instruction the VM faults on')
def r11n(R):
    A = R.A
    f = A.func(PARSE, 'Parser._current_time_pattern')
    cfg = A.cfg(f)
    n = 0
    for r in cfg.return_nodes():
        e = r.ret_expr
        if e is None or (isinstance(e, ast.Constant) and e.value is None):
            continue
        n += 1
        ok = False
        if isinstance(e, ast.Call) and 'TimePattern' in norm(e.func):
            ok = True
        elif isinstance(e, (ast.Name, ast.Attribute)):
            ok = any(truth and atom.replace(' ', '') == 'isinstance(%s,TimePattern)'
                     % norm(e) for atom, truth in A.path_facts(f, r))
        R.check(f, 'return %s' % norm(e)[:50], ok,
                '_current_time_pattern hands back `%s` without knowing that '
                'it is a TimePattern: a macro holding 5 or "12:00" is '
                'compiled into TIME_PATTERN INIT 5, and the VM stops with '
                '"\'int\' object has no attribute \'copy\'"' % norm(e)[:40],
                line=getattr(e, 'lineno', 0))
    if n < 2:
        raise AnalysisError('_current_time_pattern: only %d value returns' % n)


@rule('R12.m', ('C12', 'C13'), 'what discovery raises for a network fault is '
      'what the light directory catches', floor=1,
      decides='discovery never raises: a discovery that cannot complete '
              'reports failure and leaves the known lights in place')
def r12m(R):
    A = R.A
    gl = A.func(LANAPI, 'LifxLanApi.get_lights')
    raised = []
    for n in walk_own(gl.node):
        if isinstance(n, ast.Raise) and isinstance(n.exc, ast.Call):
            r = A.repo.resolve_expr_static(gl.module, n.exc.func)
            raised.append((n, r))
    caught = set()
    for fn in ('LightSet.discover',):
        d = A.func(LIGHTSET, fn)
        for n in walk_own(d.node):
            if isinstance(n, ast.ExceptHandler) and n.type is not None:
                for t in (n.type.elts if isinstance(n.type, ast.Tuple) else [n.type]):
                    r = A.repo.resolve_expr_static(d.module, t)
                    if isinstance(r, ClassInfo):
                        caught.add(r)
    if not raised:
        R.ok(gl, 'get_lights raises nothing of its own')
        return
    if not caught:
        R.fail(gl, 'LightSet.discover catches no exception class',
               'LightSet.discover has no handler for what get_lights raises: '
               'a network fault during discovery leaves discover() by an '
               'exception instead of returning False')
        return
    for n, r in raised:
        ok = isinstance(r, ClassInfo) and any(c in r.mro() for c in caught)
        R.check(gl, norm(n)[:60], ok,
                'get_lights converts the network error into %s, which '
                'LightSet.discover does not catch (%s): a light that does not '
                'answer during discovery makes discover() raise instead of '
                'returning False' % (
                    r.qualname if isinstance(r, ClassInfo) else norm(n.exc.func),
                    ', '.join(sorted(c.qualname for c in caught))),
                line=n.lineno)


@rule('R15.i', ('C15',), 'a matrix light takes its size from the chain entry '
      'the device names as its own (start_index)', floor=1,
      decides='rows and columns are those of the light itself: the whole '
              'matrix is transmitted with its real height and width')
def r15i(R):
    A = R.A
    f = A.func(LANLIGHT, 'MatrixLight._get_size')
    subs = [n for n in walk_own(f.node) if isinstance(n, ast.Subscript)
            and isinstance(n.value, ast.Attribute) and n.value.attr == 'tile_devices']
    if not subs:
        raise AnalysisError('_get_size: tile_devices[...] not found')
    for s in subs:
        idx = s.slice
        ok = isinstance(idx, ast.Attribute) and idx.attr == 'start_index' \
            and norm(idx.value) == norm(s.value.value)
        R.check(f, norm(s), ok,
                'the size is read from %s instead of the entry at the '
                'response\'s start_index: for a chained device whose own '
                'entry is not the first the light gets another tile\'s '
                'dimensions' % norm(s), line=s.lineno)


@rule('R16.l', ('C16',), 'an opening brace or bracket always starts a value, '
      'also where a register word would start the next command', floor=1,
      decides='curly braces round a single value and square brackets round a '
              'call are accepted wherever the bare value is (zone numbers, '
              'row / column bounds, the light of `get`)')
def r16l(R):
    A = R.A
    f = A.func(PARSE, 'Parser._at_rvalue')
    cfg = A.cfg(f)
    marks = [n for n in cfg.nodes if n.kind == 'cond' and any(
        isinstance(x, ast.Constant) and isinstance(x.value, str)
        and set(x.value) and set(x.value) <= set('{[') for x in ast.walk(n.ast))]
    if not marks:
        raise AnalysisError('_at_rvalue: test for { and [ not found')
    for n in marks:
        tgt = [m for m, lab in n.succs if lab is True]
        ok = bool(tgt) and all(
            m.is_return and isinstance(m.ret_expr, ast.Constant)
            and m.ret_expr.value is True for m in tgt)
        R.check(f, norm(n.ast), ok,
                'a { or [ is a value only under a further condition (%s): '
                '`zone {5}`, `row {0} {1}`, `get {who}` are rejected while '
                'the bare values are accepted' % (
                    norm(tgt[0].ret_expr) if tgt and tgt[0].is_return
                    and tgt[0].ret_expr is not None else 'another test'))


@rule('R20.q', ('C20',), 'the script table is keyed by the path the manifest '
      'lists - the string a request is looked up by', floor=1,
      decides='a request for path p starts the script the manifest lists for '
              'p and a request for any other path starts nothing, also when p '
              'contains &, <, > or quotes')
def r20q(R):
    A = R.A
    lm = A.func(WEBAPP, 'WebApp._load_manifest')
    stores = [n for n in walk_own(lm.node) if isinstance(n, ast.Assign)
              and any(isinstance(t, ast.Subscript) and self_attr(t.value) == '_scripts'
                      for t in n.targets)]
    if not stores:
        raise AnalysisError('_load_manifest: store into _scripts not found')
    for s in stores:
        for t in s.targets:
            if not (isinstance(t, ast.Subscript) and self_attr(t.value) == '_scripts'):
                continue
            key = t.slice
            binds = [b for b in walk_own(lm.node) if isinstance(b, ast.Assign)
                     and isinstance(key, ast.Name)
                     and any(isinstance(x, ast.Name) and x.id == key.id
                             for x in b.targets)]
            ok = isinstance(key, ast.Name) and bool(binds) and all(
                isinstance(b.value, ast.Call)
                and 'WebApp.get_script_path' in A.callee_names(lm, b.value)
                for b in binds)
            R.check(lm, norm(t), ok,
                    'the entry is filed under `%s`, not under the path the '
                    'manifest lists (get_script_path): an escaped or otherwise '
                    'derived key is not what get_script_control / stop_script '
                    'look the request path up by' % norm(key), line=s.lineno)


@rule('R05.k', ('C05', 'C03'), 'a routine definition is refused when the name '
      'being defined already names a routine', floor=1,
      decides='one body per routine name: every call leads to the body the '
              'source defines under that name')
def r05k(R):
    A = R.A
    f = A.func(PARSE, 'Parser._definition')
    defs = [c for c in A.calls_in(f)
            if 'Parser._routine_definition' in A.callee_names(f, c) and c.args]
    looks = [c for c in A.calls_in(f)
             if 'Context.get_routine' in A.callee_names(f, c) and c.args]
    if not defs or not looks:
        raise AnalysisError('_definition: routine definition / look-up not found')
    name = norm(defs[0].args[0])
    for c in looks:
        R.check(f, norm(c), norm(c.args[0]) == name,
                'the "Already defined" test looks up `%s`, not the name being '
                'defined (`%s`): a second `define %s ...` is accepted, the '
                'loader keeps the later body and earlier calls run it'
                % (norm(c.args[0]), name, name), line=c.lineno)


STACK = 'bardolph.vm.call_stack'


def _alias_or_fresh(e, param):
    """What `e` evaluates to when `param` is an EMPTY container (falsy, not
    None): 'alias' (the parameter object itself), 'fresh' (a new container)
    or None (unknown)."""
    def truth(t):
        if isinstance(t, ast.Name) and t.id == param:
            return False
        if isinstance(t, ast.UnaryOp) and isinstance(t.op, ast.Not):
            v = truth(t.operand)
            return None if v is None else not v
        if isinstance(t, ast.Compare) and len(t.ops) == 1 \
                and isinstance(t.left, ast.Name) and t.left.id == param \
                and isinstance(t.comparators[0], ast.Constant) \
                and t.comparators[0].value is None:
            if isinstance(t.ops[0], (ast.Is, ast.Eq)):
                return False
            if isinstance(t.ops[0], (ast.IsNot, ast.NotEq)):
                return True
        if isinstance(t, ast.Call) and norm(t.func) == 'len' and t.args \
                and isinstance(t.args[0], ast.Name) and t.args[0].id == param:
            return False
        if isinstance(t, ast.Compare) and len(t.ops) == 1 \
                and isinstance(t.left, ast.Call) and norm(t.left.func) == 'len' \
                and t.left.args and norm(t.left.args[0]) == param \
                and isinstance(t.comparators[0], ast.Constant):
            k = t.comparators[0].value
            op = t.ops[0]
            table = {ast.Eq: 0 == k, ast.NotEq: 0 != k, ast.Gt: 0 > k,
                     ast.GtE: 0 >= k, ast.Lt: 0 < k, ast.LtE: 0 <= k}
            return table.get(type(op))
        return None
    if isinstance(e, ast.Name):
        return 'alias' if e.id == param else None
    if isinstance(e, (ast.Dict, ast.List, ast.Set)):
        return 'fresh'
    if isinstance(e, ast.Call) and norm(e.func) in ('dict', 'list', 'set') \
            and not e.args:
        return 'fresh'
    if isinstance(e, ast.Call) and isinstance(e.func, ast.Attribute) \
            and e.func.attr == 'copy':
        return 'fresh'
    if isinstance(e, ast.BoolOp):
        for i, v in enumerate(e.values):
            last = i == len(e.values) - 1
            tv = truth(v)
            if last:
                return _alias_or_fresh(v, param)
            if tv is None:
                return None
            if isinstance(e.op, ast.Or) and tv:
                return _alias_or_fresh(v, param)
            if isinstance(e.op, ast.And) and not tv:
                return _alias_or_fresh(v, param)
        return None
    if isinstance(e, ast.IfExp):
        tv = truth(e.test)
        if tv is None:
            return None
        return _alias_or_fresh(e.body if tv else e.orelse, param)
    return None


@rule('R03.h', ('C03', 'C17'), 'the frames of a run do not share the '
      'dictionary the CONSTANT instructions fill', floor=1,
      decides='a parameter or local hides a name that a later `define` gives '
              'a constant: the look-up chain of a frame starts with its '
              'constants, so they must stay empty of run-time definitions')
def r03h(R):
    A = R.A
    rs = A.func(STACK, 'CallStack.reset')
    sf = A.cls(STACK, 'StackFrame')
    # only relevant while constants come first in the look-up chain
    gv = sf.methods['get_variable']
    chain = []
    for node in walk_own(gv.node):
        if isinstance(node, ast.For) and isinstance(node.iter, (ast.Tuple, ast.List)):
            chain = [self_attr(e) for e in node.iter.elts]
    if not chain:
        raise AnalysisError('StackFrame.get_variable: look-up chain not found')
    if 'constants' not in chain or chain.index('constants') > chain.index('vars'):
        R.ok(gv, 'variables are looked up before constants')
        return
    param = rs.params[1] if len(rs.params) > 1 else 'constants'
    stores = [n for n in walk_own(rs.node) if isinstance(n, ast.Assign)
              and any(isinstance(t, ast.Attribute) and t.attr == 'constants'
                      for t in n.targets)]
    if not stores:
        raise AnalysisError('CallStack.reset: store of the constants not found')
    for s in stores:
        verdict = _alias_or_fresh(s.value, param)
        R.check(rs, norm(s)[:70], verdict == 'fresh',
                'when the machine hands over its (empty) constants dictionary, '
                'the root frame keeps that very object (%s): every `define` '
                'executed later becomes visible to all frames, and since '
                'constants are looked up first a parameter or local spelled '
                'like a later constant reads the constant - arguments are '
                'ignored, recursion on the parameter does not end'
                % (verdict or 'cannot be decided'), line=s.lineno)


# ---------------------------------------------------------------- R01.o
def _tri(A, f, e, env):
    """Three-valued truth of `e` when the locals in `env` (name -> value)
    are known: True / False / None (unknown). `or` is true as soon as one
    operand is known true, `and` false as soon as one is known false."""
    if isinstance(e, ast.BoolOp):
        vals = [_tri(A, f, v, env) for v in e.values]
        if isinstance(e.op, ast.Or):
            if any(v is True for v in vals):
                return True
            return False if all(v is False for v in vals) else None
        if any(v is False for v in vals):
            return False
        return True if all(v is True for v in vals) else None
    if isinstance(e, ast.UnaryOp) and isinstance(e.op, ast.Not):
        v = _tri(A, f, e.operand, env)
        return None if v is None else not v
    if isinstance(e, ast.Compare) and len(e.ops) == 1:
        sides = []
        for s in (e.left, e.comparators[0]):
            if isinstance(s, ast.Name) and s.id in env:
                sides.append(env[s.id])
            else:
                v = A.try_fold(s, f)
                if not isinstance(v, EnumVal):
                    return None
                sides.append(v)
        same = sides[0] == sides[1]
        if isinstance(e.ops[0], (ast.Is, ast.Eq)):
            return same
        if isinstance(e.ops[0], (ast.IsNot, ast.NotEq)):
            return not same
    return None


@rule('R01.o', ('C01', 'C03'), 'a constant right-hand side is always moved '
      'to its destination', floor=1,
      decides='an assignment / register setting whose value is a literal '
              'takes effect whatever the literal is spelled like (no '
              'identity or equality test against the destination can skip it)')
def r01o(R):
    A = R.A
    f = A.func(PARSE, 'Parser._rvalue')
    cfg = A.cfg(f)
    marks = []      # (node, local) storing OpCode.MOVEQ: "the value is a constant"
    for n in cfg.nodes:
        if n.kind == 'stmt' and isinstance(n.ast, ast.Assign) \
                and len(n.ast.targets) == 1 \
                and isinstance(n.ast.targets[0], ast.Name):
            v = A.try_fold(n.ast.value, f)
            if isinstance(v, EnumVal) and v.enum == 'OpCode' and v.member == 'MOVEQ':
                marks.append((n, n.ast.targets[0].id))
    if not marks:
        raise AnalysisError('Parser._rvalue: no local marks the value as a '
                            'constant (X = OpCode.MOVEQ)')
    emits = set()
    for n in cfg.nodes:
        for c in n.calls():
            if isinstance(c.func, ast.Attribute) and c.func.attr in (
                    'add_instruction', 'push', 'pushq', 'add_list'):
                emits.add(n.id)
    for mark, local in marks:
        env = {local: EnumVal('OpCode', 'MOVEQ')}
        prev = {}
        todo = []
        for m, _l in mark.succs:
            prev[m.id] = None
            todo.append(m)
        found = None
        byid = {n.id: n for n in cfg.nodes}
        while todo and found is None:
            n = todo.pop(0)
            if n.id in emits:
                continue
            if n.is_return:
                if A.ret_class(f, n)[0] != 'fail':
                    found = n
                continue
            want = _tri(A, f, n.ast, env) if n.kind == 'cond' else None
            # the marker is re-assigned: this path no longer carries a constant
            if n.kind == 'stmt' and isinstance(n.ast, ast.Assign) and any(
                    isinstance(t, ast.Name) and t.id == local
                    for t in n.ast.targets) and n is not mark:
                continue
            for m, lab in n.succs:
                if m.id in prev:
                    continue
                if want is not None and lab in (True, False) and lab is not want:
                    continue
                prev[m.id] = n.id
                todo.append(m)
        path = None
        if found is not None:
            path = []
            cur = found.id
            while cur is not None:
                path.append(byid[cur])
                cur = prev[cur]
            path.reverse()
        R.check(f, '%s = MOVEQ -> emission' % local, found is None,
                'a literal right-hand side can be accepted without any '
                'instruction being emitted for it (the skip test compares the '
                'value with the destination: `assign a "a"` leaves a unchanged)',
                path=path_text(path) if path else None, line=mark.lineno
                if hasattr(mark, 'lineno') else None)


# ---------------------------------------------------------------- R13.h
SETTINGS = 'bardolph.lib.settings'


@rule('R13.h', ('C13', 'C12'), 'a configured value is returned whenever the '
      'key is present: the default stands in for a missing key only',
      floor=3,
      decides='a configured age / interval of 0 (or a flag set to False) is the one '
              'the directory uses; it is not replaced by the built-in default')
def r13h(R):
    from ..const import Unfoldable
    A = R.A
    f = A.func(SETTINGS, 'Settings.get_value')
    if len(f.params) < 3:
        raise AnalysisError('Settings.get_value: (self, name, default) expected')
    name, default = f.params[1], f.params[2]
    store = None
    for n in walk_own(f.node):
        if isinstance(n, ast.Attribute) and isinstance(n.value, ast.Name) \
                and n.value.id == 'self':
            store = norm(n)
            break
    if store is None:
        raise AnalysisError('Settings.get_value: the configuration store is '
                            'not read')
    for label, value in (('0', 0), ('False', False)):
        try:
            got = A.peval(f, {store: {'k': value}, name: 'k', default: 'D'})
        except Unfoldable as ex:
            raise AnalysisError('Settings.get_value does not evaluate for a '
                                'present key: %s' % ex)
        R.check(f, 'present key holding %s' % label,
                got == value and type(got) is type(value),
                'get_value answers %r for a key configured as %s: a falsy '
                'setting (light_gc_time 0) is replaced by the default'
                % (got, label))
    try:
        got = A.peval(f, {store: {}, name: 'k', default: 'D'})
    except Unfoldable as ex:
        raise AnalysisError('Settings.get_value does not evaluate for a '
                            'missing key: %s' % ex)
    R.check(f, 'missing key', got == 'D', 'get_value answers %r instead of '
            'the default for a key that is not configured' % (got,))


# ---------------------------------------------------------------- R08.j
def _within_lock(f, target):
    for w in walk_own(f.node):
        if isinstance(w, ast.With) and any(
                'lock' in norm(i.context_expr).lower() for i in w.items) \
                and any(sub is target for s in w.body for sub in ast.walk(s)):
            return True
    return False


@rule('R08.j', ('C08', 'C20'), 'a job controller shared through a class or '
      'module attribute is created once: at import, or under a lock', floor=2,
      decides='all requests reach the same queue: two first requests that '
              'race cannot each build their own controller and run two '
              'queued jobs at once')
def r08j(R):
    A = R.A
    seen = 0
    # class-body / module-level constructions run once, under the import lock
    for mod in A.repo.modules.values():
        if not (mod.name.startswith('bardolph.') or mod.name.startswith('web.')) \
                or '.fakes' in mod.name or 'tests' in mod.name:
            continue
        for st in ast.walk(mod.tree):
            if isinstance(st, ast.Call) and norm(st.func).split('.')[-1] == 'JobControl':
                seen += 1
    if not seen:
        raise AnalysisError('no JobControl construction found')
    for prefix in ('bardolph', 'web'):
        for f in A.repo.all_functions(prefix):
            if '.fakes' in f.module.name:
                continue
            for st in walk_own(f.node):
                if not isinstance(st, (ast.Assign, ast.AnnAssign)):
                    continue
                val = st.value
                if val is None or not any(
                        isinstance(c, ast.Call)
                        and norm(c.func).split('.')[-1] == 'JobControl'
                        for c in ast.walk(val)):
                    continue
                targets = st.targets if isinstance(st, ast.Assign) else [st.target]
                globs = set()
                for g in walk_own(f.node):
                    if isinstance(g, ast.Global):
                        globs |= set(g.names)
                for t in targets:
                    shared = False
                    if isinstance(t, ast.Name) and t.id in globs:
                        shared = True
                    if isinstance(t, ast.Attribute) and not (
                            isinstance(t.value, ast.Name)
                            and t.value.id in ('self',)):
                        shared = True       # Cls.attr / cls.attr / module.attr
                    # test-and-set: the store is conditioned on the same
                    # attribute / name being missing (creation on first use)
                    key = norm(t).split('.')[-1]
                    lazy = any(
                        isinstance(i, ast.If) and key in norm(i.test)
                        and any(sub is st for b in i.body + i.orelse
                                for sub in ast.walk(b))
                        for i in walk_own(f.node))
                    ok = not (shared and lazy) or _within_lock(f, st)
                    R.check(f, norm(st)[:70], ok,
                            'the shared controller `%s` is created on first '
                            'use without a lock: two threads that both find '
                            'it missing each build one, their jobs land in '
                            'different queues and run at the same time'
                            % norm(t), line=st.lineno)
    R.check(A.func('bardolph.controller.ls_module', 'LsModule.queue_script'),
            'JobControl constructions (%d)' % seen, True, '')


# ---------------------------------------------------------------- R19.j
STDOUT = 'bardolph.lib.std_out_output'


@rule('R19.j', ('C19',), 'the stdout sink writes the text it is handed, '
      'whole, on every path', floor=3,
      decides='every character a print / println / printf produces reaches '
              'stdout: the sink does not strip, cut or rewrite it')
def r19j(R):
    A = R.A
    f = A.func(STDOUT, 'StdOutOutput.out')
    if len(f.params) < 2:
        raise AnalysisError('StdOutOutput.out: (self, output) expected')
    param = f.params[1]
    # locals that hold the text unchanged: x = output / x = str(output)
    whole = {param}
    derived = {}
    for st in walk_own(f.node):
        if isinstance(st, ast.Assign) and len(st.targets) == 1 \
                and isinstance(st.targets[0], ast.Name):
            v = st.value
            if isinstance(v, ast.Name) and v.id in whole:
                whole.add(st.targets[0].id)
            elif isinstance(v, ast.Call) and norm(v.func) == 'str' \
                    and len(v.args) == 1 and isinstance(v.args[0], ast.Name) \
                    and v.args[0].id in whole:
                whole.add(st.targets[0].id)
            elif any(isinstance(x, ast.Name) and x.id in whole
                     for x in ast.walk(v)):
                derived[st.targets[0].id] = norm(v)

    def is_whole(e):
        if isinstance(e, ast.Name) and e.id in whole:
            return True
        return isinstance(e, ast.Call) and norm(e.func) == 'str' \
            and len(e.args) == 1 and is_whole(e.args[0])
    cfg = A.cfg(f)
    good = []
    prints = 0
    for n in cfg.nodes:
        for c in n.calls():
            if not (norm(c.func) in ('print', 'sys.stdout.write') and c.args):
                continue
            a = c.args[0]
            mentions = [x.id for x in ast.walk(a) if isinstance(x, ast.Name)
                        and (x.id in whole or x.id in derived)]
            if not mentions:
                continue
            prints += 1
            ok = is_whole(a)
            R.check(f, norm(c), ok,
                    'the sink writes `%s`, not the text it was handed: '
                    'characters of the output are dropped or rewritten on '
                    'the way to stdout (a format ending in two line breaks '
                    'loses one)' % (derived.get(mentions[0], norm(a))
                                    if isinstance(a, ast.Name) else norm(a)),
                    line=c.lineno)
            if ok:
                end = [k.value for k in c.keywords if k.arg == 'end']
                endv = A.try_fold(end[0], f) if end else None
                R.check(f, 'end of %s' % norm(c), norm(c.func) != 'print'
                        or endv == '', 'print() adds %r after the text: the '
                        'sink owes the line break to newline() / flush() only'
                        % ('\n' if not end else endv), line=c.lineno)
                good.append(n)
    if not prints:
        raise AnalysisError('StdOutOutput.out: no write of the text found')
    p = cfg.find_path([cfg.entry], lambda n: n is cfg.exit, avoid=good)
    R.check(f, 'entry -> write of the whole text -> exit', p is None,
            'out() can return without having written the text it was handed',
            path=path_text(p) if p else None)


# ---------------------------------------------------------------- R18.g
@rule('R18.g', ('C18', 'C13'), 'the directory files a light under the name '
      'the light reports, unchanged', floor=2,
      decides='a captured script names each light by get_name(); the VM finds '
              'it under exactly that text (labels with blanks at either end '
              'included)')
def r18g(R):
    A = R.A
    f = A.func(LIGHTSET, 'LightSet.discover')
    keys = []
    for st in walk_own(f.node):
        if isinstance(st, ast.Assign) and len(st.targets) == 1 \
                and isinstance(st.targets[0], ast.Subscript) \
                and self_attr(st.targets[0].value) \
                and 'light' in st.targets[0].value.attr:
            keys.append((st.targets[0].slice, st.lineno, norm(st.targets[0])))
        if isinstance(st, ast.Call) and isinstance(st.func, ast.Attribute) \
                and st.func.attr == 'add' and self_attr(st.func.value) \
                and 'name' in st.func.value.attr and st.args:
            keys.append((st.args[0], st.lineno, norm(st)))
    if not keys:
        raise AnalysisError('LightSet.discover: no store into the light table')

    def plain(e, depth=0):
        """e is <light>.get_name(), str() of it, or a local bound only to that."""
        if isinstance(e, ast.Call) and isinstance(e.func, ast.Attribute) \
                and e.func.attr == 'get_name' and not e.args:
            return True, None
        if isinstance(e, ast.Call) and norm(e.func) == 'str' and len(e.args) == 1:
            return plain(e.args[0], depth + 1)
        if isinstance(e, ast.Name) and depth < 4:
            vals = [s.value for s in walk_own(f.node)
                    if isinstance(s, ast.Assign) and any(
                        isinstance(t, ast.Name) and t.id == e.id for t in s.targets)]
            if not vals:
                return False, '%s (not bound here)' % e.id
            for v in vals:
                ok, why = plain(v, depth + 1)
                if not ok:
                    return False, why
            return True, None
        return False, norm(e)
    for e, line, text in keys:
        ok, why = plain(e)
        R.check(f, text, ok, 'the light is filed under `%s`, not under the '
                'name it reports: a captured script names it by get_name() '
                'and the look-up misses it, so replay skips the light' % why,
                line=line)


# ---------------------------------------------------------------- R16.m
TOKEN = 'bardolph.parser.token'
CLOCKMOD = 'bardolph.lib.clock'


@rule('R16.m', ('C16', 'C18', 'C19'), 'the text of a string token is its '
      'content, also when the content is empty', floor=2,
      decides='`""` compiles to the empty string wherever a string may '
              'stand, not to the name of the token class')
def r16m(R):
    from ..const import Unfoldable
    A = R.A
    f = A.func(TOKEN, 'Token.__str__')
    for label, content in (('empty', ''), ('one blank', ' ')):
        try:
            got = A.peval(f, {'self._token_type.has_string()': True,
                              'self._token_type.name': 'LITERAL_STRING',
                              'self._content': content,
                              'self.content': content})
        except Unfoldable as ex:
            raise AnalysisError('Token.__str__ does not evaluate for a '
                                'string token: %s' % ex)
        R.check(f, 'string token, content %s' % label, got == content,
                'str() of a string token whose content is %r gives %r: the '
                'parser builds string constants with str(token), so `""` '
                'compiles to that text' % (content, got))


# ---------------------------------------------------------------- R20.r
@rule('R20.r', ('C20',), 'manifest text is escaped for attribute positions '
      'too (quotes included)', floor=3,
      decides='a title / path / colour containing a quote character cannot '
              'close the attribute it is written into on the pages')
def r20r(R):
    A = R.A
    n = 0
    for f in A.repo.all_functions('web'):
        for c in A.calls_in(f):
            if not is_html_escape(f, c.func):
                continue
            n += 1
            q = [k.value for k in c.keywords if k.arg == 'quote']
            if len(c.args) > 1:
                q.append(c.args[1])
            val = A.try_fold(q[0], f, default='?') if q else True
            R.check(f, norm(c), val is True,
                    'html.escape is called with quote=%s: " and \' reach the '
                    'page unescaped, and the templates write these values '
                    'inside style="..." / id="..." attributes'
                    % (norm(q[0]) if q else 'True'), line=c.lineno)
    if not n:
        raise AnalysisError('no html.escape call found in web/')


# ---------------------------------------------------------------- R08.k
@rule('R08.k', ('C08', 'C09'), 'a stopped clock still wakes the thread that '
      'waits on it', floor=1,
      decides='a script stopped inside a timed wait returns from execute(): '
              'the completion callback runs and the queue moves on')
def r08k(R):
    A = R.A
    stop = A.func(CLOCKMOD, 'Clock.stop')
    run = A.func(CLOCKMOD, 'Clock.run')

    def wakes(f, c):
        return 'Clock.fire' in A.callee_names(f, c) or (
            isinstance(c.func, ast.Attribute) and c.func.attr == 'set'
            and 'event' in norm(c.func.value).lower())
    if any(wakes(stop, c) for c in A.calls_in(stop)):
        R.check(stop, 'stop() wakes the waiter', True, '')
        return
    cfg = A.cfg(run)
    fires = [n for n in cfg.nodes if any(wakes(run, c) for c in n.calls())]
    sleeps = [n for n in cfg.nodes if any(
        norm(c.func).split('.')[-1] == 'sleep' for c in n.calls())]
    if not fires or not sleeps:
        raise AnalysisError('Clock.run: sleep / fire not found')
    starts = [m for n in sleeps for m, _l in n.succs]
    p = cfg.find_path(starts, lambda n: n is cfg.exit, avoid=fires)
    R.check(run, 'sleep -> fire() before the ticker ends', p is None,
            'after its sleep the ticker can end without a tick, and stop() '
            'does not wake the waiter either: a script stopped inside a '
            'wait stays blocked in Clock.wait(), execute() never returns '
            'and the jobs behind it never start',
            path=path_text(p) if p else None)
