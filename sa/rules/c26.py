"""Rules added after the eighth round of seeded changes."""
import ast

from ..analysis import PROPERTY_TEXT, path_text, self_attr  # noqa: F401
from ..const import EnumVal
from ..index import AnalysisError, norm, ClassInfo
from ..report import rule
from ..resolve import walk_own

PARSE = 'bardolph.parser.parse'
VMMATH = 'bardolph.vm.vm_math'
LANAPI = 'bardolph.controller.lifx_lan_api'
LANLIGHT = 'bardolph.controller.lifx_lan_light'
LIGHTSET = 'bardolph.controller.light_set'
WEBAPP = 'web.web_app'


@rule('R04.o', ('C04', 'C02', 'C01'), 'a unary operator replaces the top of '
      'the evaluation stack: the depth is unchanged', floor=2,
      decides='`not x` / `-x` leave exactly their result: the names a '
              'light-iterating loop has pending below are not shifted')
def r04o(R):
    A = R.A
    f = A.func(VMMATH, 'VmMath.unary_op')
    op = f.params[1] if len(f.params) > 1 else 'operator'
    members = [m for m in A.cls('bardolph.vm.vm_codes', 'Operator').enum_members()
               if m in ('NOT', 'USUB', 'UADD', 'UMINUS')]
    if not members:
        raise AnalysisError('Operator: no unary member found')
    for m in members:
        nodes = A.nodes_under(f, {op: EnumVal('Operator', m)})
        net = 0
        calls = []
        for n in nodes:
            for c in n.calls():
                if isinstance(c.func, ast.Attribute) and 'stack' in norm(c.func.value):
                    if c.func.attr in ('push', 'append'):
                        net += 1
                        calls.append(norm(c)[:40])
                    elif c.func.attr in ('pop',):
                        net -= 1
                        calls.append(norm(c)[:40])
                    elif c.func.attr == 'replace_top':
                        calls.append(norm(c)[:40])
        R.check(f, 'Operator.%s: %s' % (m, '; '.join(calls) or 'nothing'),
                net == 0,
                'the unary operator %s changes the depth of the evaluation '
                'stack by %+d (its operand stays below the result): inside '
                '`repeat all ...` the next pass pops that stray value into '
                'the loop variable instead of the next name' % (m, net))


@rule('R11.n', ('C11', 'C06'), 'what the compiler takes for a time pattern '
      'is a TimePattern (a literal, or a macro that holds one) or nothing',
      floor=2,
      decides='`time at <name>` with a macro that holds a number or a string '
              'is rejected as an invalid time specification, not compiled '
              'into an instruction the VM faults on')
def r11n(R):
    A = R.A
    f = A.func(PARSE, 'Parser._current_time_pattern')
    cfg = A.cfg(f)
    n = 0
    for r in cfg.return_nodes():
        e = r.ret_expr
        if e is None or (isinstance(e, ast.Constant) and e.value is None):
            continue
        n += 1
        ok = False
        if isinstance(e, ast.Call) and 'TimePattern' in norm(e.func):
            ok = True
        elif isinstance(e, (ast.Name, ast.Attribute)):
            ok = any(truth and atom.replace(' ', '') == 'isinstance(%s,TimePattern)'
                     % norm(e) for atom, truth in A.path_facts(f, r))
        R.check(f, 'return %s' % norm(e)[:50], ok,
                '_current_time_pattern hands back `%s` without knowing that '
                'it is a TimePattern: a macro holding 5 or "12:00" is '
                'compiled into TIME_PATTERN INIT 5, and the VM stops with '
                '"\'int\' object has no attribute \'copy\'"' % norm(e)[:40],
                line=getattr(e, 'lineno', 0))
    if n < 2:
        raise AnalysisError('_current_time_pattern: only %d value returns' % n)


@rule('R12.m', ('C12', 'C13'), 'what discovery raises for a network fault is '
      'what the light directory catches', floor=1,
      decides='discovery never raises: a discovery that cannot complete '
              'reports failure and leaves the known lights in place')
def r12m(R):
    A = R.A
    gl = A.func(LANAPI, 'LifxLanApi.get_lights')
    raised = []
    for n in walk_own(gl.node):
        if isinstance(n, ast.Raise) and isinstance(n.exc, ast.Call):
            r = A.repo.resolve_expr_static(gl.module, n.exc.func)
            raised.append((n, r))
    caught = set()
    for fn in ('LightSet.discover',):
        d = A.func(LIGHTSET, fn)
        for n in walk_own(d.node):
            if isinstance(n, ast.ExceptHandler) and n.type is not None:
                for t in (n.type.elts if isinstance(n.type, ast.Tuple) else [n.type]):
                    r = A.repo.resolve_expr_static(d.module, t)
                    if isinstance(r, ClassInfo):
                        caught.add(r)
    if not raised:
        R.ok(gl, 'get_lights raises nothing of its own')
        return
    if not caught:
        R.fail(gl, 'LightSet.discover catches no exception class',
               'LightSet.discover has no handler for what get_lights raises: '
               'a network fault during discovery leaves discover() by an '
               'exception instead of returning False')
        return
    for n, r in raised:
        ok = isinstance(r, ClassInfo) and any(c in r.mro() for c in caught)
        R.check(gl, norm(n)[:60], ok,
                'get_lights converts the network error into %s, which '
                'LightSet.discover does not catch (%s): a light that does not '
                'answer during discovery makes discover() raise instead of '
                'returning False' % (
                    r.qualname if isinstance(r, ClassInfo) else norm(n.exc.func),
                    ', '.join(sorted(c.qualname for c in caught))),
                line=n.lineno)


@rule('R15.i', ('C15',), 'a matrix light takes its size from the chain entry '
      'the device names as its own (start_index)', floor=1,
      decides='rows and columns are those of the light itself: the whole '
              'matrix is transmitted with its real height and width')
def r15i(R):
    A = R.A
    f = A.func(LANLIGHT, 'MatrixLight._get_size')
    subs = [n for n in walk_own(f.node) if isinstance(n, ast.Subscript)
            and isinstance(n.value, ast.Attribute) and n.value.attr == 'tile_devices']
    if not subs:
        raise AnalysisError('_get_size: tile_devices[...] not found')
    for s in subs:
        idx = s.slice
        ok = isinstance(idx, ast.Attribute) and idx.attr == 'start_index' \
            and norm(idx.value) == norm(s.value.value)
        R.check(f, norm(s), ok,
                'the size is read from %s instead of the entry at the '
                'response\'s start_index: for a chained device whose own '
                'entry is not the first the light gets another tile\'s '
                'dimensions' % norm(s), line=s.lineno)


@rule('R16.l', ('C16',), 'an opening brace or bracket always starts a value, '
      'also where a register word would start the next command', floor=1,
      decides='curly braces round a single value and square brackets round a '
              'call are accepted wherever the bare value is (zone numbers, '
              'row / column bounds, the light of `get`)')
def r16l(R):
    A = R.A
    f = A.func(PARSE, 'Parser._at_rvalue')
    cfg = A.cfg(f)
    marks = [n for n in cfg.nodes if n.kind == 'cond' and any(
        isinstance(x, ast.Constant) and isinstance(x.value, str)
        and set(x.value) and set(x.value) <= set('{[') for x in ast.walk(n.ast))]
    if not marks:
        raise AnalysisError('_at_rvalue: test for { and [ not found')
    for n in marks:
        tgt = [m for m, lab in n.succs if lab is True]
        ok = bool(tgt) and all(
            m.is_return and isinstance(m.ret_expr, ast.Constant)
            and m.ret_expr.value is True for m in tgt)
        R.check(f, norm(n.ast), ok,
                'a { or [ is a value only under a further condition (%s): '
                '`zone {5}`, `row {0} {1}`, `get {who}` are rejected while '
                'the bare values are accepted' % (
                    norm(tgt[0].ret_expr) if tgt and tgt[0].is_return
                    and tgt[0].ret_expr is not None else 'another test'))


@rule('R20.q', ('C20',), 'the script table is keyed by the path the manifest '
      'lists - the string a request is looked up by', floor=1,
      decides='a request for path p starts the script the manifest lists for '
              'p and a request for any other path starts nothing, also when p '
              'contains &, <, > or quotes')
def r20q(R):
    A = R.A
    lm = A.func(WEBAPP, 'WebApp._load_manifest')
    stores = [n for n in walk_own(lm.node) if isinstance(n, ast.Assign)
              and any(isinstance(t, ast.Subscript) and self_attr(t.value) == '_scripts'
                      for t in n.targets)]
    if not stores:
        raise AnalysisError('_load_manifest: store into _scripts not found')
    for s in stores:
        for t in s.targets:
            if not (isinstance(t, ast.Subscript) and self_attr(t.value) == '_scripts'):
                continue
            key = t.slice
            binds = [b for b in walk_own(lm.node) if isinstance(b, ast.Assign)
                     and isinstance(key, ast.Name)
                     and any(isinstance(x, ast.Name) and x.id == key.id
                             for x in b.targets)]
            ok = isinstance(key, ast.Name) and bool(binds) and all(
                isinstance(b.value, ast.Call)
                and 'WebApp.get_script_path' in A.callee_names(lm, b.value)
                for b in binds)
            R.check(lm, norm(t), ok,
                    'the entry is filed under `%s`, not under the path the '
                    'manifest lists (get_script_path): an escaped or otherwise '
                    'derived key is not what get_script_control / stop_script '
                    'look the request path up by' % norm(key), line=s.lineno)


@rule('R05.k', ('C05', 'C03'), 'a routine definition is refused when the name '
      'being defined already names a routine', floor=1,
      decides='one body per routine name: every call leads to the body the '
              'source defines under that name')
def r05k(R):
    A = R.A
    f = A.func(PARSE, 'Parser._definition')
    defs = [c for c in A.calls_in(f)
            if 'Parser._routine_definition' in A.callee_names(f, c) and c.args]
    looks = [c for c in A.calls_in(f)
             if 'Context.get_routine' in A.callee_names(f, c) and c.args]
    if not defs or not looks:
        raise AnalysisError('_definition: routine definition / look-up not found')
    name = norm(defs[0].args[0])
    for c in looks:
        R.check(f, norm(c), norm(c.args[0]) == name,
                'the "Already defined" test looks up `%s`, not the name being '
                'defined (`%s`): a second `define %s ...` is accepted, the '
                'loader keeps the later body and earlier calls run it'
                % (norm(c.args[0]), name, name), line=c.lineno)


STACK = 'bardolph.vm.call_stack'


def _alias_or_fresh(e, param):
    """What `e` evaluates to when `param` is an EMPTY container (falsy, not
    None): 'alias' (the parameter object itself), 'fresh' (a new container)
    or None (unknown)."""
    def truth(t):
        if isinstance(t, ast.Name) and t.id == param:
            return False
        if isinstance(t, ast.UnaryOp) and isinstance(t.op, ast.Not):
            v = truth(t.operand)
            return None if v is None else not v
        if isinstance(t, ast.Compare) and len(t.ops) == 1 \
                and isinstance(t.left, ast.Name) and t.left.id == param \
                and isinstance(t.comparators[0], ast.Constant) \
                and t.comparators[0].value is None:
            if isinstance(t.ops[0], (ast.Is, ast.Eq)):
                return False
            if isinstance(t.ops[0], (ast.IsNot, ast.NotEq)):
                return True
        if isinstance(t, ast.Call) and norm(t.func) == 'len' and t.args \
                and isinstance(t.args[0], ast.Name) and t.args[0].id == param:
            return False
        if isinstance(t, ast.Compare) and len(t.ops) == 1 \
                and isinstance(t.left, ast.Call) and norm(t.left.func) == 'len' \
                and t.left.args and norm(t.left.args[0]) == param \
                and isinstance(t.comparators[0], ast.Constant):
            k = t.comparators[0].value
            op = t.ops[0]
            table = {ast.Eq: 0 == k, ast.NotEq: 0 != k, ast.Gt: 0 > k,
                     ast.GtE: 0 >= k, ast.Lt: 0 < k, ast.LtE: 0 <= k}
            return table.get(type(op))
        return None
    if isinstance(e, ast.Name):
        return 'alias' if e.id == param else None
    if isinstance(e, (ast.Dict, ast.List, ast.Set)):
        return 'fresh'
    if isinstance(e, ast.Call) and norm(e.func) in ('dict', 'list', 'set') \
            and not e.args:
        return 'fresh'
    if isinstance(e, ast.Call) and isinstance(e.func, ast.Attribute) \
            and e.func.attr == 'copy':
        return 'fresh'
    if isinstance(e, ast.BoolOp):
        for i, v in enumerate(e.values):
            last = i == len(e.values) - 1
            tv = truth(v)
            if last:
                return _alias_or_fresh(v, param)
            if tv is None:
                return None
            if isinstance(e.op, ast.Or) and tv:
                return _alias_or_fresh(v, param)
            if isinstance(e.op, ast.And) and not tv:
                return _alias_or_fresh(v, param)
        return None
    if isinstance(e, ast.IfExp):
        tv = truth(e.test)
        if tv is None:
            return None
        return _alias_or_fresh(e.body if tv else e.orelse, param)
    return None


@rule('R03.h', ('C03', 'C17'), 'the frames of a run do not share the '
      'dictionary the CONSTANT instructions fill', floor=1,
      decides='a parameter or local hides a name that a later `define` gives '
              'a constant: the look-up chain of a frame starts with its '
              'constants, so they must stay empty of run-time definitions')
def r03h(R):
    A = R.A
    rs = A.func(STACK, 'CallStack.reset')
    sf = A.cls(STACK, 'StackFrame')
    # only relevant while constants come first in the look-up chain
    gv = sf.methods['get_variable']
    chain = []
    for node in walk_own(gv.node):
        if isinstance(node, ast.For) and isinstance(node.iter, (ast.Tuple, ast.List)):
            chain = [self_attr(e) for e in node.iter.elts]
    if not chain:
        raise AnalysisError('StackFrame.get_variable: look-up chain not found')
    if 'constants' not in chain or chain.index('constants') > chain.index('vars'):
        R.ok(gv, 'variables are looked up before constants')
        return
    param = rs.params[1] if len(rs.params) > 1 else 'constants'
    stores = [n for n in walk_own(rs.node) if isinstance(n, ast.Assign)
              and any(isinstance(t, ast.Attribute) and t.attr == 'constants'
                      for t in n.targets)]
    if not stores:
        raise AnalysisError('CallStack.reset: store of the constants not found')
    for s in stores:
        verdict = _alias_or_fresh(s.value, param)
        R.check(rs, norm(s)[:70], verdict == 'fresh',
                'when the machine hands over its (empty) constants dictionary, '
                'the root frame keeps that very object (%s): every `define` '
                'executed later becomes visible to all frames, and since '
                'constants are looked up first a parameter or local spelled '
                'like a later constant reads the constant - arguments are '
                'ignored, recursion on the parameter does not end'
                % (verdict or 'cannot be decided'), line=s.lineno)
