"""C01 - Running a script issues exactly the commands, waits and output its
source says.  (R01.a also serves C06: every accepted script is executable.)"""
import ast

from ..analysis import PROPERTY_TEXT, path_text, self_attr
from ..cfg import reachable_without_edges, in_cycle
from ..const import EnumVal
from ..index import AnalysisError, norm
from ..report import rule
from ..resolve import walk_own

PARSE = 'bardolph.parser.parse'
MACHINE = 'bardolph.vm.machine'
ICTL = 'bardolph.controller.i_controller'

PROPERTY_TEXT['C01'] = (
    'every op-code the compiler can emit has a VM handler and every operand '
    'kind the compiler can pair with COLOR/POWER is a key of the VM dispatch '
    'table (R01.a); every colour/duration/power argument of a device call in '
    'the VM went through the unit conversion, the same for light, group, '
    'location and all (R01.b); WAIT is emitted once per action, outside the '
    '`and` loop (R01.c); every `and` operand is followed by the action op-code '
    '(R01.d); group/location fan-out visits every member unconditionally '
    '(R01.e).',
    'program order, once-per-visit, branch selection, call/resume addresses, '
    'the values themselves, printed values.')


# ---------------------------------------------------------------- R01.a
def vm_handler_table(A):
    """(handled op-code members, missing handlers) read from Machine.__init__."""
    init = A.func(MACHINE, 'Machine.__init__')
    machine = init.cls
    opcode_cls = A.cls('bardolph.vm.vm_codes', 'OpCode')
    members = opcode_cls.enum_members()
    handled, missing = set(), []
    table_attr = None
    for node in walk_own(init.node):
        if isinstance(node, ast.Assign) and len(node.targets) == 1:
            t = node.targets[0]
            if self_attr(t) and isinstance(node.value, ast.DictComp) \
                    and 'getattr' in norm(node.value):
                table_attr = t.attr
                # iterate what the comprehension iterates
                env = {}
                for st in init.node.body:
                    if isinstance(st, ast.Assign) and len(st.targets) == 1 \
                            and isinstance(st.targets[0], ast.Name):
                        try:
                            env[st.targets[0].id] = A.fold(st.value, init, env)
                        except Exception:
                            pass
                it = A.fold(node.value.generators[0].iter, init, env)
                prefix = ''
                gcall = node.value.value
                if isinstance(gcall, ast.Call) and len(gcall.args) >= 2 \
                        and isinstance(gcall.args[1], ast.BinOp) \
                        and isinstance(gcall.args[1].left, ast.Constant):
                    prefix = gcall.args[1].left.value
                for ev in it:
                    if isinstance(ev, EnumVal):
                        if machine.lookup(prefix + ev.member.lower()) is None:
                            missing.append(ev.member)
                        else:
                            handled.add(ev.member)
            elif self_attr(t) and isinstance(node.value, ast.Dict):
                keys = [A.try_fold(k, init) for k in node.value.keys]
                if keys and all(isinstance(k, EnumVal) and k.enum == 'OpCode'
                                for k in keys):
                    table_attr = t.attr
                    handled |= set(k.member for k in keys)
    if table_attr is None:
        raise AnalysisError('Machine.__init__: op-code dispatch table not found')
    for node in walk_own(init.node):
        if isinstance(node, ast.Assign) and len(node.targets) == 1 \
                and isinstance(node.targets[0], ast.Subscript) \
                and self_attr(node.targets[0].value) == table_attr:
            k = A.try_fold(node.targets[0].slice, init)
            if isinstance(k, EnumVal):
                handled.add(k.member)
    return members, handled, missing, table_attr


def _opcode_guard_of_function(A, g):
    """If function g can only succeed when self._op_code is OpCode.K, return
    K (else None): a test of self._op_code against a constant whose
    'different' branch reaches only failing returns."""
    cfg = A.cfg(g)
    for n in cfg.nodes:
        if n.kind != 'cond' or not isinstance(n.ast, ast.Compare):
            continue
        cmp_ = n.ast
        if len(cmp_.ops) != 1 or norm(cmp_.left) != 'self._op_code':
            continue
        v = A.try_fold(cmp_.comparators[0], g)
        if not (isinstance(v, EnumVal) and v.enum == 'OpCode'):
            continue
        if isinstance(cmp_.ops[0], (ast.IsNot, ast.NotEq)):
            diff_label = True
        elif isinstance(cmp_.ops[0], (ast.Is, ast.Eq)):
            diff_label = False
        else:
            continue
        # g requires op-code K when no successful return is reachable once
        # the 'same' edge of this test is removed
        reach_wo = reachable_without_edges(cfg, cfg.entry,
                                           {(n.id, not diff_label)})
        bad = any(r.id in reach_wo and A.ret_class(g, r)[0] != 'fail'
                  for r in cfg.return_nodes())
        if not bad:
            return v.member
    return None


def opcodes_allowed_at(A, f, node):
    """Set of op-code members under which CFG node `node` of f can execute,
    as far as guards on self._op_code say; None = no restriction."""
    cfg = A.cfg(f)
    allowed = None
    for c in cfg.nodes:
        if c.kind != 'cond':
            continue
        # direct comparison in f
        k = None
        label_needed = None
        if isinstance(c.ast, ast.Compare) and len(c.ast.ops) == 1 \
                and norm(c.ast.left) == 'self._op_code':
            v = A.try_fold(c.ast.comparators[0], f)
            if isinstance(v, EnumVal) and v.enum == 'OpCode':
                k = v.member
                label_needed = isinstance(c.ast.ops[0], (ast.Is, ast.Eq))
        elif isinstance(c.ast, ast.Call):
            for g in A.callees(f, c.ast):
                kk = _opcode_guard_of_function(A, g)
                if kk is not None:
                    k, label_needed = kk, True
        if k is None:
            continue
        # is `node` reachable only through edge (c, label_needed)?
        reach = reachable_without_edges(cfg, cfg.entry, {(c.id, label_needed)})
        if node.id not in reach:
            allowed = {k} if allowed is None else allowed & {k}
    return allowed


TRANSPARENT = '<unchanged>'
PARAM_VALUE = '<parameter>'


def _operand_moveq(A, f, call, ops):
    """If emission site (call, ops) moves into Register.OPERAND return the
    value expression(s) else None."""
    out = []
    for op, args in ops:
        if op != 'MOVEQ' or len(args) < 2:
            continue
        dest = A.try_fold(args[1], f)
        if isinstance(dest, EnumVal) and dest.enum == 'Register' \
                and dest.member == 'OPERAND':
            out.append(args[0])
    return out or None


def _operand_constants(A, f, e):
    """Operand members an expression can evaluate to: a constant, a
    conditional expression of constants, or `<dict of constants>.get(key,
    <constant>)`; None when it is anything else."""
    v = A.try_fold(e, f)
    if isinstance(v, EnumVal) and v.enum == 'Operand':
        return [v.member]
    if isinstance(e, ast.IfExp):
        a, b = _operand_constants(A, f, e.body), _operand_constants(A, f, e.orelse)
        return a + b if a and b else None
    if isinstance(e, ast.Call) and isinstance(e.func, ast.Attribute) \
            and e.func.attr == 'get' and len(e.args) == 2:
        table = A.try_fold(e.func.value, f)
        default = _operand_constants(A, f, e.args[1])
        if isinstance(table, dict) and table and default and all(
                isinstance(x, EnumVal) and x.enum == 'Operand'
                for x in table.values()):
            return sorted(set(x.member for x in table.values())) + default
    if isinstance(e, ast.Subscript):
        table = A.try_fold(e.value, f)
        if isinstance(table, dict) and table and all(
                isinstance(x, EnumVal) and x.enum == 'Operand'
                for x in table.values()):
            return sorted(set(x.member for x in table.values()))
    return None


def _values_of(A, f, node, expr):
    """[(Operand member, allowed op-codes | None, construct)]"""
    base = opcodes_allowed_at(A, f, node)
    v = A.try_fold(expr, f)
    if isinstance(v, EnumVal) and v.enum == 'Operand':
        return [(v.member, base, expr)]
    if isinstance(expr, ast.Name):
        out = []
        for d in reaching_defs(A.cfg(f), node, expr.id):
            vals = _operand_constants(A, f, d.ast.value) \
                if isinstance(d.ast, ast.Assign) else None
            if not vals:
                raise AnalysisError('%s: operand variable defined by %s'
                                    % (f.short, d.text()))
            a2 = opcodes_allowed_at(A, f, d)
            both = base
            if a2 is not None:
                both = a2 if both is None else both & a2
            for member in vals:
                out.append((member, both, d.ast))
        if out:
            return out
        if expr.id in f.params:
            # handed in by the caller (the loop code generators): some
            # Operand, not decided here; R15.f makes sure no action
            # instruction depends on it
            return [(PARAM_VALUE, base, expr)]
    raise AnalysisError('%s: cannot evaluate operand %s' % (f.short, norm(expr)))


def _events_of_node(A, f, n, upto=None):
    """Operand-relevant events of CFG node n in evaluation order:
    ('set', values) | ('call', [callee funcs]).  Stops before call `upto`."""
    sites = {id(c): ops for c, ops in A.emission_sites(f)}
    ev = []
    for c in n.calls():
        if c is upto:
            break
        if id(c) in sites:
            exprs = _operand_moveq(A, f, c, sites[id(c)])
            if exprs:
                vals = []
                for e in exprs:
                    vals += _values_of(A, f, n, e)
                ev.append(('set', vals))
            continue
        callees = [t for t in A.callees(f, c)
                   if t.module.name.startswith('bardolph.parser')]
        if callees:
            ev.append(('call', callees))
    return ev


def operand_summary(A, f, stack=(), opaque=frozenset()):
    """Possible last values of Register.OPERAND set by f on its success
    exits (TRANSPARENT = may leave it as it was). Calls to functions in
    `opaque` end a path without contributing anything."""
    memo = A._memo.setdefault(('operand_summary', opaque), {})
    if f in memo:
        return memo[f]
    if f in stack:
        return {(TRANSPARENT, None, None)}
    cfg = A.cfg(f)
    out = set()
    # a procedure (no return carries a value) has no failing exit
    procedure = not any(isinstance(n, ast.Return) and n.value is not None
                        for n in walk_own(f.node))
    for r in cfg.return_nodes():
        if not procedure and A.ret_class(f, r)[0] == 'fail':
            continue
        out |= operands_before(A, f, r, None, stack + (f,), opaque)
    if not stack:
        memo[f] = out
    return out


def operands_before(A, f, node, upto_call, stack=(), opaque=frozenset()):
    """Values Register.OPERAND may hold when `node` (its call `upto_call`, or
    its end if None) executes: backward walk over the CFG of f."""
    out = set()
    seen = set()
    todo = [(node, upto_call, True)]
    cfg = A.cfg(f)
    while todo:
        n, upto, first = todo.pop()
        if not first:
            if n.id in seen:
                continue
            seen.add(n.id)
        stopped = False
        for kind, payload in reversed(_events_of_node(A, f, n, upto)):
            if kind == 'set':
                for member, allow, construct in payload:
                    out.add((member, frozenset(allow) if allow is not None
                             else None, (f, construct)))
                stopped = True
                break
            if opaque and any(callee in opaque for callee in payload):
                stopped = True      # a nested statement sequence: not ours
                break
            summ = set()
            for callee in payload:
                summ |= operand_summary(A, callee, stack, opaque)
            transparent = any(m == TRANSPARENT for m, _a, _c in summ)
            out |= set(x for x in summ if x[0] != TRANSPARENT)
            if not transparent:
                stopped = True
                break
        if stopped:
            continue
        if n is cfg.entry:
            out.add((TRANSPARENT, None, None))
            continue
        for p, _l in n.preds:
            todo.append((p, None, False))
    return out


def operand_flows(A):
    """{K: {operand member: [(func, construct)]}} - Operand constants that
    can be in Register.OPERAND at an emission of action op-code K."""
    action = A.func(PARSE, 'Parser._action')
    action_ops = set()
    for s in A.rs.callers(action):
        if isinstance(s.node, ast.Call) and s.node.args:
            v = A.try_fold(s.node.args[0], s.func)
            if isinstance(v, EnumVal) and v.enum == 'OpCode':
                action_ops.add(v.member)
    if not action_ops:
        raise AnalysisError('no constant op-code reaches Parser._action')
    flows = {k: {} for k in action_ops}
    n_sites = 0
    for f in A.repo.all_functions('bardolph.parser'):
        for call, ops in A.emission_sites(f):
            kinds = set()
            for op, _args in ops:
                if op == '<self._op_code>':
                    kinds |= action_ops
                elif op in action_ops:
                    kinds.add(op)
            if not kinds:
                continue
            for n in A.node_of_call(f, call):
                n_sites += 1
                here = opcodes_allowed_at(A, f, n)
                vals = operands_before(A, f, n, call)
                for member, allow, where in vals:
                    if member in (TRANSPARENT, PARAM_VALUE):
                        continue
                    for k in kinds:
                        if here is not None and k not in here:
                            continue
                        if allow is not None and k not in allow:
                            continue
                        flows[k].setdefault(member, []).append(where)
    return flows, n_sites


def vm_operand_table(A, handler_name):
    """Keys of the Operand-keyed dispatch dict inside a Machine handler."""
    h = A.func(MACHINE, 'Machine.' + handler_name)
    best = None
    for node in walk_own(h.node):
        keys = None
        if isinstance(node, ast.Dict) and node.keys:
            keys = [A.try_fold(k, h) for k in node.keys]
        elif isinstance(node, ast.DictComp):
            try:
                d = A.fold(node, h)
                keys = list(d.keys())
            except Exception:
                try:
                    it = node.generators[0].iter
                    keys = [A.try_fold(e.elts[0], h) for e in it.elts]
                except Exception:
                    keys = None
        if keys and all(isinstance(k, EnumVal) and k.enum == 'Operand'
                        for k in keys):
            best = set(k.member for k in keys)
    return h, best


@rule('R01.a', ('C01', 'C06'), 'op-code handlers exist; operand kinds agree '
      'between compiler and VM dispatch tables', floor=38,
      decides='every set/on/off/get statement takes effect; every accepted '
              'script is executable (no unknown op-code / operand at run time)')
def r01a(R):
    A = R.A
    members, handled, missing, _attr = vm_handler_table(A)
    init = A.func(MACHINE, 'Machine.__init__')
    run = A.func(MACHINE, 'Machine.run')
    # op-codes consumed before dispatch (Loader strips ROUTINE; run() tests STOP)
    loader_handled = set()
    for f in (A.func('bardolph.vm.loader', 'Loader.load'),
              A.func('bardolph.vm.loader', 'Loader._load_routine'), run):
        for node in walk_own(f.node):
            if isinstance(node, ast.Compare):
                for side in [node.left] + node.comparators:
                    v = A.try_fold(side, f)
                    if isinstance(v, EnumVal) and v.enum == 'OpCode':
                        loader_handled.add(v.member)
    # what the parser package can emit
    emitted = {}
    for f in A.repo.all_functions('bardolph.parser'):
        for call, ops in A.emission_sites(f):
            for op, _args in ops:
                emitted.setdefault(op, []).append((f, call))
    # computed push op: CodeGen._push_op returns PUSH/PUSHQ
    for m in members:
        if m in missing:
            R.fail(init, 'OpCode.%s' % m,
                   'Machine has no method for op-code %s: constructing the VM '
                   'raises AttributeError' % m)
        elif m in handled:
            R.ok(init, 'OpCode.%s' % m)
        elif m in loader_handled:
            R.ok(init, 'OpCode.%s' % m, note='consumed by loader/run loop')
        elif m in emitted:
            f, call = emitted[m][0]
            R.fail(f, call, 'op-code %s is emitted by the compiler but the VM '
                   'dispatch table has no entry for it' % m)
        else:
            R.ok(init, 'OpCode.%s' % m, note='never emitted')
    # operand tables
    flows, n_sites = operand_flows(A)
    tables = {'COLOR': '_color', 'POWER': '_power'}
    for k, hname in sorted(tables.items()):
        if k not in flows:
            raise AnalysisError('op-code %s never reaches Parser._action' % k)
        h, keys = vm_operand_table(A, hname)
        if keys is None:
            raise AnalysisError('Machine.%s: operand dispatch table not found'
                                % hname)
        for member, sites in sorted(flows[k].items()):
            f, construct = sites[0]
            R.check(f, 'Operand.%s with OpCode.%s' % (member, k),
                    member in keys,
                    'the compiler accepts operand kind %s for %s (%s in %s) but '
                    'Machine.%s has no entry for it: the script compiles and '
                    'the VM raises KeyError' % (member, k.lower(),
                                                norm(construct)[:80], f.short,
                                                hname),
                    line=getattr(construct, 'lineno', 0))
    R.note('operand emission sites: %d' % n_sites)


# ---------------------------------------------------------------- R01.b
def device_sinks(A):
    """{method name: {role: arg index}} from the interface declarations:
    methods of i_controller classes that take a `duration`."""
    roles = {'duration': 'duration', 'color': 'color', 'matrix': 'matrix',
             'power': 'power', 'power_level': 'power'}
    out = {}
    for cname in ('Light', 'MultizoneLight', 'MatrixLight', 'LightSet'):
        c = A.cls(ICTL, cname)
        for m in c.methods.values():
            params = m.params[1:]
            if 'duration' in params:
                out[m.name] = {roles[p]: i for i, p in enumerate(params)
                               if p in roles}
    return out


CONVERTERS = {'duration': ('Machine._as_raw_time',),
              'color': ('Machine._as_raw_color',),
              'matrix': ('Machine._as_raw_matrix',),
              'power': ('Registers.get_power', 'Machine._power_param')}


def reaching_defs(cfg, node, name):
    """Assignment statement nodes to local `name` that reach `node`."""
    out, seen = [], set()
    todo = [p for p, _ in node.preds]
    while todo:
        n = todo.pop()
        if n.id in seen:
            continue
        seen.add(n.id)
        if n.kind == 'stmt' and isinstance(n.ast, (ast.Assign, ast.AugAssign)):
            targets = n.ast.targets if isinstance(n.ast, ast.Assign) \
                else [n.ast.target]
            if any(isinstance(t, ast.Name) and t.id == name for t in targets):
                out.append(n)
                continue
        if n.kind == 'for' and isinstance(n.ast.target, ast.Name) \
                and n.ast.target.id == name:
            out.append(n)
            continue
        todo.extend(p for p, _ in n.preds)
    return out


def provenance_ok(A, f, node, expr, role, depth=0):
    """expr (evaluated at CFG node `node` of f) is the result of a converter
    for `role`, possibly through locals or a parameter whose every caller
    passes such a value."""
    conv = CONVERTERS[role] if isinstance(role, str) else role
    if isinstance(expr, ast.Call):
        names = A.callee_names(f, expr)
        if names and all(n in conv for n in names):
            return True, ''
        return False, 'value is %s' % norm(expr)
    if isinstance(expr, ast.Name):
        cfg = A.cfg(f)
        defs = reaching_defs(cfg, node, expr.id)
        if defs:
            for d in defs:
                if d.kind == 'for' or not isinstance(d.ast, ast.Assign):
                    return False, 'defined by %s' % d.text()
                ok, why = provenance_ok(A, f, d, d.ast.value, role, depth + 1)
                if not ok:
                    return False, why
            return True, ''
        if expr.id in f.params and depth < 3:
            sites = A.rs.param_args(f, expr.id)
            if not sites:
                return False, 'parameter %s has no resolved caller' % expr.id
            for arg, caller in sites:
                nodes = [n for n in A.cfg(caller).nodes
                         if any(sub is arg for e in n.exprs()
                                for sub in ast.walk(e))]
                if not nodes:
                    return False, 'caller site not found'
                ok, why = provenance_ok(A, caller, nodes[0], arg, role,
                                        depth + 1)
                if not ok:
                    return False, 'caller %s passes %s' % (caller.short, why)
            return True, ''
        return False, 'undefined local %s' % expr.id
    return False, 'value is %s' % norm(expr)


@rule('R01.b', ('C01', 'C07'), 'VM converts colour, duration and power to raw '
      'before every device call (light, group, location, all alike)', floor=9,
      decides='duration/colour transmitted are the ones determined by the '
              'registers; a group/location action is the same action on each '
              'member (C01); seconds are never sent as milliseconds (C07)')
def r01b(R):
    A = R.A
    sinks = device_sinks(A)
    machine = A.cls(MACHINE, 'Machine')
    for f in machine.methods.values():
        cfg = A.cfg(f)
        for n in cfg.nodes:
            for call in n.calls():
                if not isinstance(call.func, ast.Attribute):
                    continue
                mname = call.func.attr
                if mname not in sinks or norm(call.func.value) == 'self':
                    continue
                for role, idx in sorted(sinks[mname].items()):
                    if idx >= len(call.args):
                        kw = [k.value for k in call.keywords if k.arg in
                              (role, 'power_level')]
                        if not kw:
                            R.fail(f, call, '%s argument of %s is not supplied'
                                   % (role, mname))
                            continue
                        arg = kw[0]
                    else:
                        arg = call.args[idx]
                    ok, why = provenance_ok(A, f, n, arg, role)
                    R.check(f, '%s(... %s=%s ...)' % (
                        norm(call.func), role, norm(arg)), ok,
                        'the %s handed to %s did not pass through %s: %s'
                        % (role, mname, ' / '.join(CONVERTERS[role]), why),
                        line=call.lineno)


# ---------------------------------------------------------------- R01.c
@rule('R01.c', ('C01',), 'WAIT is emitted once per action, before the operand '
      'list and outside the `and` loop', floor=2,
      decides='lights joined with `and` share a single delay; one delay '
              'request before each command')
def r01c(R):
    A = R.A
    action = A.func(PARSE, 'Parser._action')
    wait = A.func(PARSE, 'Parser._wait')
    allowed = {action, wait}
    sites = []
    for f in A.repo.all_functions('bardolph.parser'):
        for call, ops in A.emission_sites(f):
            if any(op == 'WAIT' for op, _ in ops):
                sites.append((f, call))
    for f, call in sites:
        if f not in allowed:
            R.fail(f, call, 'WAIT emitted outside Parser._action / '
                   'Parser._wait: an extra delay is requested (in the `and` '
                   'loop: one per light instead of one per action)')
            continue
        cfg = A.cfg(f)
        nodes = A.node_of_call(f, call)
        wait_nodes = []
        for ff, cc in sites:
            if ff is f:
                wait_nodes += A.node_of_call(f, cc)
        ok = True
        msg = ''
        for n in nodes:
            if in_cycle(cfg, n):
                ok, msg = False, 'WAIT emission is inside a loop'
            others = [w for w in wait_nodes if w is not n]
            after = cfg.reachable_from([m for m, _ in n.succs])
            if any(w in after for w in others):
                ok, msg = False, 'two WAIT emissions on one path'
        if f is action:
            operand_calls = A.nodes_calling(
                f, lambda c, names: any(x in ('Parser._operand_list',
                                              'Parser._all_operand',
                                              'Parser._default_operand')
                                        for x in names))
            if not operand_calls:
                raise AnalysisError('Parser._action no longer calls the '
                                    'operand parsers')
            for oc in operand_calls:
                after = cfg.reachable_from([m for m, _ in oc.succs])
                if any(n in after for n in nodes):
                    ok, msg = False, ('WAIT is emitted after the operand list '
                                      'was compiled')
        R.check(f, call, ok, msg)


# ---------------------------------------------------------------- R01.d
@rule('R01.d', ('C01',), 'every operand of an `and` list is followed by the '
      'action op-code', floor=1,
      decides='each light of an and-list receives the command exactly once')
def r01d(R):
    A = R.A
    f = A.func(PARSE, 'Parser._operand_list')
    cfg = A.cfg(f)
    operand_nodes = A.nodes_calling(
        f, lambda c, names: 'Parser._operand' in names)
    emit_nodes = []
    for call, ops in A.emission_sites(f):
        if any(op == '<self._op_code>' for op, _ in ops):
            emit_nodes += A.node_of_call(f, call)
    if not operand_nodes:
        raise AnalysisError('Parser._operand_list does not call _operand')
    for on in operand_nodes:
        starts = [m for m, lab in on.succs if lab is True]
        def goal(n):
            if n in operand_nodes:
                return True
            return n.is_return and A.ret_class(f, n)[0] != 'fail'
        p = cfg.find_path(starts, goal, avoid=emit_nodes)
        R.check(f, on.ast, p is None,
                'after this operand was parsed successfully control can reach '
                'the next operand or a successful return without emitting the '
                'action op-code: that light gets no command',
                path=path_text(p) if p else None)
        # and at most once
        for e in emit_nodes:
            after = cfg.reachable_from([m for m, _ in e.succs],
                                       avoid=operand_nodes)
            dup = [x for x in emit_nodes if x in after]
            if dup and e in cfg.reachable_from(starts, avoid=operand_nodes):
                R.fail(f, e.ast, 'the action op-code is emitted twice for one '
                       'operand')


# ---------------------------------------------------------------- R01.e
@rule('R01.e', ('C01', 'C12'), 'group/location fan-out applies the device '
      'call to every member, unconditionally', floor=2,
      decides='an action on a group or location is the same action on each of '
              'its members')
def r01e(R):
    A = R.A
    sinks = device_sinks(A)
    for name in ('Machine._color_multiple', 'Machine._power_multiple'):
        f = A.func(MACHINE, name)
        cfg = A.cfg(f)
        param = f.params[1] if len(f.params) > 1 else None
        loops = [n for n in cfg.nodes if n.kind == 'for'
                 and param and norm(n.ast.iter) == param]
        if not loops:
            R.fail(f, f.node.name, 'no loop over the member list `%s`' % param)
            continue
        for lp in loops:
            body_entry = [m for m, lab in lp.succs if lab is True]
            sink_nodes = [n for n in cfg.nodes for c in n.calls()
                          if isinstance(c.func, ast.Attribute)
                          and c.func.attr in sinks
                          and norm(c.func.value) == norm(lp.ast.target)]
            # every iteration must pass a sink call before returning to the
            # loop head; and the loop must not be left early
            p = cfg.find_path(body_entry, lambda n: n is lp, avoid=sink_nodes)
            ok = bool(sink_nodes) and p is None
            early = [n for n in cfg.reachable_from(body_entry, avoid=[lp])
                     if n.is_return or (n.kind == 'stmt'
                                        and isinstance(n.ast, ast.Break))]
            R.check(f, lp.ast.iter if not ok else 'for %s in %s: %s' % (
                norm(lp.ast.target), param,
                sink_nodes[0].text() if sink_nodes else ''),
                ok and not early,
                'a member of the group/location can be skipped: %s' % (
                    'iteration can finish without the device call' if not ok
                    else 'the loop can be left early'),
                path=path_text(p) if p else None)
    # the member list handed over is the whole list
    for name in ('Machine._color_group', 'Machine._color_location',
                 'Machine._power_group', 'Machine._power_location'):
        f = A.func(MACHINE, name)
        ok = False
        construct = f.node.name
        for c in A.calls_in(f):
            names = A.callee_names(f, c)
            if any(n in ('Machine._color_multiple', 'Machine._power_multiple')
                   for n in names) and c.args:
                a = c.args[0]
                construct = c
                # an unfiltered comprehension, a list filled by an
                # unconditional append in a loop, or a helper returning one
                ok = A.whole_map(f, a) is not None
        R.check(f, construct, ok, 'the members handed to the fan-out helper '
                'are not the complete member list (filter or no list)')


# ---------------------------------------------------------------- R01.f
CLOCK = 'bardolph.lib.clock'


@rule('R01.f', ('C01',), 'the clock is re-based when a time-of-day wait ends, '
      'not when it begins', floor=2,
      decides='the delays requested after a `time at` statement are counted '
              'from the moment the awaited time arrived')
def r01f(R):
    A = R.A
    wu = A.func(CLOCK, 'Clock.wait_until')
    cfg = A.cfg(wu)
    resets = A.calls_nodes(wu, 'Clock.reset')
    waits = A.calls_nodes(wu, 'Clock.wait')
    matches = [n for n in cfg.nodes if n.kind == 'cond' and any(
        isinstance(c.func, ast.Attribute) and c.func.attr == 'match'
        for c in n.calls())]
    if not matches or not waits:
        raise AnalysisError('Clock.wait_until: match / wait() not found')
    # (a) every way out of the loop through a successful match re-bases
    starts = [m for n in matches for m, lab in n.succs if lab is True]
    p = cfg.find_path(starts, lambda n: n is cfg.exit, avoid=resets + matches)
    R.check(wu, 'match -> reset() -> return', bool(resets) and p is None,
            'wait_until can return after the awaited time arrived without '
            're-basing the clock: the following delays are counted from the '
            'start of the script', path=path_text(p) if p else None)
    # (b) nothing blocks between the re-basing and the return
    after = [m for n in resets for m, _l in n.succs]
    q = cfg.find_path(after, lambda n: n in waits) if resets else None
    R.check(wu, 'no wait() after reset()', q is None,
            'the clock is re-based before the wait for the time of day (a '
            'path leads from reset() to wait()): when the awaited time '
            'arrives the elapsed time already exceeds the cue time, so the '
            'delays that follow return at once and the commands go out back '
            'to back', path=path_text(q) if q else None)


# ---------------------------------------------------------------- R01.g
def _emit_nodes_with(A, f, op, argtest=None):
    """CFG nodes of f emitting op-code `op` whose arguments satisfy argtest."""
    out = []
    for call, ops in A.emission_sites(f):
        for o, args in ops:
            if o == op and (argtest is None or argtest(args)):
                for n in A.node_of_call(f, call):
                    if n not in out:
                        out.append(n)
    return out


def _folds_to(A, f, e, enum, member):
    v = A.try_fold(e, f)
    return isinstance(v, EnumVal) and v.enum == enum and v.member == member


@rule('R01.g', ('C01', 'C11', 'C02'), 'every statement emits the instruction '
      'that carries it out, on every successful path', floor=10,
      decides='each wait / pause / get / define / time-at statement and each '
              'call used as a value takes effect: none is accepted and then '
              'compiled to nothing')
def r01g(R):
    A = R.A

    def must(f, what, nodes, starts=None, detail=''):
        cfg = A.cfg(f)
        p = A.path_skipping(f, starts or [cfg.entry], nodes, after=starts is not None) \
            if nodes else []
        R.check(f, what, bool(nodes) and p is None,
                '%s can succeed without emitting %s: the statement is accepted '
                'and does nothing%s' % (f.short, what, detail),
                path=path_text(p) if p else None)
        return nodes
    f = A.func(PARSE, 'Parser._wait')
    must(f, 'WAIT', _emit_nodes_with(A, f, 'WAIT'))
    f = A.func(PARSE, 'Parser._pause')
    must(f, 'PAUSE', _emit_nodes_with(A, f, 'PAUSE'))
    # get <light>: the name goes from RESULT to NAME, then GET_COLOR
    f = A.func(PARSE, 'Parser._get_color')
    mv = must(f, 'MOVE RESULT -> NAME', _emit_nodes_with(
        A, f, 'MOVE', lambda a: len(a) == 2
        and _folds_to(A, f, a[0], 'Register', 'RESULT')
        and _folds_to(A, f, a[1], 'Register', 'NAME')))
    gc = must(f, 'GET_COLOR', _emit_nodes_with(A, f, 'GET_COLOR'))
    if mv and gc:
        cfg = A.cfg(f)
        q = cfg.find_path([cfg.entry], lambda n: n in gc, avoid=mv)
        R.check(f, 'MOVE RESULT -> NAME before GET_COLOR', q is None,
                'GET_COLOR can be reached before the light\'s name is in the '
                'name register', path=path_text(q) if q else None)
    f = A.func(PARSE, 'Parser._macro_definition')
    must(f, 'CONSTANT', _emit_nodes_with(A, f, 'CONSTANT'))
    f = A.func(PARSE, 'Parser._string_to_reg')
    must(f, 'MOVEQ <string> -> <register>', _emit_nodes_with(
        A, f, 'MOVEQ', lambda a: len(a) == 2 and norm(a[1]) in f.params))
    # time at P1 or P2 ...: INIT for the first, UNION for every further one
    f = A.func(PARSE, 'Parser._process_time_patterns')
    cfg = A.cfg(f)
    init = must(f, 'TIME_PATTERN INIT', _emit_nodes_with(
        A, f, 'TIME_PATTERN', lambda a: a and _folds_to(A, f, a[0], 'SetOp', 'INIT')))
    union = _emit_nodes_with(
        A, f, 'TIME_PATTERN', lambda a: a and _folds_to(A, f, a[0], 'SetOp', 'UNION'))
    ors = [n for n in cfg.nodes if n.kind == 'cond' and any(
        isinstance(v, EnumVal) and v.member == 'OR'
        for c in n.calls() for v in [A.try_fold(x, f) for x in c.args])]
    ok = bool(union and ors)
    p = None
    if ok:
        # from "another `or` follows" back to the loop test or on to success
        starts = [m for n in ors for m, lab in n.succs if lab is True]
        p = cfg.find_path(starts, lambda n: n in ors or (
            n.is_return and A.ret_class(f, n)[0] != 'fail'), avoid=union)
        ok = p is None
    R.check(f, 'TIME_PATTERN UNION for every alternative after `or`', ok,
            'an alternative after `or` is parsed but no UNION instruction is '
            'emitted for it: the script waits for the first pattern only',
            path=path_text(p) if p else None)
    if init and union:
        q = cfg.find_path([cfg.entry], lambda n: n in union, avoid=init)
        R.check(f, 'INIT before the first UNION', q is None,
                'a UNION can be emitted before the INIT that starts the list')
    # a call used as a value: the result register goes where the value is
    # wanted (evaluated per destination)
    f = A.func(PARSE, 'Parser._rvalue_fn_call')
    dest = f.params[1] if len(f.params) > 1 else 'dest'
    for label, value, want in (
            ('PUSH', EnumVal('OpCode', 'PUSH'), 'push'),
            ('a register', EnumVal('Register', 'HUE'), 'move'),
            ('RESULT', EnumVal('Register', 'RESULT'), 'none')):
        nodes = A.nodes_under(f, {dest: value})
        pushes = [n for n in nodes for c in n.calls()
                  if isinstance(c.func, ast.Attribute) and c.func.attr == 'push'
                  and c.args and _folds_to(A, f, c.args[0], 'Register', 'RESULT')]
        moves = [n for n in nodes for c2, ops in A.emission_sites(f)
                 for o, a in ops if o == 'MOVE' and len(a) == 2
                 and _folds_to(A, f, a[0], 'Register', 'RESULT')
                 and norm(a[1]) == dest and n in A.node_of_call(f, c2)]
        got = 'push' if pushes and not moves else 'move' if moves and not pushes \
            else 'none' if not pushes and not moves else 'both'
        R.check(f, 'call as a value, destination %s: %s' % (label, got),
                got == want,
                'the value returned by a call used as an operand / right-hand '
                'side is not delivered (destination %s: expected %s, found %s)'
                % (label, want, got))
