"""C09 - A stop request ends a running script promptly in every state and is
never lost."""
import ast

from ..analysis import PROPERTY_TEXT, path_text, self_attr
from ..index import AnalysisError, norm
from ..report import rule
from ..resolve import walk_own

MACHINE = 'bardolph.vm.machine'
CLOCK = 'bardolph.lib.clock'
JOBS = 'bardolph.lib.job_control'
SCRIPTJOB = 'bardolph.controller.script_job'
WEBAPP = 'web.web_app'

PROPERTY_TEXT['C09'] = (
    'the run loop is governed by the stop flag and Machine.stop clears it and '
    'stops the clock (R09.a); a loop that waits on the clock leaves when '
    'wait() reports that the clock was stopped (R09.b); no stop flag is set '
    'back to True by code that runs in the job thread or the clock thread, '
    'where it could overwrite a stop that has already been requested (R09.c); '
    'stop-all empties the queue before it stops the current job; stop '
    'requests are routed under the controller lock (R09.d, R08.a/b); the clock '
    'is stopped on every exit of the run loop, including the exception path '
    '(R09.e).',
    'promptness ("after at most the instruction in progress"), absence of '
    'further device commands after the request, the next job starting '
    'normally - all schedule-dependent.')


@rule('R09.a', ('C09',), 'the run loop tests the stop flag before every '
      'instruction; stop() clears it and then stops the clock', floor=4,
      decides='a stop request issued while the script executes instructions '
              'ends it after at most the instruction in progress')
def r09a(R):
    A = R.A
    run = A.func(MACHINE, 'Machine.run')
    stop = A.func(MACHINE, 'Machine.stop')
    # the flag stop() clears
    flags = [n.targets[0].attr for n in walk_own(stop.node)
             if isinstance(n, ast.Assign) and self_attr(n.targets[0])
             and isinstance(n.value, ast.Constant) and n.value.value is False]
    R.check(stop, 'stop(): %s = False' % (flags[0] if flags else '?'),
            len(flags) == 1, 'Machine.stop no longer clears a run flag')
    if not flags:
        return
    flag = flags[0]
    stops_clock = any('Clock.stop' in A.callee_names(stop, c)
                      for c in A.calls_in(stop))
    R.check(stop, 'stop() stops the clock', stops_clock,
            'Machine.stop does not stop the clock: a script sitting in a delay '
            'or time-of-day wait is not woken up')
    # order: the flag is down before the clock is stopped. Clock.stop() wakes
    # the job thread out of its delay; if the flag were still up at that
    # moment the run loop would fetch and execute further instructions (wait()
    # no longer blocks once the clock is stopped) until the flag follows.
    scfg = A.cfg(stop)
    clears = [n for n in scfg.nodes if n.kind == 'stmt'
              and isinstance(n.ast, ast.Assign)
              and self_attr(n.ast.targets[0]) == flag]
    cstops = A.calls_nodes(stop, 'Clock.stop')
    p = scfg.find_path([scfg.entry], lambda n: n in cstops, avoid=clears) \
        if cstops else None
    R.check(stop, 'self.%s = False before clock.stop()' % flag,
            bool(cstops) and p is None,
            'Machine.stop wakes the job thread (Clock.stop) before it clears '
            'the run flag: the woken script executes further instructions - '
            'and sends further commands, delays no longer holding it back - '
            'until the flag is cleared', path=path_text(p) if p else None)
    cfg = A.cfg(run)
    heads = [n for n in cfg.nodes if n.kind == 'loop-head']
    fetch = [n for n in cfg.nodes if 'self._fn_table' in n.text()
             or 'self._program[' in n.text()]
    ok = False
    for h in heads:
        test = h.ast.test
        conj = test.values if isinstance(test, ast.BoolOp) and \
            isinstance(test.op, ast.And) else [test]
        if any(norm(c) == 'self.' + flag for c in conj):
            ok = True
            # no inner loop in the body that does not test the flag
            inner = [n for n in ast.walk(h.ast) if n is not h.ast
                     and isinstance(n, (ast.While, ast.For))]
            if inner:
                ok = False
    R.check(run, 'while self.%s and ...' % flag, ok and bool(fetch),
            'the fetch-execute loop does not re-check the stop flag before '
            'every instruction')
    sj = A.func(SCRIPTJOB, 'ScriptJob.request_stop')
    R.check(sj, 'request_stop -> Machine.stop',
            any('Machine.stop' in A.callee_names(sj, c) for c in A.calls_in(sj)),
            'ScriptJob.request_stop does not reach Machine.stop')


@rule('R09.b', ('C09',), 'a loop that waits on the clock leaves when wait() '
      'reports the clock was stopped', floor=2,
      decides='a stop request issued while the script sits in a timed delay '
              'or waits for a time of day ends it')
def r09b(R):
    A = R.A
    wait = A.func(CLOCK, 'Clock.wait')
    n_loops = 0
    for f in A.repo.all_functions():
        cfg = A.cfg(f)
        for n in cfg.nodes:
            calls = [c for c in n.calls() if wait in A.callees(f, c)]
            if not calls:
                continue
            # is n inside a loop?
            from ..cfg import in_cycle
            if not in_cycle(cfg, n):
                continue
            n_loops += 1
            # the result must decide: n is a cond node (or the loop test)
            # whose falsy edge leaves the cycle
            ok = False
            if n.kind == 'cond':
                for m, lab in n.succs:
                    if lab in (True, False):
                        # the edge taken when wait() is falsy
                        falsy_edge = lab is False
                        neg = _negated(n.ast, calls[0])
                        if neg:
                            falsy_edge = lab is True
                        if falsy_edge and n not in cfg.reachable_from([m]):
                            ok = True
            R.check(f, n.ast if n.kind != 'loop-head' else calls[0], ok,
                    'the result of Clock.wait() is ignored inside a loop: once '
                    'the clock is stopped wait() returns False immediately and '
                    'the loop spins for ever - a script waiting here cannot be '
                    'stopped')
    if n_loops < 2:
        raise AnalysisError('only %d clock-wait loops found' % n_loops)


def _negated(expr, call):
    """cond node expressions are already stripped of `not`; kept for the
    direct `while self.wait():` form."""
    return False


@rule('R09.c', ('C09',), 'no stop flag is re-armed by the job thread or the '
      'clock thread', floor=3,
      decides='a stop request is never lost: one that arrives before the '
              'first instruction still ends the run')
def r09c(R):
    A = R.A
    # stop flags: attributes set False by a method called stop()
    flags = {}
    for modname, cname in ((MACHINE, 'Machine'), (CLOCK, 'Clock')):
        cls = A.cls(modname, cname)
        stop = cls.methods.get('stop')
        if stop is None:
            raise AnalysisError('%s.stop vanished' % cname)
        for n in walk_own(stop.node):
            if isinstance(n, ast.Assign) and self_attr(n.targets[0]) and \
                    isinstance(n.value, ast.Constant) and n.value.value is False:
                flags[(cls, n.targets[0].attr)] = stop
    if len(flags) < 2:
        raise AnalysisError('stop flags not found')
    # thread entries: job thread and clock thread
    job_entry = A.func(JOBS, 'Agent._execute_and_call')
    clock_cls = A.cls(CLOCK, 'Clock')
    clock_entry = None
    for s in A.rs.sites(clock_cls.methods['start']):
        if s.kind == 'spawn':
            clock_entry = s.callees[0]
    if clock_entry is None:
        raise AnalysisError('Clock.start: thread target not found')
    thread_funcs = {}
    for f in A.rs.reachable([job_entry]):
        thread_funcs[f] = 'job thread (Agent._execute_and_call)'
    for f in A.rs.reachable([clock_entry]):
        thread_funcs.setdefault(f, 'clock thread (Clock.run)')
    for (cls, flag), stop in sorted(flags.items(), key=lambda kv: kv[0][1]):
        for m in cls.methods.values():
            if m.name == '__init__':
                continue
            for n in walk_own(m.node):
                if isinstance(n, ast.Assign) and self_attr(n.targets[0]) == flag \
                        and isinstance(n.value, ast.Constant) and n.value.value is True:
                    where = thread_funcs.get(m)
                    path = None
                    if where:
                        entry = job_entry if where.startswith('job') else clock_entry
                        cp = A.rs.call_path(entry, m)
                        path = [x.short for x in cp] if cp else None
                    R.check(m, n, where is None,
                            '%s.%s is set back to True in the %s: a stop '
                            'requested between Agent.execute() and this '
                            'statement is overwritten and the script runs on'
                            % (cls.name, flag, where), path=path,
                            line=n.lineno)


@rule('R09.d', ('C09', 'C20'), 'stop-all empties the queue before stopping the '
      'current job; stop routes reach the controller', floor=4,
      decides='stop-all leaves the queue empty so that nothing further starts')
def r09d(R):
    A = R.A
    sa = A.func(WEBAPP, 'WebApp.stop_all')
    cfg = A.cfg(sa)
    clear = A.calls_nodes(sa, 'JobControl.clear_queue')
    cur = A.calls_nodes(sa, 'JobControl.stop_current')
    bg = A.calls_nodes(sa, 'JobControl.stop_background')
    ok = bool(clear and cur and bg) and \
        cfg.find_path([cfg.entry], lambda n: n in cur + bg, avoid=clear) is None
    R.check(sa, 'clear_queue() before stop_current()/stop_background()', ok,
            'stop-all stops the running job before it empties the queue: the '
            'completion callback starts the next queued job in between')
    p = A.path_skipping(sa, [cfg.entry], cur, goal=[cfg.exit], after=True) \
        if cur else None
    R.check(sa, 'stop_current() and stop_background() on every path',
            bool(cur and bg) and p is None and
            cfg.find_path([cfg.entry], lambda n: n is cfg.exit, avoid=bg) is None,
            'stop-all can return without stopping the current / background jobs')
    for name, target in (('WebApp.stop_script', 'JobControl.stop_job'),
                         ('WebApp.stop_current', 'JobControl.stop_current')):
        f = A.func(WEBAPP, name)
        R.check(f, '%s -> %s' % (name, target), bool(A.calls_nodes(f, target)),
                '%s no longer reaches %s' % (name, target))
    # stop_job / stop_background / stop_current request the stop under the lock
    from .c08 import held_nodes, guarded_fields
    jc, fields, lock = guarded_fields(A)
    for name in ('stop_job', 'stop_background', 'stop_current'):
        m = jc.methods[name]
        hn = held_nodes(A, m, lock)
        reqs = [n for n in A.cfg(m).nodes for c in n.calls()
                if isinstance(c.func, ast.Attribute) and c.func.attr == 'request_stop']
        R.check(m, 'request_stop() under the lock',
                bool(reqs) and all(n.id in hn for n in reqs),
                'the stop request is not sent under the controller lock: the '
                'agent it is aimed at can change meanwhile')


@rule('R09.e', ('C09', 'C17'), 'the clock is stopped on every exit of the run '
      'loop, including the exception path', floor=1,
      decides='a run that ends by an internal fault leaves no clock thread '
              'behind and the next run starts normally')
def r09e(R):
    A = R.A
    run = A.func(MACHINE, 'Machine.run')
    cfg = A.cfg(run)
    start = A.calls_nodes(run, 'Clock.start')
    stop = A.calls_nodes(run, 'Clock.stop')
    if not start:
        raise AnalysisError('Machine.run no longer starts the clock')
    p = cfg.find_path([m for n in start for m, _ in n.succs],
                      lambda n: n in (cfg.exit, cfg.raise_exit), avoid=stop)
    R.check(run, 'clock.start() ... clock.stop() on every exit',
            bool(stop) and p is None,
            'Machine.run can return without stopping the clock (the '
            '`except Exception` path skips it): the clock thread keeps running '
            'and firing', path=path_text(p) if p else None)


@rule('R09.f', ('C09',), 'every object that carries a stop flag belongs to one '
      'run: the clock is bound per VM, not shared', floor=2,
      decides='a stop affects only the run it was aimed at, and a script '
              'started meanwhile cannot re-arm the flag of the stopped one')
def r09f(R):
    A = R.A
    clock_iface = A.cls('bardolph.lib.i_lib', 'Clock')
    roots = [A.func('bardolph.controller.light_module', 'configure')]
    reach = set(A.rs.reachable(roots))
    sites = [(impl, kind, f, node) for i, impl, kind, f, node in A.rs.bindings()
             if i is clock_iface and f in reach]
    if not sites:
        raise AnalysisError('R09.f: production binding of i_lib.Clock not found')
    for impl, kind, f, node in sites:
        # only a problem when the implementation keeps its liveness in itself
        has_flag = any(
            isinstance(n, ast.Assign) and self_attr(n.targets[0])
            and isinstance(n.value, ast.Constant) and n.value.value is False
            for c in impl.mro() if 'stop' in c.methods
            for n in walk_own(c.methods['stop'].node))
        R.check(f, node, kind == 'bind' or not has_flag,
                'the clock (%s, which keeps `stop()`\'s flag, the cue time and '
                'the start time in the object) is bound as ONE shared instance: '
                'a background script and the current one then share the flag - '
                'stopping one releases the other\'s delays, and a script '
                'started in between re-arms the flag of the stopped one'
                % impl.name, line=node.lineno)
    # each VM asks for its clock once, in its constructor
    init = A.func(MACHINE, 'Machine.__init__')
    got = [n for n in walk_own(init.node) if isinstance(n, ast.Assign)
           and self_attr(n.targets[0]) and isinstance(n.value, ast.Call)
           and norm(n.value.func).split('.')[-1] == 'provide'
           and n.value.args and A.repo.resolve_expr_static(
               init.module, n.value.args[0]) is clock_iface]
    R.check(init, 'Machine.__init__: self.<clock> = provide(Clock)', len(got) == 1,
            'the VM no longer obtains its own clock in its constructor')


def _requests(A, m):
    """[(cfg node, receiver text)] of the request_stop() calls of method m"""
    out = []
    for n in A.cfg(m).nodes:
        for c in n.calls():
            if isinstance(c.func, ast.Attribute) and c.func.attr == 'request_stop':
                out.append((n, norm(c.func.value)))
    return out


@rule('R09.g', ('C09', 'C20'), 'each stop entry point sends the request to '
      'exactly the job it names', floor=7,
      decides='stop, stop-current and stop-all act on exactly the named, the '
              'current and all jobs; stop-all leaves the queue empty')
def r09g(R):
    A = R.A
    jc = A.cls(JOBS, 'JobControl')
    # --- stop_job(name)
    sj = jc.methods['stop_job']
    cfg = A.cfg(sj)
    pname = sj.params[1]
    reqs = _requests(A, sj)
    active = [(n, r) for n, r in reqs if r == 'self._active_agent']
    backgr = [(n, r) for n, r in reqs if r.startswith('self._background[')]
    a_eq = tuple(sorted((pname, 'self._active_agent.name')))
    want_active = {('self._active_agent is None', False),
                   ('%s == %s' % a_eq, True)}
    want_bg = {('%s in self._background' % pname, True)}
    ok = bool(active) and all(want_active <= A.path_facts(sj, n) for n, _r in active)
    R.check(sj, 'active agent asked to stop iff it exists and has that name',
            ok, 'stop_job sends the request to the active job under another '
            'condition than "there is one and it has the given name": a stop '
            'for one script stops another, or raises on an idle controller')
    ok = bool(backgr) and all(
        want_bg <= A.path_facts(sj, n) and r == 'self._background[%s]' % pname
        for n, r in backgr)
    R.check(sj, 'background agent of that name asked to stop iff it is registered',
            ok, 'stop_job does not address the background job registered '
            'under the given name (wrong key, or not tested for presence)')
    # every way through "it has that name" / "it is registered" sends it
    for label, nodes, atom in (
            ('active', [n for n, _r in active], '%s == %s' % a_eq),
            ('background', [n for n, _r in backgr],
             '%s in self._background' % pname)):
        tests = [t for t in cfg.nodes if t.kind == 'cond'
                 and A.canonical_atom(t.ast)[0] == atom]
        p = None
        good = bool(tests and nodes)
        for t in tests:
            _text, pol = A.canonical_atom(t.ast)
            lab = pol                # the edge on which the atom holds
            starts = [m for m, lb in t.succs if lb is lab]
            p = cfg.find_path(starts, lambda n: n in (cfg.exit, cfg.raise_exit),
                              avoid=nodes)
            if p is not None:
                good = False
        R.check(sj, 'the %s job that matches is always sent the request' % label,
                good, 'stop_job can find the named %s job and return without '
                'asking it to stop' % label, path=path_text(p) if p else None)
    # --- stop_current
    sc = jc.methods['stop_current']
    reqs = _requests(A, sc)
    ok = bool(reqs) and all(
        r == 'self._active_agent'
        and ('self._active_agent is None', False) in A.path_facts(sc, n)
        for n, r in reqs)
    ccfg = A.cfg(sc)
    run_tests = [t for t in ccfg.nodes if t.kind == 'cond'
                 and 'is_running' in norm(t.ast)]
    p = None
    if ok and run_tests:
        starts = [m for t in run_tests for m, lb in t.succs if lb is True]
        p = ccfg.find_path(starts, lambda n: n in (ccfg.exit, ccfg.raise_exit),
                           avoid=[n for n, _r in reqs])
        ok = p is None
    R.check(sc, 'current job asked to stop iff there is one (and it runs)', ok,
            'stop_current does not send the request to the active job exactly '
            'when there is one', path=path_text(p) if p else None)
    # --- stop_background: every background agent
    sb = jc.methods['stop_background']
    bcfg = A.cfg(sb)
    reqs = _requests(A, sb)
    loops = [n for n in bcfg.nodes if n.kind == 'for']
    ok = bool(reqs and loops)
    if ok:
        lp = loops[0]
        body = [m for m, lab in lp.succs if lab is True]
        skip = bcfg.find_path(body, lambda n: n is lp, avoid=[n for n, _r in reqs])
        var = norm(lp.ast.target)
        # the collection walked is the background table (or a copy of it)
        src = norm(lp.ast.iter)
        names = set(x.id for x in ast.walk(lp.ast.iter) if isinstance(x, ast.Name))
        from_table = '_background' in src or any(
            isinstance(s, ast.Assign) and norm(s.targets[0]) in names
            and ('_background' in norm(s.value) or 'get_background' in norm(s.value))
            for s in walk_own(sb.node))
        # nothing skips the loop when there are agents
        none_tests = [t for t in bcfg.nodes if t.kind == 'cond'
                      and A.canonical_atom(t.ast)[0].endswith(' is None')]
        entered = all(('%s' % A.canonical_atom(t.ast)[0], False) in
                      A.path_facts(sb, lp) for t in none_tests)
        ok = skip is None and all(r == var for _n, r in reqs) and from_table \
            and entered
    R.check(sb, 'every background agent is asked to stop', ok,
            'stop_background does not send the request to every registered '
            'background job')
    # --- clear_queue empties the queue
    cq = jc.methods['clear_queue']
    qcfg = A.cfg(cq)
    clears = [n for n in qcfg.nodes for c in n.calls()
              if isinstance(c.func, ast.Attribute) and c.func.attr == 'clear'
              and self_attr(c.func.value) == '_queue']
    clears += [n for n in qcfg.nodes if n.kind == 'stmt' and isinstance(n.ast, ast.Assign)
               and any(self_attr(t) == '_queue' for t in n.ast.targets)]
    from .c08 import guarded_fields, held_nodes
    _jc, _fields, lock = guarded_fields(A)
    hn = held_nodes(A, cq, lock)
    acq = [n for n in qcfg.nodes if n.kind == 'cond' and 'acquire' in norm(n.ast)]
    p = None
    ok = bool(clears and acq)
    if ok:
        starts = [m for t in acq for m, lb in t.succs if lb is True]
        p = qcfg.find_path(starts, lambda n: n is qcfg.exit, avoid=clears)
        ok = p is None and all(n.id in hn for n in clears)
    R.check(cq, 'clear_queue empties the queue (under the lock)', ok,
            'clear_queue can return, lock taken, without emptying the queue: '
            'after stop-all the next queued script still starts')
