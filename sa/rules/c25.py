"""Rules added after the sixth round of seeded changes: who may clear the
evaluation stack, the loader's registration order, nested unbounded repeats
in token regexes, the order of arming the run flag and starting the clock,
case-preserving token classification."""
import ast

from ..analysis import PROPERTY_TEXT, path_text, self_attr  # noqa: F401
from ..index import AnalysisError, norm
from ..report import rule
from ..resolve import walk_own

MACHINE = 'bardolph.vm.machine'
VMMATH = 'bardolph.vm.vm_math'
LOADER = 'bardolph.vm.loader'
LEX = 'bardolph.parser.lex'


@rule('R04.m', ('C04', 'C01', 'C02'), 'the evaluation stack is emptied only '
      'when the machine is reset', floor=1,
      decides='an enclosing loop\'s pending names and the operands of a '
              'half-evaluated expression survive the end of an inner loop '
              'and a call')
def r04m(R):
    A = R.A
    vm = A.cls(VMMATH, 'VmMath')
    clearers = set()
    for m in vm.methods.values():
        if m.name == '__init__':
            continue
        for c in A.calls_in(m):
            if isinstance(c.func, ast.Attribute) and c.func.attr in ('clear', 'reset') \
                    and 'stack' in norm(c.func.value):
                clearers.add(m)
        for n in walk_own(m.node):
            if isinstance(n, ast.Assign) and any(
                    self_attr(t) and 'stack' in t.attr for t in n.targets):
                clearers.add(m)
    if not clearers:
        raise AnalysisError('VmMath: no method that empties the evaluation '
                            'stack found')
    machine = A.cls(MACHINE, 'Machine')
    n = 0
    for m in machine.methods.values():
        for c in A.calls_in(m):
            if any(t in clearers for t in A.callees(m, c)):
                n += 1
                R.check(m, c, m.name in ('reset', '__init__'),
                        '%s empties the evaluation stack in the middle of a '
                        'run: the names a light-iterating loop still has '
                        'pending (or the left operand of an expression whose '
                        'right operand calls a routine) are gone, the next '
                        'POP underflows and the machine stops' % m.short,
                        line=c.lineno)
    if n < 1:
        raise AnalysisError('Machine: no call that empties the evaluation stack')


@rule('R05.j', ('C05', 'C03'), 'the loader registers the built-in routines '
      'before the routines of the script, so that a name the script defines '
      'leads to the script\'s body', floor=1,
      decides='every call leads to the routine body the source defines under '
              'that name')
def r05j(R):
    A = R.A
    ld = A.func(LOADER, 'Loader.load')
    cfg = A.cfg(ld)
    rt = A.calls_nodes(ld, 'Loader._load_runtime')
    script = [n for n in cfg.nodes if n.kind == 'stmt' and isinstance(n.ast, ast.Assign)
              and any(isinstance(t, ast.Subscript) and self_attr(t.value) == '_routines'
                      for t in n.ast.targets)]
    if not rt or not script:
        raise AnalysisError('Loader.load: runtime / script routine '
                            'registration not found (%d / %d)' % (len(rt), len(script)))
    p = cfg.find_path([m for n in script for m, _l in n.succs], lambda n: n in rt)
    R.check(ld, '_load_runtime() before self._routines[<script routine>] = ...',
            p is None,
            'the built-in routines are entered into the routine table after '
            'routines of the script: a script routine whose name a built-in '
            'also has (the name can be re-bound: `define trunc 0` then `define '
            'trunc with x ...`) is replaced, and its calls run the built-in',
            path=path_text(p) if p else None)


def _nested_unbounded(items, inside=False):
    """first (outer, inner) pair of unbounded repeats where the inner one is
    an alternative / the sole item of the outer body"""
    for op, av in items:
        name = str(op)
        if name in ('MAX_REPEAT', 'MIN_REPEAT', 'POSSESSIVE_REPEAT'):
            lo, hi, body = av
            unbounded = 'MAXREPEAT' in str(hi).upper()
            if unbounded and inside:
                return True
            if _nested_unbounded(body, inside or unbounded) is True:
                return True
        elif name == 'BRANCH':
            for alt in av[1]:
                if _nested_unbounded(alt, inside):
                    return True
        elif name == 'SUBPATTERN':
            if _nested_unbounded(av[3], inside):
                return True
        elif name in ('ASSERT', 'ASSERT_NOT'):
            continue
    return False


@rule('R06.q', ('C06', 'C16'), 'no token regex nests an unbounded repeat '
      'inside an unbounded repeat', floor=5,
      decides='the compiler finishes on every text: a line with an '
              'unterminated string is cut into tokens in linear time, not by '
              'trying every way of splitting it')
def r06q(R):
    import re._parser as sre
    from .c16 import token_alternatives
    A = R.A
    lex, alts = token_alternatives(A)
    n = 0
    for name, spec in alts:
        n += 1
        try:
            tree = sre.parse(spec)
        except Exception as e:          # noqa: BLE001
            R.fail(lex, name, 'not a valid regex: %s' % e)
            continue
        R.check(lex, '%s = %s' % (name, spec[:50]), not _nested_unbounded(tree),
                'the alternative %s repeats, without bound, a group that '
                'itself contains an unbounded repeat (`(x+|y)*`): when the '
                'rest of the pattern cannot match - a string whose closing '
                'quote is missing - the matcher tries exponentially many '
                'splits and the compiler does not return' % name)
    if n < 5:
        raise AnalysisError('token regex: only %d alternatives' % n)


@rule('R09.i', ('C09',), 'the machine arms its run flag before it starts the '
      'clock', floor=1,
      decides='a stop request that arrives while the machine is starting is '
              'not overwritten: the flag it cleared stays cleared')
def r09i(R):
    A = R.A
    run = A.func(MACHINE, 'Machine.run')
    stop = A.func(MACHINE, 'Machine.stop')
    flags = [t.attr for n in walk_own(stop.node) if isinstance(n, ast.Assign)
             and isinstance(n.value, ast.Constant) and n.value.value is False
             for t in n.targets if self_attr(t)]
    if len(flags) != 1:
        raise AnalysisError('Machine.stop: run flag not found (%s)' % flags)
    cfg = A.cfg(run)
    arm = [n for n in cfg.nodes if n.kind == 'stmt' and isinstance(n.ast, ast.Assign)
           and any(self_attr(t) == flags[0] for t in n.ast.targets)
           and isinstance(n.ast.value, ast.Constant) and n.ast.value.value is True]
    start = [n for n in cfg.nodes for c in n.calls()
             if isinstance(c.func, ast.Attribute) and c.func.attr == 'start'
             and 'clock' in norm(c.func.value)]
    if not start:
        raise AnalysisError('Machine.run: clock start not found')
    p = cfg.find_path([m for n in start for m, _l in n.succs], lambda n: n in arm) \
        if arm else None
    R.check(run, 'self.%s = True precedes the clock start' % flags[0],
            p is None,
            'run() sets %s to True after the clock has been started: a stop() '
            'that arrives in between has stopped the clock and cleared the '
            'flag, and the flag is set again - the script runs on with a '
            'stopped clock (every delay returns at once) and cannot be '
            'stopped by that request' % flags[0],
            path=path_text(p) if p else None)


CASE_METHODS = ('lower', 'upper', 'casefold', 'title', 'swapcase', 'capitalize')


@rule('R16.j', ('C16', 'C06'), 'the lexer classifies a word as it is written: '
      'no case folding on the way to the keyword, register and abbreviation '
      'tables', floor=3,
      decides='names are case-sensitive: `Hue`, `RED`, `Time` are ordinary '
              'identifiers, not registers')
def r16j(R):
    A = R.A
    lex = A.cls(LEX, 'Lex')
    n = 0
    for m in lex.methods.values():
        if m.name == '__init__':
            continue
        n += 1
        bad = [c for c in A.calls_in(m) if isinstance(c.func, ast.Attribute)
               and c.func.attr in CASE_METHODS]
        flags = [x for x in walk_own(m.node) if isinstance(x, ast.Attribute)
                 and x.attr in ('IGNORECASE', 'I') and norm(x.value) == 're']
        R.check(m, 'Lex.%s: no case folding' % m.name, not bad and not flags,
                'Lex.%s changes the case of the text it classifies (%s): a '
                'name that differs from a register or keyword only in case is '
                'no longer an ordinary identifier' % (
                    m.name, norm(bad[0])[:50] if bad else 're.IGNORECASE'))
    for attr, val in lex.class_attrs.items():
        if any(isinstance(x, ast.Attribute) and x.attr in ('IGNORECASE', 'I')
               and norm(x.value) == 're' for x in ast.walk(val)):
            R.fail(lex, attr, 'the regex %s is compiled case-insensitively' % attr)
    if n < 3:
        raise AnalysisError('Lex: only %d methods' % n)


LOOP = 'bardolph.parser.loop_parser'


@rule('R04.n', ('C04', 'C01'), 'the names of an `in` list are pushed in '
      'reverse: each item\'s code is built aside and appended after the code '
      'of the items that follow it', floor=2,
      decides='the loop variable is bound to the lights, groups and locations '
              'in the order the source lists them (the evaluation stack is '
              'last-in first-out)')
def r04n(R):
    A = R.A
    f = A.func(LOOP, 'LoopParser._pre_loop_list')
    outer = f.params[1] if len(f.params) > 1 else 'code_gen'
    cfg = A.cfg(f)
    parents = {}
    for node in walk_own(f.node):
        for ch in ast.iter_child_nodes(node):
            parents[id(ch)] = node
    rec, app, other = [], [], []
    for x in walk_own(f.node):
        if not (isinstance(x, ast.Name) and x.id == outer
                and isinstance(x.ctx, ast.Load)):
            continue
        p = parents.get(id(x))
        if isinstance(p, ast.Call) and x in p.args and f in A.callees(f, p):
            rec.append(p)
        elif isinstance(p, ast.Attribute) and p.attr in ('add_instructions',) \
                and isinstance(parents.get(id(p)), ast.Call):
            app.append(parents[id(p)])
        else:
            other.append(x)
    if not rec or not app:
        raise AnalysisError('_pre_loop_list: recursive call / final append not '
                            'found (%d / %d)' % (len(rec), len(app)))
    R.check(f, 'the outer code generator is only handed on to the rest of the '
            'list and appended to at the end', not other,
            'the item being parsed emits into the outer code generator '
            'directly (%s): its names are pushed before those of the items '
            'that follow, so they are popped - visited - after them' % (
                norm(parents.get(id(other[0]), other[0]))[:60] if other else ''),
            line=other[0].lineno if other else 0)
    app_nodes = [n for c in app for n in A.node_of_call(f, c)]
    rec_nodes = [n for c in rec for n in A.node_of_call(f, c)]
    p = cfg.find_path([m for n in app_nodes for m, _l in n.succs],
                      lambda n: n in rec_nodes)
    R.check(f, 'append after the recursive call', p is None,
            'the item\'s code is appended before the rest of the list is '
            'compiled: the order of the loop is reversed',
            path=path_text(p) if p else None)


# ------------------------------------------------------------------ R16.k
PARSE = 'bardolph.parser.parse'


class _NodeLike:
    """a CFG node seen as if it tested the expression w"""

    def __init__(self, node, w):
        self._n, self.ast, self.kind = node, w, 'cond'
        self.id, self.succs = node.id, node.succs

    def calls(self):
        return [x for x in ast.walk(self.ast) if isinstance(x, ast.Call)]

    def exprs(self):
        return [self.ast]


def _token_text_expr(e):
    from ..tokstate import TOKEN_EXPRS
    if isinstance(e, ast.Attribute) and e.attr == 'content' \
            and norm(e.value) in TOKEN_EXPRS:
        return True
    if isinstance(e, ast.Call) and norm(e.func) == 'str' and e.args \
            and norm(e.args[0]) in TOKEN_EXPRS:
        return True
    return norm(e) in TOKEN_EXPRS


@rule('R16.k', ('C16', 'C19', 'C18'), 'where a quoted string is an '
      'acceptable value, the parser does not decide on the text of the token '
      'alone', floor=3,
      decides='a quoted string may contain any characters: "-", "{", "[" or '
              '"all" in quotes is the string, not the mark or keyword (the '
              'lexer strips the quotes, so the text is the same)')
def r16k(R):
    from ..tokstate import TokState
    A = R.A
    ts = R.A._memo.get('tokstate') or TokState(A)
    R.A._memo['tokstate'] = ts
    # functions through which the current token can be taken as a string
    # constant: everything that reaches the constant / string readers
    readers = [g for g in A.repo.all_functions('bardolph.parser')
               if g.name in ('_current_constant', '_current_literal',
                             '_current_str')]
    reach = set(readers)
    changed = True
    while changed:
        changed = False
        for g in A.repo.all_functions('bardolph.parser'):
            if g in reach:
                continue
            if any(t in reach for t in A.rs.callees(g)):
                reach.add(g)
                changed = True
    n_sites = 0
    for f in A.repo.all_functions('bardolph.parser'):
        if f.module.name.endswith(('.token', '.lex')):
            continue
        cfg = A.cfg(f)
        for n in cfg.nodes:
            comps = []
            for e in n.exprs():
                for x in ast.walk(e):
                    if isinstance(x, ast.Compare) and len(x.ops) == 1:
                        l, r = x.left, x.comparators[0]
                        for a, b in ((l, r), (r, l)):
                            if _token_text_expr(a) and isinstance(b, ast.Constant) \
                                    and isinstance(b.value, str) and b.value:
                                comps.append((x, b.value))
            if not comps:
                continue
            # is the token afterwards offered to something that takes a string?
            later = cfg.reachable_from([m for m, _l in n.succs])
            takes_string = any(t in reach for m in later for c in m.calls()
                               for t in A.callees(f, c))
            if not takes_string:
                continue
            st = ts.state_at(f, n)

            def guarded(x):
                # `<class test> and <text test>` inside one expression (an
                # assignment of the flag): the earlier conjunct is a test of
                # the token class that excludes strings
                for e in n.exprs():
                    for b in ast.walk(e):
                        if isinstance(b, ast.BoolOp) and isinstance(b.op, ast.And):
                            for i, v in enumerate(b.values):
                                if any(y is x for y in ast.walk(v)):
                                    for w in b.values[:i]:
                                        t = ts._flag_test(f, _NodeLike(n, w)) \
                                            if isinstance(w, ast.Name) else \
                                            ts.test_of(f, _NodeLike(n, w))
                                        if t and t[1] and 'LITERAL_STRING' not in t[0]:
                                            return True
                return False
            # the token was already offered to the constant reader and was
            # not a constant (`value = self._current_constant()` ...
            # `value is None` on every path here): it is not a string
            not_constant = False
            for atom, truth in A.path_facts(f, n):
                if truth and atom.endswith(' is None'):
                    v = atom[:-len(' is None')]
                    binds = [k.ast for k in cfg.nodes if k.kind == 'stmt'
                             and isinstance(k.ast, ast.Assign)
                             and any(norm(t) == v for t in k.ast.targets)
                             and n in cfg.reachable_from([m for m, _l in k.succs])]
                    if any(not isinstance(b.value, ast.Call) for b in binds):
                        continue
                    if binds and all(any(t in readers for t in A.callees(f, b.value))
                                     for b in binds):
                        not_constant = True
            for x, lit in comps:
                n_sites += 1
                R.check(f, norm(x), st is None or 'LITERAL_STRING' not in st
                        or guarded(x) or not_constant,
                        'this test looks at the text of the current token only, '
                        'and the token can be a quoted string here: "%s" in '
                        'quotes is taken for the %s %s, so a script that '
                        'prints / assigns / names a light with that string is '
                        'rejected or does something else' % (
                            lit, 'mark' if not lit.isalpha() else 'keyword', lit),
                        line=x.lineno)
    if n_sites < 3:
        raise AnalysisError('only %d text comparisons in value positions' % n_sites)


# ------------------------------------------------------------------ R02.j
@rule('R02.j', ('C02', 'C16', 'C06'), 'a compile-time constant is pushed as a '
      'value (PUSHQ), whatever its Python type', floor=1,
      decides='curly braces round a single value - also a string or a macro '
              'holding a string - leave the value unchanged')
def r02j(R):
    from ..const import EnumVal
    A = R.A
    rv = A.func(PARSE, 'Parser._rvalue')
    # the local that says "the value is a constant"
    quoted = [n for n in walk_own(rv.node) if isinstance(n, ast.Assign)
              and isinstance(n.targets[0], ast.Name)
              and isinstance(A.try_fold(n.value, rv), EnumVal)
              and A.try_fold(n.value, rv).member == 'MOVEQ']
    if not quoted:
        raise AnalysisError('Parser._rvalue: the MOVE / MOVEQ choice was not found')
    var = quoted[0].targets[0].id
    dest = rv.params[1] if len(rv.params) > 1 else 'dest'
    nodes = A.nodes_under(rv, {dest: EnumVal('OpCode', 'PUSH'),
                               var: EnumVal('OpCode', 'MOVEQ')})
    by_type = [c for n in nodes for c in n.calls()
               if 'CodeGen.push' in A.callee_names(rv, c)]
    pushq = [c for n in nodes for call, ops in A.emission_sites(rv)
             if call in n.calls() for c in [call]
             if any(op == 'PUSHQ' for op, _a in ops)]
    R.check(rv, 'constant operand of an expression -> PUSHQ',
            bool(pushq) and not by_type,
            'a constant that is pushed for an enclosing expression goes '
            'through CodeGen.push(), which quotes numbers only: a string '
            'constant (`{"abc"}`, a macro holding a string) is emitted as '
            'PUSH "abc", the VM looks up a variable of that name, pushes None '
            'and stops')


# ------------------------------------------------------------------ R19.i
# statement keywords that cannot be the one-statement body of `define NAME
# <command>` (one line of reason each)
NOT_A_BODY = {
    'DEFINE': 'definitions are not nested',
    'BREAK': 'only meaningful inside a loop of the same body',
    'RETURN': 'a body that only returns is written with begin ... end',
    'MARK': 'not a keyword', 'NAME': 'a call: decided by has_routine',
    'NULL': 'not a keyword',
}


@rule('R19.i', ('C19', 'C01', 'C16'), 'every command keyword starts a '
      'one-statement routine body: the set behind `define NAME <command>` '
      'agrees with the statement dispatch table', floor=10,
      decides='`define rule println "---"` / `define nl println` define '
              'routines that write their text when called, as the same '
              'definitions with print or printf do')
def r19i(R):
    from ..tokstate import TokState
    A = R.A
    ts = R.A._memo.get('tokstate') or TokState(A)
    R.A._memo['tokstate'] = ts
    keys = set()
    for _f, ms in ts._dispatch.items():
        keys |= set(ms)
    tt = A.cls('bardolph.parser.token', 'TokenTypes')
    ie = tt.methods.get('is_executable')
    if ie is None:
        raise AnalysisError('TokenTypes.is_executable not found')
    ex = set(n.attr for n in ast.walk(ie.node) if isinstance(n, ast.Attribute)
             and isinstance(n.value, ast.Name) and n.value.id == 'TokenTypes')
    for k in sorted(keys - set(NOT_A_BODY)):
        R.check(ie, 'TokenTypes.%s starts a routine body' % k, k in ex,
                'the statement keyword %s has a handler in the dispatch table '
                'but is not in the set that makes `define NAME %s ...` a '
                'routine: the definition is taken for a macro and rejected '
                '("Macro needs constant")' % (k.lower(), k.lower()))
