"""Repository index: modules, imports, classes, functions.

Every module under <root>/bardolph and <root>/web (tests excluded) is parsed
once with `ast`. Nothing is imported.
"""
import ast
import hashlib
import os


class AnalysisError(Exception):
    """The analysis cannot be carried out (anchor vanished, unresolved anchor
    call, instance count under the floor...). Exit status 2, never a verdict."""


class FuncInfo:
    def __init__(self, module, cls, node, outer=None):
        self.module = module
        self.cls = cls
        self.node = node
        self.name = node.name
        self.outer = outer          # enclosing FuncInfo for nested defs
        self.decorators = [ast.unparse(d) for d in node.decorator_list]
        self._cfg = None

    @property
    def short(self):
        if self.outer is not None:
            return self.outer.short + '.<locals>.' + self.name
        if self.cls is not None:
            return self.cls.name + '.' + self.name
        return self.module.short + '.' + self.name

    @property
    def qualname(self):
        if self.cls is not None:
            return self.module.name + '.' + self.cls.name + '.' + self.name
        return self.module.name + '.' + self.name

    @property
    def file(self):
        return self.module.relpath

    @property
    def params(self):
        a = self.node.args
        return [x.arg for x in a.posonlyargs + a.args]

    @property
    def is_static(self):
        return any(d in ('staticmethod',) for d in self.decorators)

    @property
    def is_property(self):
        return any(d == 'property' or d.endswith('.setter')
                   for d in self.decorators)

    def injected_interface(self):
        """`@inject(I)` / `@injection.inject(I)` -> source text of I."""
        for d in self.node.decorator_list:
            if isinstance(d, ast.Call):
                f = ast.unparse(d.func)
                if f in ('inject', 'injection.inject') and d.args:
                    return d.args[0]
        return None

    def __repr__(self):
        return '<Func %s>' % self.short


class ClassInfo:
    def __init__(self, module, node):
        self.module = module
        self.node = node
        self.name = node.name
        self.methods = {}
        self.class_attrs = {}       # name -> value expr
        self.bases = []             # resolved ClassInfo (filled later)
        self.base_texts = [ast.unparse(b) for b in node.bases]
        self.subclasses = []

    @property
    def qualname(self):
        return self.module.name + '.' + self.name

    @property
    def file(self):
        return self.module.relpath

    def mro(self):
        """Linearisation good enough for this repository (depth-first, left
        to right, duplicates removed keeping the first)."""
        out, seen = [], set()

        def walk(c):
            if id(c) in seen:
                return
            seen.add(id(c))
            out.append(c)
            for b in c.bases:
                walk(b)
        walk(self)
        return out

    def lookup(self, name):
        for c in self.mro():
            if name in c.methods:
                return c.methods[name]
        return None

    def all_subclasses(self):
        out, todo = [], list(self.subclasses)
        while todo:
            c = todo.pop()
            if c not in out:
                out.append(c)
                todo.extend(c.subclasses)
        return out

    def is_enum(self):
        return any(t in ('Enum', 'enum.Enum') for t in self.base_texts)

    def enum_members(self):
        return [n for n, v in self.class_attrs.items()
                if not n.startswith('_')]

    def instance_attr_names(self):
        """Every `self.x = ...` (or aug-assign / tuple target) in any method
        of this class (not bases)."""
        names = set()
        for m in self.methods.values():
            for node in ast.walk(m.node):
                for t in _store_targets(node):
                    if (isinstance(t, ast.Attribute)
                            and isinstance(t.value, ast.Name)
                            and t.value.id == 'self'):
                        names.add(t.attr)
        return names

    def __repr__(self):
        return '<Class %s>' % self.qualname


def _store_targets(node):
    if isinstance(node, ast.Assign):
        for t in node.targets:
            yield from _flatten_target(t)
    elif isinstance(node, (ast.AugAssign, ast.AnnAssign)):
        yield from _flatten_target(node.target)
    elif isinstance(node, (ast.For, ast.comprehension)):
        yield from _flatten_target(node.target)
    elif isinstance(node, ast.With):
        for item in node.items:
            if item.optional_vars is not None:
                yield from _flatten_target(item.optional_vars)


def _flatten_target(t):
    if isinstance(t, (ast.Tuple, ast.List)):
        for e in t.elts:
            yield from _flatten_target(e)
    elif isinstance(t, ast.Starred):
        yield from _flatten_target(t.value)
    else:
        yield t


store_targets = _store_targets


class ModuleInfo:
    def __init__(self, name, path, relpath, source):
        self.name = name
        self.path = path
        self.relpath = relpath
        self.source = source
        self.tree = ast.parse(source, filename=path)
        self.imports = {}       # local name -> ('module', qual) | ('from', mod, attr)
        self.classes = {}
        self.functions = {}
        self.constants = {}     # name -> value expr (module-level simple assignments)
        self.all_functions = []  # including methods and nested

    @property
    def short(self):
        return self.name.rsplit('.', 1)[-1]

    def __repr__(self):
        return '<Module %s>' % self.name


class Repo:
    PACKAGES = ('bardolph', 'web')

    def __init__(self, root):
        self.root = os.path.abspath(root)
        self.modules = {}
        self._load()
        self._link()

    # ------------------------------------------------------------------
    def _load(self):
        h = hashlib.sha256()
        for pkg in self.PACKAGES:
            top = os.path.join(self.root, pkg)
            if not os.path.isdir(top):
                raise AnalysisError('package directory missing: %s' % top)
            for dirpath, dirnames, filenames in os.walk(top):
                dirnames[:] = sorted(
                    d for d in dirnames
                    if d not in ('__pycache__', 'static', 'templates'))
                for fn in sorted(filenames):
                    if not fn.endswith('.py'):
                        continue
                    path = os.path.join(dirpath, fn)
                    rel = os.path.relpath(path, self.root)
                    modname = rel[:-3].replace(os.sep, '.')
                    if modname.endswith('.__init__'):
                        modname = modname[:-9]
                    with open(path, encoding='utf-8') as f:
                        src = f.read()
                    h.update(rel.encode())
                    h.update(src.encode())
                    try:
                        mod = ModuleInfo(modname, path, rel, src)
                    except SyntaxError as ex:
                        raise AnalysisError(
                            'cannot parse %s: %s' % (rel, ex))
                    self.modules[modname] = mod
                    self._index_module(mod)
        self.digest = h.hexdigest()

    def _index_module(self, mod):
        for node in mod.tree.body:
            self._index_stmt(mod, node)
        # `if __name__ == '__main__':` / try blocks at top level
        for node in mod.tree.body:
            if isinstance(node, (ast.If, ast.Try)):
                for sub in ast.walk(node):
                    if isinstance(sub, (ast.Import, ast.ImportFrom)):
                        self._index_import(mod, sub)
        # imports made inside function bodies (`from bardolph.fakes import
        # fake_light_api` in light_module.configure): they bind the same
        # names for the code of that function; a module-level import of the
        # same name wins
        top = dict(mod.imports)
        for node in ast.walk(mod.tree):
            if isinstance(node, (ast.FunctionDef, ast.AsyncFunctionDef)):
                for sub in ast.walk(node):
                    if isinstance(sub, (ast.Import, ast.ImportFrom)):
                        self._index_import(mod, sub)
        mod.imports.update(top)

    def _index_import(self, mod, node):
        if isinstance(node, ast.Import):
            for a in node.names:
                if a.asname:
                    mod.imports[a.asname] = ('module', a.name)
                else:
                    mod.imports[a.name.split('.')[0]] = (
                        'module', a.name.split('.')[0])
        else:
            base = node.module or ''
            if node.level:
                pkg = mod.name.split('.')
                # a module's package is its name minus the last component
                pkg = pkg[:len(pkg) - node.level]
                base = '.'.join(pkg + ([base] if base else []))
            for a in node.names:
                mod.imports[a.asname or a.name] = ('from', base, a.name)

    def _index_stmt(self, mod, node):
        if isinstance(node, (ast.Import, ast.ImportFrom)):
            self._index_import(mod, node)
        elif isinstance(node, (ast.FunctionDef, ast.AsyncFunctionDef)):
            f = FuncInfo(mod, None, node)
            mod.functions[node.name] = f
            self._register_func(mod, f)
        elif isinstance(node, ast.ClassDef):
            c = ClassInfo(mod, node)
            mod.classes[node.name] = c
            for sub in node.body:
                if isinstance(sub, (ast.FunctionDef, ast.AsyncFunctionDef)):
                    f = FuncInfo(mod, c, sub)
                    # property setter overrides share the name: keep getter
                    if sub.name in c.methods and any(
                            d.endswith('.setter') for d in f.decorators):
                        c.methods[sub.name + '.setter'] = f
                    else:
                        c.methods[sub.name] = f
                    self._register_func(mod, f)
                elif isinstance(sub, ast.Assign):
                    for t in sub.targets:
                        for tt in _flatten_target(t):
                            if isinstance(tt, ast.Name):
                                c.class_attrs[tt.id] = sub.value
                elif isinstance(sub, ast.AnnAssign) and sub.value is not None:
                    if isinstance(sub.target, ast.Name):
                        c.class_attrs[sub.target.id] = sub.value
        elif isinstance(node, ast.Assign):
            for t in node.targets:
                for tt in _flatten_target(t):
                    if isinstance(tt, ast.Name):
                        mod.constants[tt.id] = node.value

    def _register_func(self, mod, f):
        mod.all_functions.append(f)
        for sub in ast.walk(f.node):
            if sub is f.node:
                continue
            if isinstance(sub, (ast.FunctionDef, ast.AsyncFunctionDef)):
                # nested function: direct children only get `outer` = f; deeper
                # nesting is registered with the nearest registered ancestor
                if _nearest_def(f.node, sub) is f.node:
                    nf = FuncInfo(mod, f.cls if False else None, sub, outer=f)
                    self._register_func(mod, nf)
            elif isinstance(sub, ast.ClassDef):
                pass

    def _link(self):
        for mod in self.modules.values():
            for c in mod.classes.values():
                for b in c.node.bases:
                    r = self.resolve_expr_static(mod, b)
                    if isinstance(r, ClassInfo):
                        c.bases.append(r)
                        r.subclasses.append(c)

    # ------------------------------------------------------------------
    def module(self, name):
        m = self.modules.get(name)
        if m is None:
            raise AnalysisError('module vanished: %s' % name)
        return m

    def cls(self, modname, clsname):
        c = self.module(modname).classes.get(clsname)
        if c is None:
            raise AnalysisError('class vanished: %s.%s' % (modname, clsname))
        return c

    def func(self, modname, name):
        """name is 'Class.method' or 'function'."""
        mod = self.module(modname)
        if '.' in name:
            cn, mn = name.split('.', 1)
            c = mod.classes.get(cn)
            f = c.lookup(mn) if c is not None else None
            if c is not None and f is None:
                f = c.methods.get(mn)
        else:
            f = mod.functions.get(name)
        if f is None:
            raise AnalysisError('function vanished: %s:%s' % (modname, name))
        return f

    def try_func(self, modname, name):
        try:
            return self.func(modname, name)
        except AnalysisError:
            return None

    def all_functions(self, prefix=None):
        for mod in self.modules.values():
            if prefix and not mod.name.startswith(prefix):
                continue
            for f in mod.all_functions:
                yield f

    def all_classes(self):
        for mod in self.modules.values():
            for c in mod.classes.values():
                yield c

    # ------------------------------------------------------------------
    def resolve_name(self, mod, name):
        """Resolve a bare name used in `mod` to ModuleInfo / ClassInfo /
        FuncInfo / ('const', ModuleInfo, name) / ('extern', dotted)."""
        if name in mod.classes:
            return mod.classes[name]
        if name in mod.functions:
            return mod.functions[name]
        if name in mod.constants:
            return ('const', mod, name)
        imp = mod.imports.get(name)
        if imp is None:
            return None
        if imp[0] == 'module':
            m = self.modules.get(imp[1])
            return m if m is not None else ('extern', imp[1])
        _, base, attr = imp
        full = base + '.' + attr if base else attr
        if full in self.modules:
            return self.modules[full]
        m = self.modules.get(base)
        if m is None:
            return ('extern', full)
        if attr in m.classes or attr in m.functions or attr in m.constants \
                or attr in m.imports:
            return self.resolve_name(m, attr)
        return ('extern', full)

    def resolve_expr_static(self, mod, expr):
        """Resolve Name / dotted Attribute chains that denote a module member
        (class, function, module, constant, class attribute)."""
        if isinstance(expr, ast.Name):
            return self.resolve_name(mod, expr.id)
        if isinstance(expr, ast.Attribute):
            base = self.resolve_expr_static(mod, expr.value)
            if isinstance(base, ModuleInfo):
                # submodule?
                sub = self.modules.get(base.name + '.' + expr.attr)
                if sub is not None and expr.attr not in base.classes \
                        and expr.attr not in base.functions:
                    return sub
                return self.resolve_name(base, expr.attr)
            if isinstance(base, ClassInfo):
                for c in base.mro():
                    if expr.attr in c.methods:
                        return c.methods[expr.attr]
                    if expr.attr in c.class_attrs:
                        return ('classattr', c, expr.attr)
                return None
            if isinstance(base, tuple) and base[0] == 'extern':
                return ('extern', base[1] + '.' + expr.attr)
        return None


def _nearest_def(root, target):
    """Return the nearest enclosing def node of `target` inside `root`."""
    best = [None]

    def walk(node, current):
        for child in ast.iter_child_nodes(node):
            if child is target:
                best[0] = current
                return True
            nxt = current
            if isinstance(child, (ast.FunctionDef, ast.AsyncFunctionDef,
                                  ast.Lambda)):
                nxt = child if not isinstance(child, ast.Lambda) else current
            if walk(child, nxt):
                return True
        return False
    walk(root, root)
    return best[0]


def norm(node):
    """Normalised text of a construct: position- and layout-independent."""
    if node is None:
        return ''
    if isinstance(node, str):
        return node
    try:
        return ast.unparse(node)
    except Exception:
        return repr(node)


def short_norm(node, limit=160):
    t = ' '.join(norm(node).split())
    return t if len(t) <= limit else t[:limit - 3] + '...'
