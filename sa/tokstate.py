"""Token-type state of the recursive-descent parser.

An interprocedural forward dataflow over the CFGs of bardolph.parser: for
every CFG node the set of TokenTypes members the *current token* can have
when the node is reached. The lattice is the powerset of the enum (join =
union); facts come from

  * the tests the parser itself makes (`is_a`, `is_any`, `token_type is / in`),
    applied to `self._current_token`, `self.current_token` or a local bound to
    one of them with no token consumed in between;
  * the statement dispatch table (a handler registered under key K is entered
    with the token type K);
  * token consumption: after a call that may reach `next_token()` nothing is
    known (the full set).

Entry states are the union over all call sites (context-insensitive), iterated
to a fixpoint. A function no parser code calls is entered with the full set.
"""
import ast

from . import const as K
from .index import AnalysisError, norm

PARSER_PKG = 'bardolph.parser'
TOKEN_EXPRS = ('self._current_token', 'self.current_token',
               'self.parser.current_token', 'self.parser._current_token')


class TokState:
    def __init__(self, analysis):
        self.A = analysis
        A = analysis
        tt = A.cls('bardolph.parser.token', 'TokenTypes')
        self.universe = frozenset(tt.enum_members())
        if len(self.universe) < 30:
            raise AnalysisError('TokenTypes: only %d members found'
                                % len(self.universe))
        self.funcs = [f for f in A.repo.all_functions(PARSER_PKG)]
        self.fset = set(self.funcs)
        self._advance = self._may_advance()
        self._dispatch = self._dispatch_table()
        self.entry = {}
        self.node_state = {}
        self._solve()

    # ----------------------------------------------------------- advance
    def _calls_next_token(self, f):
        for c in self.A.calls_in(f):
            if isinstance(c.func, ast.Attribute) and c.func.attr == 'next_token':
                return True
        return False

    def _may_advance(self):
        A = self.A
        adv = set(f for f in self.funcs if self._calls_next_token(f)
                  or f.name == 'next_token')
        changed = True
        while changed:
            changed = False
            for f in self.funcs:
                if f in adv:
                    continue
                for s in A.rs.sites(f):
                    if any(c in adv for c in s.callees):
                        adv.add(f)
                        changed = True
                        break
        return adv

    def node_advances(self, f, n):
        A = self.A
        for c in n.calls():
            if isinstance(c.func, ast.Attribute) and c.func.attr == 'next_token':
                return True
            if any(t in self._advance for t in A.callees(f, c)):
                return True
        # property loads that run parser code
        for s in A.rs.sites(f):
            if s.kind == 'property' and any(t in self._advance for t in s.callees):
                if any(s.node is x for e in n.exprs() for x in ast.walk(e)):
                    return True
        return False

    # ---------------------------------------------------------- dispatch
    def _dispatch_table(self):
        """{FuncInfo: set of TokenTypes members it is registered under} and
        the dispatching call node(s)."""
        A = self.A
        init = A.func(PARSER_PKG + '.parse', 'Parser.__init__')
        out = {}
        cls = init.cls
        for f in cls.methods.values():
            for d in ast.walk(f.node):
                if not isinstance(d, ast.Dict) or len(d.keys) < 10:
                    continue
                pairs = []
                for k, v in zip(d.keys, d.values):
                    kv = A.try_fold(k, f) if k is not None else None
                    if isinstance(kv, K.EnumVal) and kv.enum == 'TokenTypes' \
                            and isinstance(v, ast.Attribute) \
                            and isinstance(v.value, ast.Name) and v.value.id == 'self':
                        m = cls.lookup(v.attr)
                        if m is not None:
                            pairs.append((kv.member, m))
                if len(pairs) >= 10:
                    for member, m in pairs:
                        out.setdefault(m, set()).add(member)
        if len(out) < 10:
            raise AnalysisError('statement dispatch table: only %d handlers '
                                'resolved' % len(out))
        return out

    # ------------------------------------------------------------- tests
    def _aliases(self, f):
        """locals of f bound to the current token -> [binding statement]."""
        out = {}
        for n in ast.walk(f.node):
            if isinstance(n, ast.Assign) and len(n.targets) == 1 and \
                    isinstance(n.targets[0], ast.Name) and \
                    norm(n.value) in TOKEN_EXPRS:
                out.setdefault(n.targets[0].id, []).append(n)
        return out

    def _is_token(self, f, e, node):
        t = norm(e)
        if t in TOKEN_EXPRS:
            return True
        if isinstance(e, ast.Name) and e.id in self._aliases(f):
            # valid only while nothing was consumed since the binding
            cfg = self.A.cfg(f)
            defs = [n for n in cfg.nodes if n.kind == 'stmt'
                    and n.ast in self._aliases(f)[e.id]]
            others = [n for n in ast.walk(f.node)
                      if isinstance(n, (ast.Assign, ast.AugAssign, ast.For))
                      and any(isinstance(x, ast.Name) and x.id == e.id
                              and isinstance(x.ctx, ast.Store)
                              for x in ast.walk(n))]
            if len(others) != len(defs):
                return False
            adv = [n for n in cfg.nodes if self.node_advances(f, n)]
            for d in defs:
                after = cfg.reachable_from([m for m, _l in d.succs])
                for a in adv:
                    if a in after and node in cfg.reachable_from(
                            [m for m, _l in a.succs]):
                        return False
            return True
        return False

    def _flag_test(self, f, node):
        """`flag = <token>.is_a(X)` ... `if flag`: the test the flag stands
        for, while the token has not been consumed since the binding and the
        flag has exactly that one binding."""
        e = node.ast
        if not isinstance(e, ast.Name):
            return None
        binds = [n for n in ast.walk(f.node) if isinstance(n, ast.Assign)
                 and any(isinstance(t, ast.Name) and t.id == e.id
                         for t in n.targets)]
        others = [n for n in ast.walk(f.node)
                  if isinstance(n, (ast.AugAssign, ast.For, ast.NamedExpr))
                  and any(isinstance(x, ast.Name) and x.id == e.id
                          and isinstance(x.ctx, ast.Store) for x in ast.walk(n))]
        if len(binds) != 1 or others or e.id in f.params:
            return None
        v = binds[0].value
        if not (isinstance(v, ast.Call) and isinstance(v.func, ast.Attribute)
                and v.func.attr in ('is_a', 'is_any')
                and norm(v.func.value) in TOKEN_EXPRS):
            return None
        cfg = self.A.cfg(f)
        defs = [n for n in cfg.nodes if n.kind == 'stmt' and n.ast is binds[0]]
        if not defs:
            return None
        adv = [n for n in cfg.nodes if self.node_advances(f, n)]
        for d in defs:
            after = cfg.reachable_from([m for m, _l in d.succs])
            for a in adv:
                if a in after and node in cfg.reachable_from(
                        [m for m, _l in a.succs]):
                    return None
        vals = [self.A.try_fold(a, f) for a in v.args]
        if vals and all(isinstance(x, K.EnumVal) for x in vals):
            return frozenset(x.member for x in vals), True
        return None

    def test_of(self, f, node):
        """(member set, truth-means-member) for a cond node that tests the
        current token's type, else None."""
        A = self.A
        e = node.ast
        flag = self._flag_test(f, node)
        if flag is not None:
            return flag
        if isinstance(e, ast.Call) and isinstance(e.func, ast.Attribute) \
                and e.func.attr in ('is_a', 'is_any') \
                and self._is_token(f, e.func.value, node):
            vals = [A.try_fold(a, f) for a in e.args]
            if vals and all(isinstance(v, K.EnumVal) for v in vals):
                return frozenset(v.member for v in vals), True
            return None
        if isinstance(e, ast.Compare) and len(e.ops) == 1 \
                and isinstance(e.left, ast.Attribute) \
                and e.left.attr == 'token_type' \
                and self._is_token(f, e.left.value, node):
            v = A.try_fold(e.comparators[0], f)
            op = e.ops[0]
            if isinstance(v, K.EnumVal) and isinstance(op, (ast.Is, ast.Eq)):
                return frozenset([v.member]), True
            if isinstance(v, K.EnumVal) and isinstance(op, (ast.IsNot, ast.NotEq)):
                return frozenset([v.member]), False
            if isinstance(v, (tuple, list, set, frozenset)) and v and \
                    all(isinstance(x, K.EnumVal) for x in v):
                s = frozenset(x.member for x in v)
                if isinstance(op, ast.In):
                    return s, True
                if isinstance(op, ast.NotIn):
                    return s, False
        return None

    # ------------------------------------------------------------- solve
    def _flow(self, f, entry_state):
        """{node id: state before the node} for one function."""
        cfg = self.A.cfg(f)
        state = {cfg.entry.id: entry_state}
        work = [cfg.entry]
        adv_cache = {}
        test_cache = {}
        while work:
            n = work.pop()
            cur = state[n.id]
            if n.id not in adv_cache:
                adv_cache[n.id] = self.node_advances(f, n)
                test_cache[n.id] = self.test_of(f, n) if n.kind == 'cond' \
                    and not adv_cache[n.id] else None
            for m, lab in n.succs:
                if adv_cache[n.id]:
                    out = self.universe
                elif test_cache[n.id] is not None and lab in (True, False):
                    s, positive = test_cache[n.id]
                    member_edge = (lab is True) == positive
                    out = cur & s if member_edge else cur - s
                    if not out:
                        continue            # infeasible
                else:
                    out = cur
                old = state.get(m.id)
                new = out if old is None else old | out
                if new != old:
                    state[m.id] = new
                    work.append(m)
        return state

    def _solve(self):
        A = self.A
        called = set()
        for f in self.funcs:
            for s in A.rs.sites(f):
                for c in s.callees:
                    if c in self.fset:
                        called.add(c)
        for f in self.funcs:
            if f not in called and f not in self._dispatch:
                self.entry[f] = self.universe
        # functions called from outside the parser package as well
        for f in self.funcs:
            for s in A.rs.callers(f):
                if s.func not in self.fset:
                    self.entry[f] = self.universe
        for _round in range(40):
            changed = False
            for f in self.funcs:
                if f not in self.entry:
                    continue
                st = self._flow(f, self.entry[f])
                self.node_state[f] = st
                cfg = A.cfg(f)
                sites = A.rs.sites(f)
                for n in cfg.nodes:
                    if n.id not in st:
                        continue
                    seen_adv = False
                    here = [s for s in sites if s.kind in ('call', 'property')
                            and any(s.node is x for e in n.exprs()
                                    for x in ast.walk(e))]
                    for s in here:
                        cur = self.universe if seen_adv else st[n.id]
                        for c in s.callees:
                            if c not in self.fset:
                                continue
                            give = cur
                            if c in self._dispatch and len(s.callees) >= 10:
                                give = cur & frozenset(self._dispatch[c])
                                if not give:
                                    continue
                            old = self.entry.get(c)
                            new = give if old is None else old | give
                            if new != old:
                                self.entry[c] = new
                                changed = True
                        if any(c in self._advance for c in s.callees) or (
                                isinstance(s.node, ast.Call)
                                and isinstance(s.node.func, ast.Attribute)
                                and s.node.func.attr == 'next_token'):
                            seen_adv = True
            if not changed:
                break
        else:
            raise AnalysisError('token-state analysis did not converge')

    # --------------------------------------------------------------- api
    def state_at(self, f, node):
        """Possible token types when `node` of f is reached; None when the
        analysis finds the node unreachable."""
        st = self.node_state.get(f)
        if st is None:
            return None
        return st.get(node.id)
