"""CLI: ./check <property id> [--tier quick|thorough] [--rule Rnn.x] [--replay path]

exit 0  every rule instance discharged (known findings are printed, not failed)
exit 1  a finding not listed in known_findings.json: VIOLATION property=<id> replay=<path>
exit 2  ANALYSIS-ERROR (anchor vanished, instance floor not met, internal error)
"""
import argparse
import json
import os
import sys
import traceback
import warnings

warnings.simplefilter('ignore')     # SyntaxWarning from the analysed sources


def main(argv=None):
    ap = argparse.ArgumentParser()
    ap.add_argument('prop')
    ap.add_argument('--tier', default=os.environ.get('VERIF_TIER', 'quick'))
    ap.add_argument('--repo', default=os.environ.get('VERIF_REPO', '/repo'))
    ap.add_argument('--rule', default=None)
    ap.add_argument('--replay', default=None)
    ap.add_argument('--no-evidence', action='store_true')
    ap.add_argument('--no-selftest', action='store_true')
    args = ap.parse_args(argv)
    tier = args.tier if args.tier in ('quick', 'thorough') else 'quick'
    seed = int(os.environ.get('VERIF_SEED', '0') or 0)
    try:
        from .index import AnalysisError
        from .analysis import Analysis
        from . import rules as _rules   # noqa: F401  (registers everything)
        from .report import run_property
        analysis = Analysis(args.repo)
        if args.replay:
            with open(args.replay) as fh:
                for f in json.load(fh):
                    print('replaying %s on %s' % (f['rule'], f['function']))
                    args.rule = f['rule']
                    break
        status, lines = run_property(
            analysis, args.prop, tier, seed, only_rule=args.rule,
            write_evidence=not (args.no_evidence or args.rule))
        for ln in lines:
            print(ln)
        if tier == 'thorough' and status == 0 and not args.no_selftest \
                and not args.rule:
            from . import selftest
            st = selftest.run_for_property(args.prop, args.repo)
            for ln in st['lines']:
                print(ln)
            if not st['ok']:
                print('ANALYSIS-ERROR self-test of the checker failed for %s'
                      % args.prop)
                return 2
            selftest.merge_into_evidence(args.prop, st)
        return status
    except Exception as ex:        # includes AnalysisError
        name = type(ex).__name__
        if name != 'AnalysisError':
            traceback.print_exc()
        print('ANALYSIS-ERROR property=%s %s: %s' % (args.prop, name, ex))
        return 2


if __name__ == '__main__':
    sys.exit(main())
