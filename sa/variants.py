"""Self-test corpus: one-edit variants of /repo (see sa/selftest.py).

B(...) = break variant: must be reported by `rule`.
N(...) = benign variant: behaviour-preserving, every rule of the property
         must stay silent.
Each edit is (relative path, old text, new text); old must occur exactly once
in the *current* tree (a stale variant is reported, not counted as a miss).
"""

VARIANTS = []

PARSE = 'bardolph/parser/parse.py'
MACHINE = 'bardolph/vm/machine.py'
TOKEN = 'bardolph/parser/token.py'
EXPR = 'bardolph/parser/expr_parser.py'
VMMATH = 'bardolph/vm/vm_math.py'
LEX = 'bardolph/parser/lex.py'
CODEGEN = 'bardolph/parser/code_gen.py'
LOOP = 'bardolph/parser/loop_parser.py'
CONTEXT = 'bardolph/parser/context.py'
LOADER = 'bardolph/vm/loader.py'
CALLSTACK = 'bardolph/vm/call_stack.py'
JOBS = 'bardolph/lib/job_control.py'
CLOCK = 'bardolph/lib/clock.py'
TIMEPAT = 'bardolph/lib/time_pattern.py'
LIGHTSET = 'bardolph/controller/light_set.py'
LANLIGHT = 'bardolph/controller/lifx_lan_light.py'
LANAPI = 'bardolph/controller/lifx_lan_api.py'
UNITS = 'bardolph/controller/units.py'
MATRIX = 'bardolph/controller/color_matrix.py'
MPARSER = 'bardolph/parser/matrix_parser.py'
IOPARSER = 'bardolph/parser/io_parser.py'
VMIO = 'bardolph/vm/vm_io.py'
VMDISC = 'bardolph/vm/vm_discover.py'
SNAPSHOT = 'bardolph/controller/snapshot.py'
WEBAPP = 'web/web_app.py'
FRONT = 'web/front_end.py'
SORTED = 'bardolph/lib/sorted_list.py'
RETRY = 'bardolph/lib/retry.py'
STDOUT = 'bardolph/lib/std_out_output.py'
SCRIPTJOB = 'bardolph/controller/script_job.py'
PARAMH = 'bardolph/lib/param_helper.py'
MATH = 'bardolph/runtime/bardolph_math.py'


def B(vid, prop, rule, *edits, function=None):
    VARIANTS.append(dict(id=vid, prop=prop, rule=rule, kind='break',
                         edits=_triples(edits), function=function))


def N(vid, prop, *edits):
    VARIANTS.append(dict(id=vid, prop=prop, rule=None, kind='benign',
                         edits=_triples(edits)))


def _triples(edits):
    assert len(edits) % 3 == 0
    return [tuple(edits[i:i + 3]) for i in range(0, len(edits), 3)]


# ------------------------------------------------------------------ C01
B('c01-no-nop-handler', 'C01', 'R01.a', MACHINE,
  "    def _nop(self) -> None: pass\n", "    def _no_op(self) -> None: pass\n")
B('c01-power-table-drops-group', 'C01', 'R01.a', MACHINE,
  "            Operand.GROUP: self._power_group,\n", "")
B('c01-color-table-drops-mz', 'C01', 'R01.a', MACHINE,
  "            (Operand.MZ_LIGHT, self._color_mz_light))}",
  "            )}")
B('c01-default-guard-removed', 'C01', 'R01.a', PARSE,
  """        if self._op_code is not OpCode.COLOR:
            return self.trigger_error('"default" not supported for {}'.format(
                self._op_code.name.lower()))
""", "")
B('c01-zone-guard-removed', 'C01', 'R01.a', PARSE,
  """        if self._op_code is not OpCode.COLOR:
            return self.trigger_error('Zones not supported for {}'.format(
                self._op_code.name.lower()))
""", "")
B('c01-group-duration-raw', 'C01', 'R01.b', MACHINE,
  """        duration = self._as_raw_time(self._reg.duration)
        for light in lights:
            light.set_power(power, duration)""",
  """        duration = self._reg.duration
        for light in lights:
            light.set_power(power, duration)""")
B('c01-color-multiple-unconverted', 'C01', 'R01.b', MACHINE,
  """        color = self._as_raw_color(self._reg.get_color())
        duration = self._as_raw_time(self._reg.duration)
        for light in lights:""",
  """        color = self._reg.get_color()
        duration = self._as_raw_time(self._reg.duration)
        for light in lights:""")
B('c01-zone-duration-unconverted', 'C01', 'R01.b', MACHINE,
  """                self._as_raw_color(self._reg.get_color()),
                self._as_raw_time(self._reg.duration))

    @inject(LightSet)
    def _color_group""",
  """                self._as_raw_color(self._reg.get_color()),
                self._reg.duration)

    @inject(LightSet)
    def _color_group""")
B('c01-wait-per-operand', 'C01', 'R01.c', PARSE,
  """            self.next_token()
            if not self._operand():
                return False
            self._add_instruction(self._op_code)
        return True""",
  """            self.next_token()
            self._add_instruction(OpCode.WAIT)
            if not self._operand():
                return False
            self._add_instruction(self._op_code)
        return True""")
B('c01-and-operand-no-opcode', 'C01', 'R01.d', PARSE,
  """            self.next_token()
            if not self._operand():
                return False
            self._add_instruction(self._op_code)
        return True""",
  """            self.next_token()
            if not self._operand():
                return False
        self._add_instruction(self._op_code)
        return True""")
B('c01-fanout-break', 'C01', 'R01.e', MACHINE,
  """        for light in lights:
            light.set_color(color, duration)""",
  """        for light in lights:
            light.set_color(color, duration)
            break""")
B('c01-fanout-filter', 'C01', 'R01.e', MACHINE,
  """            self._color_multiple(
                [light_set.get_light(name) for name in light_names])

    @inject(LightSet)
    def _color_location""",
  """            self._color_multiple(
                [light_set.get_light(name) for name in light_names
                 if name != self._reg.name])

    @inject(LightSet)
    def _color_location""")
N('c01-rename-local', 'C01', MACHINE,
  """        color = self._as_raw_color(self._reg.get_color())
        duration = self._as_raw_time(self._reg.duration)
        for light in lights:
            light.set_color(color, duration)""",
  """        raw = self._as_raw_color(self._reg.get_color())
        millis = self._as_raw_time(self._reg.duration)
        for each in lights:
            each.set_color(raw, millis)""")
N('c01-inline-args', 'C01', MACHINE,
  """        color = self._as_raw_color(self._reg.get_color())
        duration = self._as_raw_time(self._reg.duration)
        light_set.set_color_all_lights(color, duration)""",
  """        light_set.set_color_all_lights(
            self._as_raw_color(self._reg.get_color()),
            self._as_raw_time(self._reg.duration))""")
N('c01-power-table-reordered', 'C01', MACHINE,
  """            Operand.ALL: self._power_all,
            Operand.LIGHT: self._power_light,""",
  """            Operand.LIGHT: self._power_light,
            Operand.ALL: self._power_all,""")
N('c01-guard-eq-form', 'C01', PARSE,
  """        if self._op_code is not OpCode.COLOR:
            return self.trigger_error('Zones not supported for {}'.format(
                self._op_code.name.lower()))
        self.next_token()
        return self._set_zones()""",
  """        if self._op_code is OpCode.COLOR:
            self.next_token()
            return self._set_zones()
        return self.trigger_error('Zones not supported for {}'.format(
            self._op_code.name.lower()))""")

# ------------------------------------------------------------------ C02
B('c02-prec-missing-pow', 'C02', 'R02.a', TOKEN, "            '^': 7\n", "")
B('c02-isbinop-missing-mod', 'C02', 'R02.a', TOKEN,
  "self.content in '+-*/%^'", "self.content in '+-*/^'")
B('c02-doop-missing-noteq', 'C02', 'R02.a', EXPR,
  "            '==': Operator.EQ,\n            '!=': Operator.NOTEQ}",
  "            '==': Operator.EQ}")
B('c02-vm-missing-mod', 'C02', 'R02.a', VMMATH,
  "        (Operator.MOD, operator.mod),\n", "")
B('c02-prec-mul-eq-add', 'C02', 'R02.b', TOKEN,
  "            '*': 6,", "            '*': 5,")
B('c02-prec-and-or-swapped', 'C02', 'R02.b', TOKEN,
  "            'or': 2,\n            'and': 3,", "            'or': 3,\n            'and': 2,")
B('c02-assoc-pow-left', 'C02', 'R02.b', TOKEN,
  "if self.content in ('not', '^'):", "if self.content in ('not',):")
B('c02-assoc-minus-right', 'C02', 'R02.b', TOKEN,
  "if self.content in ('not', '^'):", "if self.content in ('not', '^', '-'):")
B('c02-div-floordiv', 'C02', 'R02.c', VMMATH,
  "(Operator.DIV, operator.truediv)", "(Operator.DIV, operator.floordiv)")
B('c02-lte-lt', 'C02', 'R02.c', EXPR,
  "'<=': Operator.LTE,", "'<=': Operator.LT,")
B('c02-operands-swapped', 'C02', 'R02.c', VMMATH,
  "VmMath._fn_table[operator](op1, op2)", "VmMath._fn_table[operator](op2, op1)")
B('c02-logical-no-bool', 'C02', 'R02.c', VMMATH,
  "        op2 = bool(self._eval_stack.pop())", "        op2 = self._eval_stack.pop()")
B('c02-and-or-swapped', 'C02', 'R02.c', VMMATH,
  "result = op1 and op2 if operator == Operator.AND else op1 or op2",
  "result = op1 or op2 if operator == Operator.AND else op1 and op2")
B('c02-randrange', 'C02', 'R02.d', MATH,
  "py_random.randint(min, max)", "py_random.randrange(min, max)")
B('c02-uminus-dropped-rvalue', 'C02', 'R02.g', PARSE,
  "                value *= -1\n", "                pass\n")
B('c02-uminus-dropped-atom', 'C02', 'R02.g', EXPR,
  """            if uminus:
                self.code_gen.add_list(
                    (OpCode.PUSHQ, -1),
                    (OpCode.OP, Operator.MUL)
                )
""", "")
N('c02-prec-renumbered', 'C02', TOKEN,
  """            'not': 1,
            'or': 2,
            'and': 3,
            '==': 4,
            '<=': 4,
            '>=': 4,
            '!=': 4,
            '<': 4,
            '>': 4,
            '+': 5,
            '-': 5,
            '*': 6,
            '/': 6,
            '%': 6,
            '^': 7""",
  """            'not': 10,
            'or': 20,
            'and': 30,
            '==': 40,
            '<=': 40,
            '>=': 40,
            '!=': 40,
            '<': 40,
            '>': 40,
            '+': 50,
            '-': 50,
            '*': 60,
            '/': 60,
            '%': 60,
            '^': 70""")
N('c02-randrange-plus-one', 'C02', MATH,
  "py_random.randint(min, max)", "py_random.randrange(min, max + 1)")
N('c02-cmp-spec-reordered', 'C02', LEX,
  "_CMP_SPEC = r'==|<=|>=|!=|[<>]'", "_CMP_SPEC = r'<=|>=|==|!=|<|>'")
N('c02-assoc-rewritten', 'C02', TOKEN,
  """        if self.content in ('not', '^'):
            return Assoc.RIGHT
        return Assoc.LEFT""",
  """        if self.content == '^' or self.content == 'not':
            return Assoc.RIGHT
        else:
            return Assoc.LEFT""")
N('c02-binop-locals-renamed', 'C02', VMMATH,
  """        op2 = self._eval_stack.pop()
        op1 = self._eval_stack.pop()
        self._eval_stack.push(VmMath._fn_table[operator](op1, op2))""",
  """        rhs = self._eval_stack.pop()
        lhs = self._eval_stack.pop()
        self._eval_stack.push(VmMath._fn_table[operator](lhs, rhs))""")

# ------------------------------------------------------------------ C03
B('c03-unwind-self-parent', 'C03', 'R03.a', CALLSTACK,
  """        while isinstance(self._top, LoopFrame):
            self._top = self._top.parent""",
  """        while isinstance(self._top, LoopFrame):
            self._top = self.parent""")
B('c03-no-end-ctx', 'C03', 'R03.b', PARSE,
  "        self._add_instruction(OpCode.END_CTX)\n", "")
B('c03-param-after-jsr', 'C03', 'R03.b', PARSE,
  """            self._add_instruction(OpCode.PARAM, param_name, Register.RESULT)
        self._add_instruction(OpCode.JSR, routine.name)""",
  """            self._add_instruction(OpCode.JSR, routine.name)
            self._add_instruction(OpCode.PARAM, param_name, Register.RESULT)""")
B('c03-end-loop-enters', 'C03', 'R03.b', MACHINE,
  "        self._call_stack.exit_loop()", "        self._call_stack.enter_loop()")
B('c03-exit-routine-no-pop', 'C03', 'R03.b', CALLSTACK,
  """    def exit_routine(self) -> None:
        self._top = self._top.parent""",
  """    def exit_routine(self) -> None:
        self._top = self._top""")
B('c03-return-no-unwind', 'C03', 'R03.b', MACHINE,
  "        self._call_stack.unwind_loops()\n", "")
B('c03-return-pop-before-addr', 'C03', 'R03.b', MACHINE,
  """        self._reg.pc = self._call_stack.get_return()
        self._call_stack.exit_routine()""",
  """        self._call_stack.exit_routine()
        self._reg.pc = self._call_stack.get_return()""")
B('c03-unwind-all-frames', 'C03', 'R03.b', CALLSTACK,
  "        while isinstance(self._top, LoopFrame):\n            self._top = self._top.parent",
  "        while isinstance(self._top, StackFrame):\n            self._top = self._top.parent")
B('c03-loopframe-fresh-params', 'C03', 'R03.c', CALLSTACK,
  "        self.params = parent.params\n", "")
B('c03-loopframe-fresh-vars', 'C03', 'R03.c', CALLSTACK,
  "        self.params = parent.params\n", "        self.params = parent.params\n        self.vars = {}\n")
B('c03-lookup-params-direct', 'C03', 'R03.d', CALLSTACK,
  "for place in (self.constants, self.vars, self.globals):",
  "for place in (self.constants, self.vars, self.params, self.globals):")
B('c03-globals-before-vars', 'C03', 'R03.e', CALLSTACK,
  "for place in (self.constants, self.vars, self.globals):",
  "for place in (self.constants, self.globals, self.vars):")
B('c03-assign-globals-first', 'C03', 'R03.e', CALLSTACK,
  """        elif index in self._top.params:
            self._top.params[index] = value
        elif index in self._top.globals:
            self._top.globals[index] = value""",
  """        elif index in self._top.globals:
            self._top.globals[index] = value
        elif index in self._top.params:
            self._top.params[index] = value""")
N('c03-frame-ifexp-order', 'C03', CALLSTACK,
  "        self.vars = parent.vars if parent is not None else {}",
  "        self.vars = parent.vars if parent else {}")
N('c03-call-routine-local', 'C03', PARSE,
  """        self._add_instruction(OpCode.JSR, routine.name)
        if bracketed:""",
  """        routine_name = routine.name
        self._add_instruction(OpCode.JSR, routine_name)
        if bracketed:""")

# ------------------------------------------------------------------ C04
B('c04-preloop-after-mark', 'C04', 'R04.a', LOOP,
  """        if not self._pre_loop(code_gen, context_stack):
            return False
        loop_top = code_gen.mark()""",
  """        loop_top = code_gen.mark()
        if not self._pre_loop(code_gen, context_stack):
            return False""")
B('c04-test-before-mark', 'C04', 'R04.a', LOOP,
  """        loop_top = code_gen.mark()
        if not self._loop_test(code_gen):
            return False
        exit_loop_marker = code_gen.if_true_start()""",
  """        if not self._loop_test(code_gen):
            return False
        loop_top = code_gen.mark()
        exit_loop_marker = code_gen.if_true_start()""")
B('c04-post-after-jump', 'C04', 'R04.a', LOOP,
  """        if not (self._loop_body(code_gen) and self._loop_post(code_gen)):
            return False
        code_gen.jump_back(loop_top)""",
  """        if not self._loop_body(code_gen):
            return False
        code_gen.jump_back(loop_top)
        if not self._loop_post(code_gen):
            return False""")
B('c04-fix-after-endloop', 'C04', 'R04.b', LOOP,
  """        context_stack.fix_break_addrs(code_gen)
        code_gen.add_instruction(OpCode.END_LOOP)""",
  """        code_gen.add_instruction(OpCode.END_LOOP)
        context_stack.fix_break_addrs(code_gen)""")
B('c04-fix-before-ifend', 'C04', 'R04.b', LOOP,
  """        code_gen.jump_back(loop_top)
        code_gen.if_end(exit_loop_marker)
        context_stack.fix_break_addrs(code_gen)""",
  """        context_stack.fix_break_addrs(code_gen)
        code_gen.jump_back(loop_top)
        code_gen.if_end(exit_loop_marker)""")
B('c04-break-outermost', 'C04', 'R04.b', CONTEXT,
  "        return self._loop_stack[-1].break_list", "        return self._loop_stack[0].break_list")
B('c04-break-unregistered', 'C04', 'R04.b', PARSE,
  "        self._context.add_break(inst)\n", "")
B('c04-push-unit-mode-raw', 'C04', 'R04.c', VMMATH,
  "        if isinstance(srce, Number) or srce is Operand.NULL:",
  "        if isinstance(srce, Number) or srce in (Register.UNIT_MODE, Operand.NULL):")
B('c04-next-bisect-left', 'C04', 'R04.e', SORTED,
  "        pos = bisect.bisect(self, value)\n", "        pos = bisect.bisect_left(self, value)\n")
B('c04-prev-bisect-right', 'C04', 'R04.e', SORTED,
  """        pos = bisect.bisect_left(self, value)
        return None if pos == 0 else self[pos - 1]""",
  """        pos = bisect.bisect_right(self, value)
        return None if pos == 0 else self[pos - 1]""")
B('c04-iter-members-wrong-var', 'C04', 'R04.e', CODEGEN,
  "            (OpCode.DNEXTM, LoopVar.FIRST, LoopVar.CURRENT)",
  "            (OpCode.DNEXTM, LoopVar.FIRST, LoopVar.FIRST)")
B('c04-iter-sets-wrong-operand', 'C04', 'R04.e', CODEGEN,
  """        self._code.extend(list(code))
        self.add_list(
            (OpCode.MOVEQ, operand, Register.OPERAND),
            (OpCode.DNEXT, LoopVar.CURRENT)""",
  """        self._code.extend(list(code))
        self.add_list(
            (OpCode.MOVEQ, Operand.LIGHT, Register.OPERAND),
            (OpCode.DNEXT, LoopVar.CURRENT)""")
B('c04-test-gte-zero', 'C04', 'R04.f', LOOP,
  "            code_gen.test_op(Operator.GT, LoopVar.COUNTER, 0)",
  "            code_gen.test_op(Operator.GTE, LoopVar.COUNTER, 0)")
B('c04-counter-minus-two', 'C04', 'R04.f', LOOP,
  "        code_gen.minus_equals(LoopVar.COUNTER, 1)", "        code_gen.minus_equals(LoopVar.COUNTER, 2)")
B('c04-index-not-advanced', 'C04', 'R04.f', LOOP,
  """        if self._index_var is not None:
            code_gen.plus_equals(self._index_var, LoopVar.INCR)
""", "")
N('c04-gte-one', 'C04', LOOP,
  "            code_gen.test_op(Operator.GT, LoopVar.COUNTER, 0)",
  "            code_gen.test_op(Operator.GTE, LoopVar.COUNTER, 1)")
N('c04-bisect-right-name', 'C04', SORTED,
  "        pos = bisect.bisect(self, value)\n", "        pos = bisect.bisect_right(self, value)\n")
N('c04-repeat-split-cond', 'C04', LOOP,
  """        if not (self._loop_body(code_gen) and self._loop_post(code_gen)):
            return False""",
  """        if not self._loop_body(code_gen):
            return False
        if not self._loop_post(code_gen):
            return False""")

# ------------------------------------------------------------------ C05
B('c05-no-end-loop', 'C05', 'R05.a', LOOP,
  "        code_gen.add_instruction(OpCode.END_LOOP)\n", "")
B('c05-exit-loop-skipped', 'C05', 'R05.a', LOOP,
  "        context_stack.exit_loop()\n        return True", "        return True")
B('c05-routine-no-end', 'C05', 'R05.a', PARSE,
  "        self._add_instruction(OpCode.END, name)\n", "")
B('c05-matrix-no-end', 'C05', 'R05.a', MPARSER,
  "        self.code_gen.add_instruction(OpCode.END, Operand.MATRIX)\n", "")
B('c05-exit-matrix-skipped', 'C05', 'R05.a', MPARSER,
  "        self.context.exit_matrix()\n", "")
B('c05-if-no-end', 'C05', 'R05.b', PARSE,
  "        self._code_gen.if_end(marker)\n        return True", "        return True")
B('c05-if-end-only-with-else', 'C05', 'R05.b', PARSE,
  """            if not self.command_seq():
                return False
        self._code_gen.if_end(marker)
        return True""",
  """            if not self.command_seq():
                return False
            self._code_gen.if_end(marker)
        return True""")
B('c05-iter-no-ifend', 'C05', 'R05.b', CODEGEN,
  """            (OpCode.DNEXTM, LoopVar.FIRST, LoopVar.CURRENT)
        )
        self.jump_back(loop_marker)
        self.if_end(if_marker)""",
  """            (OpCode.DNEXTM, LoopVar.FIRST, LoopVar.CURRENT)
        )
        self.jump_back(loop_marker)""")
B('c05-jsr-unchecked', 'C05', 'R05.c', PARSE,
  """        if routine.undefined:
            return self.token_error('Unknown name: "{}"')

        self._add_instruction(OpCode.CTX)""",
  """        self._add_instruction(OpCode.CTX)""")
B('c05-loader-reverse', 'C05', 'R05.e', LOADER,
  "                    self._main_segment.append(inst)", "                    self._main_segment.insert(0, inst)")
B('c05-ifelse-plus-one', 'C05', 'R05.f', CODEGEN,
  "marker.jump.param1 = self.current_offset - marker.offset + 2",
  "marker.jump.param1 = self.current_offset - marker.offset + 1")
B('c05-ifend-plus-two', 'C05', 'R05.f', CODEGEN,
  "        marker.jump.param1 = self.current_offset - marker.offset + 1",
  "        marker.jump.param1 = self.current_offset - marker.offset + 2")
B('c05-ifelse-marker-stale', 'C05', 'R05.f', CODEGEN,
  "        marker.jump = inst\n        marker.offset = self.current_offset",
  "        marker.jump = inst")
B('c05-jump-back-off-by-one', 'C05', 'R05.f', CODEGEN,
  "        offset = marker.offset - self.current_offset\n",
  "        offset = marker.offset - self.current_offset - 1\n")
B('c05-iftrue-offset-before', 'C05', 'R05.f', CODEGEN,
  """        inst = self.add_instruction(OpCode.JUMP, JumpCondition.IF_FALSE)
        return _JumpMarker(inst, self.current_offset)""",
  """        here = self.current_offset
        inst = self.add_instruction(OpCode.JUMP, JumpCondition.IF_FALSE)
        return _JumpMarker(inst, here)""")
B('c05-break-fix-off', 'C05', 'R05.f', CONTEXT,
  "            inst.param1 = offset - inst.param1", "            inst.param1 = offset - inst.param1 + 1")
B('c05-jump-absolute', 'C05', 'R05.f', MACHINE,
  "                self._reg.pc += inst.param1", "                self._reg.pc = inst.param1")
B('c05-iffalse-table', 'C05', 'R05.f', MACHINE,
  "JumpCondition.IF_FALSE: {True: False, False: True},",
  "JumpCondition.IF_FALSE: {True: True, False: False},")
B('c05-routine-address-off', 'C05', 'R05.g', LOADER,
  "        new_routine.set_address(len(self._routine_segment) + 1)",
  "        new_routine.set_address(len(self._routine_segment))")
B('c05-prologue-off', 'C05', 'R05.g', LOADER,
  "OpCode.JUMP, JumpCondition.ALWAYS, len(self._routine_segment) + 1)]",
  "OpCode.JUMP, JumpCondition.ALWAYS, len(self._routine_segment))]")
B('c05-jsr-return-same', 'C05', 'R05.g', MACHINE,
  "        self._call_stack.set_return(self._reg.pc + 1)", "        self._call_stack.set_return(self._reg.pc)")
N('c05-ifelse-rewritten', 'C05', CODEGEN,
  "marker.jump.param1 = self.current_offset - marker.offset + 2",
  "marker.jump.param1 = 1 + (self.current_offset + 1) - marker.offset")
N('c05-ifend-local', 'C05', CODEGEN,
  "        marker.jump.param1 = self.current_offset - marker.offset + 1",
  "        here = self.current_offset\n        marker.jump.param1 = here + 1 - marker.offset")
N('c05-address-after-local', 'C05', LOADER,
  "        new_routine.set_address(len(self._routine_segment) + 1)",
  "        new_routine.set_address(1 + len(self._routine_segment))")

# ------------------------------------------------------------------ C06
B('c06-breakpoint-no-return', 'C06', 'R06.a', PARSE,
  "        self._code_gen.add_instruction(OpCode.BREAKPOINT)\n        return self.next_token()",
  "        self._code_gen.add_instruction(OpCode.BREAKPOINT)")
B('c06-silent-false', 'C06', 'R06.a', PARSE,
  """        if not self._context.in_loop():
            return self.trigger_error('Encountered "break" not inside loop.')""",
  """        if not self._context.in_loop():
            return False""")
B('c06-predicate-as-failure', 'C06', 'R06.a', PARSE,
  """        if not self._at_rvalue(False):
            return self.token_error('Needed light name, got {}')""",
  """        if not self._at_rvalue(False):
            return False""")
B('c06-bare-return', 'C06', 'R06.a', LOOP,
  """        if not self.current_token.is_a(TokenTypes.NAME):
            return self.token_error('Not a variable name: "{}"')""",
  """        if not self.current_token.is_a(TokenTypes.NAME):
            return""")
B('c06-pause-no-advance', 'C06', 'R06.c', PARSE,
  "        self._add_instruction(OpCode.PAUSE)\n        self.next_token()\n        return True",
  "        self._add_instruction(OpCode.PAUSE)\n        return True")
B('c06-wait-no-advance', 'C06', 'R06.c', PARSE,
  "        self._add_instruction(OpCode.WAIT)\n        return self.next_token()",
  "        self._add_instruction(OpCode.WAIT)\n        return True")
B('c06-members-lookup', 'C06', 'R06.d', LEX,
  "        token_type = _KEYWORDS.get(word)", "        token_type = TokenTypes.__members__.get(word.upper())")
B('c06-case-fold', 'C06', 'R06.d', LEX,
  "        token_type = _KEYWORDS.get(word)", "        token_type = _KEYWORDS.get(word.lower())")
B('c06-eof-is-word', 'C06', 'R06.d', LEX,
  "    TokenTypes.COMPARE, TokenTypes.EOF, TokenTypes.ERROR,", "    TokenTypes.COMPARE, TokenTypes.ERROR,")
B('c06-uminus-unguarded', 'C06', 'R06.e', PARSE,
  """                if not isinstance(value, (int, float)):
                    return self.token_error(
                        'A minus is allowed only for numbers, got "{}".')
""", "")
B('c06-format-parse-unguarded', 'C06', 'R06.e', IOPARSER,
  """        try:
            num_unnamed = sum(
                (1 for field in string.Formatter().parse(format_str)
                 if field[1] is not None
                 and (len(field[1]) == 0 or field[1].isdecimal())))
        except ValueError as ex:
            return self.trigger_error(
                'Invalid format string "{}": {}'.format(format_str, ex))
""", """        num_unnamed = sum(
            (1 for field in string.Formatter().parse(format_str)
             if field[1] is not None
             and (len(field[1]) == 0 or field[1].isdecimal())))
""")
B('c06-units-unguarded', 'C06', 'R06.e', PARSE,
  """        if self._current_token.token_type not in (
                TokenTypes.RAW, TokenTypes.RGB, TokenTypes.LOGICAL):
            return self.token_error('Invalid parameter "{}" for units.')
""", "")
B('c06-units-guard-too-wide', 'C06', 'R06.e', PARSE,
  "                TokenTypes.RAW, TokenTypes.RGB, TokenTypes.LOGICAL):",
  "                TokenTypes.RAW, TokenTypes.RGB, TokenTypes.LOGICAL, TokenTypes.ALL):")
B('c06-number-guard-removed', 'C06', 'R06.e', PARSE,
  """        if self._current_token.is_a(TokenTypes.NUMBER):
            value = int(text) if Lex.is_int(text) else float(text)
        elif self._current_token.is_a(TokenTypes.LITERAL_STRING):""",
  """        if not self._current_token.is_a(TokenTypes.LITERAL_STRING):
            value = int(text) if Lex.is_int(text) else float(text)
        elif self._current_token.is_a(TokenTypes.LITERAL_STRING):""")
B('c06-failed-compile-keeps-program', 'C06', 'R06.f', SCRIPTJOB,
  """        else:
            self._program = None
            logging.error(self._parser.get_errors())""",
  """        else:
            self._program = self._parser.get_program()
            logging.error(self._parser.get_errors())""")
B('c06-execute-unguarded', 'C06', 'R06.f', SCRIPTJOB,
  """        if self._program is not None:
            self._machine.reset()
            self._machine.run(self._program)""",
  """        self._machine.reset()
        self._machine.run(self._program)""")
B('c06-from-string-sentinel', 'C06', 'R06.h', TIMEPAT,
  "                return TimePattern(hours, minutes)\n        return None",
  "                return TimePattern(hours, minutes)\n        return TimePattern(None, None)")
B('c06-macro-none-test', 'C06', 'R06.h', PARSE,
  "            if inner_macro.undefined:", "            if inner_macro is None:")
N('c06-error-via-local', 'C06', PARSE,
  """        if not self._context.in_loop():
            return self.trigger_error('Encountered "break" not inside loop.')""",
  """        if not self._context.in_loop():
            self.trigger_error('Encountered "break" not inside loop.')
            return False""")
N('c06-split-and', 'C06', PARSE,
  "        return self._body() and self._eof()",
  "        if not self._body():\n            return False\n        return self._eof()")
N('c06-keywords-explicit-dict', 'C06', LEX,
  """_KEYWORDS = {
    token_type.name.lower(): token_type for token_type in TokenTypes
    if token_type not in _NON_KEYWORDS}""",
  """_KEYWORDS = dict(
    (token_type.name.lower(), token_type) for token_type in TokenTypes
    if token_type not in _NON_KEYWORDS)""")
N('c06-try-broader', 'C06', IOPARSER,
  "        except ValueError as ex:", "        except (ValueError, IndexError) as ex:")

# ------------------------------------------------------------------ C07
B('c07-set-color-duration-raw', 'C07', 'R07.a', LANLIGHT,
  """        color = param_color(color)
        duration = param_32(duration)
        self._impl.set_color(color, duration, True)""",
  """        color = param_color(color)
        self._impl.set_color(color, duration, True)""")
B('c07-set-power-unclamped', 'C07', 'R07.a', LANLIGHT,
  "        power = param_16(power)\n", "")
B('c07-zone-color-unclamped', 'C07', 'R07.a', LANLIGHT,
  "            color = param_color(color)\n            first_zone", "            first_zone")
B('c07-payload-duration', 'C07', 'R07.a', LANLIGHT,
  '            "duration": param_32(duration),', '            "duration": duration,')
B('c07-payload-colors', 'C07', 'R07.a', LANLIGHT,
  '            "colors": matrix.get_colors(),', '            "colors": matrix.as_list(),')
N('c07-api-all-lights-clamped-upstream', 'C07', LANAPI,
  "        self._lifxlan.set_color_all_lights(color, param_32(duration), True)",
  "        self._lifxlan.set_color_all_lights(color, duration, True)")
B('c07-param16-65536', 'C07', 'R07.b', PARAMH,
  "    return round(max(0, min(param, 0xffff)))", "    return round(max(0, min(param, 0x10000)))")
B('c07-param16-no-round', 'C07', 'R07.b', PARAMH,
  "    return round(max(0, min(param, 0xffff)))", "    return max(0, min(param, 0xffff))")
B('c07-param32-no-lower', 'C07', 'R07.b', PARAMH,
  "    return round(max(0, min(param, 0xffffffff)))", "    return round(min(param, 0xffffffff))")
B('c07-standardize-upper', 'C07', 'R07.b', MATRIX,
  "            raw_color.append(param_16(param))", "            raw_color.append(round(param))")
B('c07-time-raw-100', 'C07', 'R07.c', UNITS,
  "    return logical_time * 1000.0", "    return logical_time * 100.0")
B('c07-pct-65536', 'C07', 'R07.c', UNITS,
  "pct / 100.0 * 65535.0", "pct / 100.0 * 65536.0")
B('c07-hue-scale', 'C07', 'R07.c', UNITS,
  "        h = (logical_value % 360.0) / 360.0 * 65535.0", "        h = (logical_value % 360.0) / 365.0 * 65535.0")
B('c07-hue-no-mod', 'C07', 'R07.c', UNITS,
  "        h = (logical_value % 360.0) / 360.0 * 65535.0", "        h = logical_value / 360.0 * 65535.0")
B('c07-raw-to-logical-hue', 'C07', 'R07.c', UNITS,
  "    h = float(raw_value) / 65535.0 * 360.0", "    h = float(raw_value) / 65536.0 * 360.0")
B('c07-raw-to-logical-sat', 'C07', 'R07.c', UNITS,
  "    s = 100.0 if raw_value >= 65535.0 else float(raw_value) / 65535.0 * 100.0",
  "    s = 100.0 if raw_value >= 65535.0 else float(raw_value) / 65535.0 * 10.0")
B('c07-rgb-input-scale', 'C07', 'R07.c', UNITS,
  """    r, g, b = [rgb_color[i] / 100.0 for i in range(0, 3)]
    h, s, v = colorsys.rgb_to_hsv(r, g, b)
    return [h * 360.0""",
  """    r, g, b = [rgb_color[i] / 255.0 for i in range(0, 3)]
    h, s, v = colorsys.rgb_to_hsv(r, g, b)
    return [h * 360.0""")
B('c07-logical-to-rgb-out', 'C07', 'R07.c', UNITS,
  """    r, g, b = colorsys.hsv_to_rgb(h, s, v)
    return [r * 100.0, g * 100.0, b * 100.0, logical_color[3]]""",
  """    r, g, b = colorsys.hsv_to_rgb(h, s, v)
    return [r * 100.0, g * 10.0, b * 100.0, logical_color[3]]""")
B('c07-wait-raw-seconds', 'C07', 'R14.d', MACHINE,
  "                time /= 1000.0", "                time /= 100.0")
N('c07-hex-to-decimal', 'C07', PARAMH,
  "    return round(max(0, min(param, 0xffff)))", "    return round(min(65535, max(param, 0)))")
N('c07-named-constant', 'C07', UNITS,
  "    return logical_time * 1000.0", "    ms_per_s = 1000.0\n    return ms_per_s * logical_time")
N('c07-pct-reassociated', 'C07', UNITS,
  "pct / 100.0 * 65535.0", "pct * (65535.0 / 100.0)")
N('c07-sanitize-inline', 'C07', LANLIGHT,
  """        color = param_color(color)
        duration = param_32(duration)
        self._impl.set_color(color, duration, True)""",
  """        self._impl.set_color(param_color(color), param_32(duration), True)""")

# ------------------------------------------------------------------ C08
B('c08-clear-unlocked', 'C08', 'R08.a', JOBS,
  """    def clear_queue(self) -> None:
        if self._acquire_lock():
            try:
                self._queue.clear()
            finally:
                self._release_lock()""",
  """    def clear_queue(self) -> None:
        self._queue.clear()""")
B('c08-done-unlocked', 'C08', 'R08.a', JOBS,
  """    def _on_execution_done(self, _):
        if self._acquire_lock():
            try:
                self._active_agent = None
            finally:
                self._release_lock()
            self._run_next_job()""",
  """    def _on_execution_done(self, _):
        self._active_agent = None
        self._run_next_job()""")
B('c08-is-running-unlocked', 'C08', 'R08.a', JOBS,
  """        result = False
        if self._acquire_lock():
            try:
                if (self._active_agent is not None
                        and self._active_agent.name == name):
                    result = True
                else:
                    result = name in self._background
            finally:
                self._release_lock()
        return result""",
  """        if self._active_agent is not None and self._active_agent.name == name:
            return True
        return name in self._background""")
B('c08-background-del-unlocked', 'C08', 'R08.a', JOBS,
  """    def _on_background_done(self, agent):
        if self._acquire_lock():
            try:
                del self._background[agent.name]
            finally:
                self._release_lock()""",
  """    def _on_background_done(self, agent):
        del self._background[agent.name]""")
B('c08-release-not-finally', 'C08', 'R08.b', JOBS,
  """            try:
                if self._active_agent is None and len(self._queue) > 0:
                    self._active_agent = self._queue.popleft()
                    self._active_agent.execute()
            finally:
                self._release_lock()""",
  """            if self._active_agent is None and len(self._queue) > 0:
                self._active_agent = self._queue.popleft()
                self._active_agent.execute()
            self._release_lock()""")
B('c08-double-release', 'C08', 'R08.b', JOBS,
  """                if self._active_agent is None:
                    self._run_next_job()
            finally:
                self._lock.release()""",
  """                if self._active_agent is None:
                    self._run_next_job()
                self._lock.release()
            finally:
                self._lock.release()""")
B('c08-acquire-ignored', 'C08', 'R08.b', JOBS,
  """    def _on_background_done(self, agent):
        if self._acquire_lock():
            try:""",
  """    def _on_background_done(self, agent):
        self._acquire_lock()
        if True:
            try:""")
B('c08-start-without-none-check', 'C08', 'R08.c', JOBS,
  "                if self._active_agent is None and len(self._queue) > 0:",
  "                if len(self._queue) > 0:")
B('c08-start-from-right', 'C08', 'R08.c', JOBS,
  "                    self._active_agent = self._queue.popleft()",
  "                    self._active_agent = self._queue.pop()")
B('c08-start-other-agent', 'C08', 'R08.c', JOBS,
  """                    self._active_agent = self._queue.popleft()
                    self._active_agent.execute()""",
  """                    self._active_agent = self._queue.popleft()
                    self._queue[0].execute()""")
B('c08-callback-not-finally', 'C08', 'R08.d', JOBS,
  """        try:
            self._job.execute()
        finally:
            self._callback(self)""",
  """        self._job.execute()
        self._callback(self)""")
B('c08-next-before-clear', 'C08', 'R08.d', JOBS,
  """            try:
                self._active_agent = None
            finally:
                self._release_lock()
            self._run_next_job()""",
  """            try:
                self._run_next_job()
                self._active_agent = None
            finally:
                self._release_lock()""")
B('c08-callbacks-swapped', 'C08', 'R08.d', JOBS,
  "                agent = Agent(job, self._on_execution_done, name)",
  "                agent = Agent(job, self._on_background_done, name)")
B('c08-spawn-start-before-register', 'C08', 'R08.e', JOBS,
  """                self._background[agent.name] = agent
                agent.execute()""",
  """                agent.execute()
                self._background[agent.name] = agent""")
B('c08-insert-appends-right', 'C08', 'R08.f', JOBS,
  "        return self._enqueue_job(job, self._queue.appendleft, name)",
  "        return self._enqueue_job(job, self._queue.append, name)")
N('c08-release-helper', 'C08', JOBS,
  """                if self._active_agent is None:
                    self._run_next_job()
            finally:
                self._lock.release()""",
  """                if self._active_agent is None:
                    self._run_next_job()
            finally:
                self._release_lock()""")
N('c08-guard-reordered', 'C08', JOBS,
  "                if self._active_agent is None and len(self._queue) > 0:",
  "                if len(self._queue) > 0 and self._active_agent is None:")
N('c08-get-current-atomic', 'C08', JOBS,
  "    def get_current(self):\n        return self._active_agent",
  "    def get_current(self):\n        current = self._active_agent\n        return current")

# ------------------------------------------------------------------ C09
B('c09-loop-ignores-flag', 'C09', 'R09.a', MACHINE,
  "            while self._keep_running and self._reg.pc < program_len:",
  "            while self._reg.pc < program_len:")
B('c09-stop-keeps-clock', 'C09', 'R09.a', MACHINE,
  "    def stop(self) -> None:\n        self._keep_running = False\n        self._clock.stop()",
  "    def stop(self) -> None:\n        self._keep_running = False")
B('c09-request-stop-noop', 'C09', 'R09.a', SCRIPTJOB,
  "    def request_stop(self):\n        self._machine.stop()", "    def request_stop(self):\n        pass")
B('c09-wait-until-ignores-wait', 'C09', 'R09.b', CLOCK,
  "            if not self.wait():\n                return\n            hour, minute", "            self.wait()\n            hour, minute")
B('c09-pause-ignores-wait', 'C09', 'R09.b', CLOCK,
  "            if not self.wait():\n                break", "            self.wait()")
B('c09-wait-rearms', 'C09', 'R09.c', CLOCK,
  "    def reset(self):\n        self._cue_time = 0.0",
  "    def reset(self):\n        self._keep_going = True\n        self._cue_time = 0.0")
B('c09-stop-all-order', 'C09', 'R09.d', WEBAPP,
  """        self._jobs.clear_queue()
        result1 = self._jobs.stop_current()""",
  """        result1 = self._jobs.stop_current()
        self._jobs.clear_queue()""")
B('c09-stop-script-noop', 'C09', 'R09.d', WEBAPP,
  "        return self._jobs.stop_job(script_control.path)", "        return self._jobs.is_running(script_control.path)")
B('c09-clock-stop-in-try', 'C09', 'R09.e', MACHINE,
  """        finally:
            self._clock.stop()
            self._vm_io.flush()""",
  """            self._clock.stop()
        finally:
            self._vm_io.flush()""")
N('c09-flag-second', 'C09', MACHINE,
  "            while self._keep_running and self._reg.pc < program_len:",
  "            while self._reg.pc < program_len and self._keep_running:")
N('c09-wait-until-break', 'C09', CLOCK,
  "            if not self.wait():\n                return\n            hour, minute",
  "            if not self.wait():\n                break\n            hour, minute")

# ------------------------------------------------------------------ C11
B('c11-hours-lt-25', 'C11', 'R11.a', TIMEPAT,
  "        return 0 <= int_hours < 24", "        return 0 <= int_hours < 25")
B('c11-minutes-range-59', 'C11', 'R11.a', TIMEPAT,
  "            for minute in range(0, 60):", "            for minute in range(0, 59):")
B('c11-hours-range-23', 'C11', 'R11.a', TIMEPAT,
  "            for hour in range(0, 24):", "            for hour in range(0, 23):")
B('c11-minutes-60-const', 'C11', 'R11.a', TIMEPAT,
  "    MINUTES_60 = set(range(0, 60))", "    MINUTES_60 = set(range(1, 60))")
B('c11-leading-digit-3', 'C11', 'R11.a', TIMEPAT,
  "            return hours[0] in '012'", "            return hours[0] in '0123'")
B('c11-minutes-le-60', 'C11', 'R11.a', TIMEPAT,
  "        return 0 <= int_minutes < 60", "        return 0 <= int_minutes <= 60")
B('c11-union-product', 'C11', 'R11.b', TIMEPAT,
  """        self._alternatives.extend(other._alternatives)

    def match(self, hours, minutes):
        return any(hours in hour_set and minutes in minute_set
                   for hour_set, minute_set in self._alternatives)""",
  """        self._hour_set.update(other._hour_set)
        self._minute_set.update(other._minute_set)

    def match(self, hours, minutes):
        return hours in self._hour_set and minutes in self._minute_set""")
B('c11-union-ignored-by-match', 'C11', 'R11.b', TIMEPAT,
  """        return any(hours in hour_set and minutes in minute_set
                   for hour_set, minute_set in self._alternatives)""",
  """        return hours in self._hour_set and minutes in self._minute_set""")
B('c11-init-aliases-operand', 'C11', 'R11.c', MACHINE,
  "            self._reg.time = inst.param1.copy()", "            self._reg.time = inst.param1")
B('c11-lexer-own-regex', 'C11', 'R11.e', LEX,
  "    _TIME_PATTERN = TimePattern.REGEX",
  "    _TIME_PATTERN = re.compile(r'(\\*|\\d\\d?):(\\d\\d|\\*)')")
B('c11-number-match-one-digit', 'C11', 'R11.f', TIMEPAT,
  """                or (pattern[0] in ('*', formatted[0])
                    and pattern[1] in ('*', formatted[1])))""",
  """                or (pattern[0] in ('*', formatted[0])
                    and pattern[1] in ('*', formatted[0])))""")
N('c11-valid-le-form', 'C11', TIMEPAT,
  "        return 0 <= int_hours < 24", "        return 0 <= int_hours <= 23")
N('c11-range-one-arg', 'C11', TIMEPAT,
  "            for minute in range(0, 60):", "            for minute in range(60):")
N('c11-const-via-len', 'C11', TIMEPAT,
  "    HOURS_24 = set(range(0, 24))", "    HOURS_24 = set(range(24))")

# ------------------------------------------------------------------ C12
B('c12-matrix-check-dropped', 'C12', 'R12.a', MACHINE,
  "        if light is not None and self._matrix_check(light):", "        if light is not None:")
B('c12-zone-check-dropped', 'C12', 'R12.a', MACHINE,
  "        if light is not None and self._zone_check(light):", "        if light is not None:")
B('c12-matrix-helper-wrong-type', 'C12', 'R12.a', MACHINE,
  """    def _matrix_check(self, light) -> bool:
        if not isinstance(light, MatrixLight):""",
  """    def _matrix_check(self, light) -> bool:
        if not isinstance(light, (MatrixLight, MultizoneLight)):""")
B('c12-snapshot-multizone-unguarded', 'C12', 'R12.a', SNAPSHOT,
  """                else:
                    self.start_light(light)
                    self.light(light)""",
  """                else:
                    self.start_light(light)
                    self.multizone(light)
                    self.light(light)""")
B('c12-max-tries-5', 'C12', 'R12.b', LANLIGHT, "_MAX_TRIES = 3", "_MAX_TRIES = 5")
B('c12-set-color-no-retry', 'C12', 'R12.b', LANLIGHT,
  """    @tries(_MAX_TRIES, WorkflowException)
    def set_color(self, color, duration):""",
  """    def set_color(self, color, duration):""")
B('c12-retry-counts-every-pass', 'C12', 'R12.b', RETRY,
  """                try:
                    return fn(*args, **kwargs)
                except ex_type as ex:
                    logging.warning(ex)
                    tries_remaining -= 1""",
  """                try:
                    return fn(*args, **kwargs)
                except ex_type as ex:
                    logging.warning(ex)""")
B('c12-retry-silent', 'C12', 'R12.b', RETRY,
  "            logging.warning('Giving up after {} tries.'.format(num_tries))\n", "")
B('c12-nested-retry', 'C12', 'R12.b', LANLIGHT,
  """        result = self._impl.req_with_resp(GetDeviceChain, StateDeviceChain)""",
  """        self.get_power()
        result = self._impl.req_with_resp(GetDeviceChain, StateDeviceChain)""")
B('c12-len-of-none', 'C12', 'R12.c', LANLIGHT,
  "len(self.get_zone_colors() or [])", "len(self.get_zone_colors())")
B('c12-snapshot-enumerate-none', 'C12', 'R12.c', SNAPSHOT,
  "enumerate(light.get_zone_colors() or [])", "enumerate(light.get_zone_colors())")
B('c12-snapshot-matrix-none', 'C12', 'R12.c', SNAPSHOT,
  """    def matrix(self, light):
        light_matrix = light.get_matrix()
        if light_matrix is None:
            return
        mat = light_matrix.matrix
        for row in range(0, light_matrix.height):
            for column""",
  """    def matrix(self, light):
        light_matrix = light.get_matrix()
        mat = light_matrix.matrix
        for row in range(0, light_matrix.height):
            for column""")
B('c12-power-light-unchecked', 'C12', 'R12.d', MACHINE,
  """        light = light_set.get_light(self._reg.name)
        if light is None:
            Machine._report_missing(self._reg.name)
        else:
            duration = self._as_raw_time(self._reg.duration)
            light.set_power(self._reg.get_power(), duration)""",
  """        light = light_set.get_light(self._reg.name)
        duration = self._as_raw_time(self._reg.duration)
        light.set_power(self._reg.get_power(), duration)""")
B('c12-dnextm-unchecked', 'C12', 'R12.d', VMDISC,
  """        if name_list is None:
            # The group or location disappeared during the iteration.
            self._reg.result = Operand.NULL
        elif not self._reg.disc_forward:""",
  """        if not self._reg.disc_forward:""")
B('c12-group-unchecked', 'C12', 'R12.d', MACHINE,
  """        light_names = light_set.get_group_lights(self._reg.name)
        if light_names is None:
            logging.warning("Unknown group: {}".format(self._reg.name))
        else:
            self._color_multiple(
                [light_set.get_light(name) for name in light_names])""",
  """        light_names = light_set.get_group_lights(self._reg.name)
        self._color_multiple(
            [light_set.get_light(name) for name in light_names])""")
B('c12-discover-no-handler', 'C12', 'R12.e', LIGHTSET,
  "        except i_controller.LightException as ex:\n            self._num_failed_discovers += 1",
  "        except KeyError as ex:\n            self._num_failed_discovers += 1")
B('c12-get-lights-no-conversion', 'C12', 'R12.e', LANAPI,
  "        except lifxlan.errors.WorkflowException as ex:", "        except KeyError as ex:")
N('c12-isinstance-inline', 'C12', MACHINE,
  "        if light is not None and self._matrix_check(light):",
  "        if light is not None and isinstance(light, MatrixLight):")
N('c12-max-tries-2', 'C12', LANLIGHT, "_MAX_TRIES = 3", "_MAX_TRIES = 2")
N('c12-none-check-truthy', 'C12', MACHINE,
  """        light = self._get_named_light()
        if light is not None:
            light.set_color(""",
  """        light = self._get_named_light()
        if light:
            light.set_color(""")

# ------------------------------------------------------------------ C13
B('c13-discover-skips-names', 'C13', 'R13.a', LIGHTSET,
  "                self._light_names.add(light_name)\n", "")
B('c13-discover-skips-locations', 'C13', 'R13.a', LIGHTSET,
  """                LightSet._update_memberships(
                    light, light.get_location(), self._locations)
""", "")
B('c13-discover-conditional-map', 'C13', 'R13.a', LIGHTSET,
  "                self._lights[light_name] = light\n",
  "                if light_name not in self._lights:\n                    self._lights[light_name] = light\n")
B('c13-gc-keeps-names', 'C13', 'R13.a', LIGHTSET,
  "            self._light_names.remove(light_name)\n", "")
B('c13-gc-keeps-groups', 'C13', 'R13.a', LIGHTSET,
  "                LightSet._remove_memberships(light, self._groups)\n", "")
B('c13-update-no-remove', 'C13', 'R13.b', LIGHTSET,
  "        LightSet._remove_memberships(light, target_dict)\n        if name not in target_dict:",
  "        if name not in target_dict:")
B('c13-remove-leaves-empty', 'C13', 'R13.b', LIGHTSET,
  """            if len(light_list) == 0:
                to_be_deleted.append(list_name)
""", "")
B('c13-remove-first-only', 'C13', 'R13.b', LIGHTSET,
  """            light_list.remove(light.get_name())
            if len(light_list) == 0:
                to_be_deleted.append(list_name)""",
  """            light_list.remove(light.get_name())
            if len(light_list) == 0:
                to_be_deleted.append(list_name)
            break""")
B('c13-raw-append-sorted', 'C13', 'R13.c', LIGHTSET,
  "            target_dict[name].add(light.get_name())", "            target_dict[name].append(light.get_name())")
B('c13-add-no-presence-test', 'C13', 'R13.c', SORTED,
  "        if self._index_of(value) is None:\n            bisect.insort(self, value)",
  "        bisect.insort(self, value)")
B('c13-user-mutates-names', 'C13', 'R13.c', VMDISC,
  """        name_list = self._names_by_oper()
        if len(name_list) == 0:""",
  """        name_list = self._names_by_oper()
        name_list.sort(reverse=True)
        if len(name_list) == 0:""")
B('c13-age-less-than', 'C13', 'R13.e', LIGHTSET,
  "            if light.get_age() > max_age:", "            if light.get_age() < max_age:")
N('c13-age-flipped', 'C13', LIGHTSET,
  "            if light.get_age() > max_age:", "            if max_age < light.get_age():")
N('c13-discover-reordered', 'C13', LIGHTSET,
  """                self._light_names.add(light_name)
                self._lights[light_name] = light""",
  """                self._lights[light_name] = light
                self._light_names.add(light_name)""")

# ------------------------------------------------------------------ C14
B('c14-table-swapped', 'C14', 'R14.a', UNITS,
  "            UnitMode.RAW: logical_to_raw,\n            UnitMode.RGB: logical_to_rgb },",
  "            UnitMode.RAW: logical_to_rgb,\n            UnitMode.RGB: logical_to_raw },")
B('c14-machine-table-wrong-fn', 'C14', 'R14.a', MACHINE,
  "            (UnitMode.RGB, UnitMode.LOGICAL, units.rgb_to_logical),",
  "            (UnitMode.RGB, UnitMode.LOGICAL, units.raw_to_logical),")
B('c14-machine-table-missing-pair', 'C14', 'R14.a', MACHINE,
  "            (UnitMode.RAW, UnitMode.RGB, units.raw_to_rgb),\n", "")
B('c14-same-mode-rewrites', 'C14', 'R14.b', MACHINE,
  "        if from_mode is to_mode:\n            return\n", "")
B('c14-color-read-after-mode', 'C14', 'R14.b', MACHINE,
  """        original_color = self._reg.get_color()
        self._reg.unit_mode = to_mode""",
  """        self._reg.unit_mode = to_mode
        original_color = self._reg.get_color()""")
B('c14-time-not-converted', 'C14', 'R14.b', MACHINE,
  """            self._reg.duration = units.time_raw(self._reg.duration)
            self._reg.time = units.time_raw(self._reg.time)""",
  """            self._reg.duration = units.time_raw(self._reg.duration)""")
B('c14-time-wrong-direction', 'C14', 'R14.b', MACHINE,
  """            self._reg.duration = units.time_logical(self._reg.duration)
            self._reg.time = units.time_logical(self._reg.time)""",
  """            self._reg.duration = units.time_raw(self._reg.duration)
            self._reg.time = units.time_raw(self._reg.time)""")
B('c14-time-when-rgb', 'C14', 'R14.b', MACHINE,
  "        if to_mode is UnitMode.RAW:\n            self._reg.duration",
  "        if to_mode is UnitMode.RGB:\n            self._reg.duration")
B('c14-store-color-wrong-triple', 'C14', 'R14.b', MACHINE,
  """        if self.unit_mode is not UnitMode.RGB:
            self.hue, self.saturation, self.brightness, self.kelvin = color""",
  """        if self.unit_mode is UnitMode.RGB:
            self.hue, self.saturation, self.brightness, self.kelvin = color""")
B('c14-moveq-plain-store', 'C14', 'R14.b', MACHINE,
  """        if dest is Register.UNIT_MODE:
            self._switch_unit_mode(value)
        else:
            self._do_put_value(dest, value)""",
  """        self._do_put_value(dest, value)""")
B('c14-kelvin-scaled', 'C14', 'R14.c', UNITS,
  "    return [h, s, b, logical_color[3]]", "    return [h, s, b, logical_color[2]]")
B('c14-kelvin-rgb', 'C14', 'R14.c', UNITS,
  "    return [r * 100.0, g * 100.0, b * 100.0, raw_color[3]]",
  "    return [r * 100.0, g * 100.0, b * 100.0, raw_color[3] / 65535.0]")
N('c14-eq-compare', 'C14', MACHINE,
  "        if from_mode is to_mode:\n            return", "        if from_mode == to_mode:\n            return")
N('c14-table-row-order', 'C14', MACHINE,
  """            (UnitMode.LOGICAL, UnitMode.RAW, units.logical_to_raw),
            (UnitMode.LOGICAL, UnitMode.RGB, units.logical_to_rgb),""",
  """            (UnitMode.LOGICAL, UnitMode.RGB, units.logical_to_rgb),
            (UnitMode.LOGICAL, UnitMode.RAW, units.logical_to_raw),""")

# ------------------------------------------------------------------ C15
B('c15-zone-end-not-widened', 'C15', 'R15.a', MACHINE,
  "                start_index, end_index + 1,", "                start_index, end_index,")
B('c15-zone-none-after', 'C15', 'R15.a', MACHINE,
  """            if end_index is None:
                end_index = start_index
""", "")
B('c15-overlay-exclusive', 'C15', 'R15.a', MATRIX,
  """        for row in range(rect.top, rect.bottom + 1):
            for column in range(rect.left, rect.right + 1):
                self._mat[row][column] = color""",
  """        for row in range(rect.top, rect.bottom):
            for column in range(rect.left, rect.right + 1):
                self._mat[row][column] = color""")
B('c15-overlay-no-normalize', 'C15', 'R15.a', MATRIX,
  """        # Set the cells within rect to color.
        self._normalize_rect(rect)
""", "        # Set the cells within rect to color.\n")
B('c15-stage-sends', 'C15', 'R15.b', MACHINE,
  "        mat.overlay_color(rect, color)",
  "        mat.overlay_color(rect, color)\n        self._color_matrix_light()")
B('c15-fill-before-convert', 'C15', 'R15.c', MACHINE,
  """            matrix = self._as_raw_matrix(matrix)
            matrix.find_replace(None, self._reg.default or [0, 0, 0, 0])""",
  """            matrix.find_replace(None, self._reg.default or [0, 0, 0, 0])
            matrix = self._as_raw_matrix(matrix)""")
B('c15-default-not-raw', 'C15', 'R15.c', MACHINE,
  "        self._reg.default = self._as_raw_color(self._reg.get_color())",
  "        self._reg.default = self._reg.get_color()")
B('c15-no-fill', 'C15', 'R15.c', MACHINE,
  "            matrix.find_replace(None, self._reg.default or [0, 0, 0, 0])\n", "")
B('c15-columns-not-cleared', 'C15', 'R15.d', MPARSER,
  """        if not has_columns:
            self.code_gen.add_list(
                (OpCode.MOVEQ, None, Register.FIRST_COLUMN),
                (OpCode.MOVEQ, None, Register.LAST_COLUMN)
            )
""", "")
B('c15-range-keeps-last', 'C15', 'R15.d', MPARSER,
  "        self.code_gen.add_instruction(OpCode.MOVEQ, None, last)\n        return True",
  "        return True")
B('c15-normalize-asymmetric', 'C15', 'R15.d', MATRIX,
  "            case False, True:\n                rect.right = rect.left",
  "            case False, True:\n                rect.right = self.width - 1")
B('c15-matrix-wrong-direction', 'C15', 'R15.e', MACHINE,
  "        xform_fn = units.convert_fn(self._reg.unit_mode, UnitMode.RAW)\n        return ColorMatrix.new_from_iterable(srce.height",
  "        xform_fn = units.convert_fn(UnitMode.RAW, self._reg.unit_mode)\n        return ColorMatrix.new_from_iterable(srce.height")
B('c15-raw-color-rgb-as-logical', 'C15', 'R15.e', MACHINE,
  "        if self._reg.unit_mode is UnitMode.RGB:\n            return units.rgb_to_raw(color)",
  "        if self._reg.unit_mode is UnitMode.RGB:\n            return units.logical_to_raw(color)")
N('c15-plus-one-left', 'C15', MACHINE,
  "                start_index, end_index + 1,", "                start_index, 1 + end_index,")

# ------------------------------------------------------------------ C16
B('c16-percent-not-token', 'C16', 'R16.a', LEX,
  r"    _NON_ALNUM_SPEC = r'==|<=|>=|[\[\]\(\){}+\-*<>/%#:\^]'", r"    _NON_ALNUM_SPEC = r'==|<=|>=|[\[\]\(\){}+\-*<>/#:\^]'")
B('c16-percent-not-mark', 'C16', 'R16.a', LEX,
  "    _NON_ALNUM_LIST = r'[]{}()+-*/%#:^'", "    _NON_ALNUM_LIST = r'[]{}()+-*/#:^'")
B('c16-cmp-order', 'C16', 'R16.a', LEX,
  "    _CMP_SPEC = r'==|<=|>=|!=|[<>]'", "    _CMP_SPEC = r'[<>]|==|<=|>=|!='")
B('c16-default-first', 'C16', 'R16.a', LEX,
  """        _NAME_SPEC,
        _NON_ALNUM_SPEC,
        _DEFAULT_SPEC))""",
  """        _NAME_SPEC,
        _DEFAULT_SPEC,
        _NON_ALNUM_SPEC))""")
B('c16-abbrev-extra', 'C16', 'R16.c', LEX,
  "            'H': 'hue', 'S': 'saturation', 'B': 'brightness', 'K': 'kelvin'",
  "            'H': 'hue', 'S': 'saturation', 'B': 'brightness', 'K': 'kelvin', 'R': 'red'")
B('c16-abbrev-wrong', 'C16', 'R16.c', LEX,
  "            'H': 'hue', 'S': 'saturation', 'B': 'brightness', 'K': 'kelvin'",
  "            'H': 'hue', 'S': 'saturation', 'B': 'blue', 'K': 'kelvin'")
B('c16-name-no-underscore', 'C16', 'R16.d', LEX,
  "    _NAME_SPEC = r'[a-zA-Z_][a-zA-Z0-9_]*'", "    _NAME_SPEC = r'[a-zA-Z][a-zA-Z0-9_]*'")
B('c16-name-no-digits', 'C16', 'R16.d', LEX,
  "    _NAME_SPEC = r'[a-zA-Z_][a-zA-Z0-9_]*'", "    _NAME_SPEC = r'[a-zA-Z_][a-zA-Z_]*'")
B('c16-string-after-punct', 'C16', 'R16.d', LEX,
  """        _CMP_SPEC,
        _LITERAL_STRING_SPEC,
        _NUMBER_SPEC,
        _NAME_SPEC,
        _NON_ALNUM_SPEC,""",
  """        _CMP_SPEC,
        _NUMBER_SPEC,
        _NON_ALNUM_SPEC,
        _LITERAL_STRING_SPEC,
        _NAME_SPEC,""")
B('c16-comment-substring', 'C16', 'R16.d', LEX,
  "                if u_matched == '#':\n                    break", "                if '#' in u_matched:\n                    break")
B('c16-rvalue-no-bracket', 'C16', 'R16.e', PARSE,
  "        if is_mark and self._current_token.content == '[':\n            return self._rvalue_fn_call(dest, code_gen)\n", "")
N('c16-name-spec-equivalent', 'C16', LEX,
  "    _NAME_SPEC = r'[a-zA-Z_][a-zA-Z0-9_]*'", "    _NAME_SPEC = r'[_A-Za-z][0-9A-Z_a-z]*'")
N('c16-punct-reordered', 'C16', LEX,
  r"    _NON_ALNUM_SPEC = r'==|<=|>=|[\[\]\(\){}+\-*<>/%#:\^]'", r"    _NON_ALNUM_SPEC = r'==|<=|>=|[%\[\]\(\){}+\-*<>/#:\^]'")

# ------------------------------------------------------------------ C17
B('c17-token-not-reset', 'C17', 'R17.a', PARSE,
  "        self._current_token = Token(TokenTypes.UNKNOWN)\n        self.next_token()\n        return self._script()",
  "        self.next_token()\n        return self._script()")
B('c17-in-matrix-not-reset', 'C17', 'R17.a', CONTEXT,
  "        self._in_routine = False\n        self._in_matrix = False\n        self._globals.clear()",
  "        self._in_routine = False\n        self._globals.clear()")
B('c17-codegen-not-cleared', 'C17', 'R17.a', PARSE,
  "        self._context.clear()\n        self._code_gen.clear()\n", "        self._context.clear()\n")
B('c17-locals-not-cleared', 'C17', 'R17.a', CONTEXT,
  "        self._globals.clear()\n        self._locals.clear()\n        self._loop_stack.clear()",
  "        self._globals.clear()\n        self._loop_stack.clear()")
B('c17-loop-stack-not-cleared', 'C17', 'R17.a', CONTEXT,
  "        self._locals.clear()\n        self._loop_stack.clear()", "        self._locals.clear()")
B('c17-errors-not-reset', 'C17', 'R17.a', PARSE,
  "        self._error_output = ''\n        self._load_runtime()", "        self._load_runtime()")
B('c17-registers-not-reset', 'C17', 'R17.a', MACHINE,
  "    def reset(self) -> None:\n        self._reg.reset()\n", "    def reset(self) -> None:\n")
B('c17-eval-stack-not-reset', 'C17', 'R17.a', MACHINE,
  "        self._vm_math.reset()\n", "")
B('c17-call-stack-not-reset', 'C17', 'R17.a', MACHINE,
  "        self._call_stack.reset(self._constants)\n", "")
B('c17-enable-pause-sticky', 'C17', 'R17.a', MACHINE,
  "        self._keep_running = True\n        self._enable_pause = True\n\n    def run",
  "        self._keep_running = True\n\n    def run")
B('c17-flush-not-in-finally', 'C17', 'R17.a', MACHINE,
  """        finally:
            self._clock.stop()
            self._vm_io.flush()""",
  """            self._vm_io.flush()
        finally:
            self._clock.stop()""")
B('c17-clock-armed-in-thread', 'C17', 'R17.a', CLOCK,
  """        self.reset()
        self._keep_going = True
        threading.Thread(target=self.run, args=(), daemon=True).start()

    @injection.inject(i_lib.Settings)
    def run(self, settings):
        sleep_time""",
  """        self.reset()
        threading.Thread(target=self.run, args=(), daemon=True).start()

    @injection.inject(i_lib.Settings)
    def run(self, settings):
        self._keep_going = True
        sleep_time""")
B('c17-class-level-cache', 'C17', 'R17.b', CODEGEN,
  """    def add_instruction(self, op_code, param0=None, param1=None) -> Instruction:
        inst = Instruction(op_code, param0, param1)""",
  """    def add_instruction(self, op_code, param0=None, param1=None) -> Instruction:
        CodeGen.last_op = op_code
        inst = Instruction(op_code, param0, param1)""")
B('c17-vm-nops-instruction', 'C17', 'R17.c', MACHINE,
  "    def _nop(self) -> None: pass", "    def _nop(self) -> None: self.current_inst.nop()")
B('c17-vm-patches-operand', 'C17', 'R17.c', MACHINE,
  "        self._constants[name] = value\n", "        self._constants[name] = value\n        self.current_inst.param1 = None\n")
B('c17-run-without-reset', 'C17', 'R17.c', SCRIPTJOB,
  "            self._machine.reset()\n            self._machine.run(self._program)",
  "            self._machine.run(self._program)")
N('c17-clear-order', 'C17', PARSE,
  "        self._context.clear()\n        self._code_gen.clear()\n        self._error_output = ''",
  "        self._error_output = ''\n        self._code_gen.clear()\n        self._context.clear()")
N('c17-reset-order', 'C17', MACHINE,
  "        self._reg.reset()\n        self._constants.clear()", "        self._constants.clear()\n        self._reg.reset()")

# ------------------------------------------------------------------ C18
B('c18-no-units-raw', 'C18', 'R18.a', SNAPSHOT,
  "        super().start_snapshot()\n        self.append('units raw\\n')\n\n    def setting(self, reg, value):",
  "        super().start_snapshot()\n\n    def setting(self, reg, value):")
B('c18-units-logical', 'C18', 'R18.a', SNAPSHOT,
  "        self.append('units raw\\n')", "        self.append('units logical\\n')")
B('c18-name-unquoted', 'C18', 'R18.b', SNAPSHOT,
  """        self.append('set "{}"\\n'.format(light.get_name()))""",
  """        self.append('set {}\\n'.format(light.get_name()))""")
B('c18-bad-keyword', 'C18', 'R18.b', SNAPSHOT,
  """        self.append('stage row {} column {}\\n'.format(row, column))""",
  """        self.append('stage rows {} column {}\\n'.format(row, column))""")
B('c18-zone-missing-number', 'C18', 'R18.b', SNAPSHOT,
  """        self.append('set "{}" zone {}\\n'.format(light.get_name(), number))""",
  """        self.append('set "{}" zone {}\\n'.format(light.get_name()))""")
B('c18-kelvin-dropped', 'C18', 'R18.c', SNAPSHOT,
  "        self.setting(Register.KELVIN, raw_color[3])\n", "")
B('c18-sat-bright-swapped', 'C18', 'R18.c', SNAPSHOT,
  "        self.setting(Register.SATURATION, raw_color[1])\n        self.setting(Register.BRIGHTNESS, raw_color[2])",
  "        self.setting(Register.SATURATION, raw_color[2])\n        self.setting(Register.BRIGHTNESS, raw_color[1])")
B('c18-power-dropped', 'C18', 'R18.c', SNAPSHOT,
  "                    self.light(light)\n                    self.power(light)\n", "                    self.light(light)\n")
B('c18-matrix-skips-last-column', 'C18', 'R18.c', SNAPSHOT,
  """            for column in range(0, light_matrix.width):
                self.matrix_cell(row, column, mat[row][column])""",
  """            for column in range(0, light_matrix.width - 1):
                self.matrix_cell(row, column, mat[row][column])""")
B('c18-capture-no-filter', 'C18', 'R20.d', WEBAPP,
  "        out_file.write(ScriptSnapshot().generate(None).text)", "        out_file.write(ScriptSnapshot().generate().text)")
N('c18-units-raw-spacing', 'C18', SNAPSHOT,
  "        self.append('units raw\\n')", "        self.append('units  raw\\n')")

# ------------------------------------------------------------------ C19
B('c19-printf-counts-named', 'C19', 'R19.b', IOPARSER,
  "                 and (len(field[1]) == 0 or field[1].isdecimal())))", "                 ))")
B('c19-vm-named-includes-numbers', 'C19', 'R19.b', VMIO,
  "            if name is not None and len(name) > 0 and not name.isdecimal():",
  "            if name is not None and len(name) > 0:")
B('c19-flush-in-try', 'C19', 'R19.c', MACHINE,
  """        finally:
            self._clock.stop()
            self._vm_io.flush()""",
  """            self._vm_io.flush()
        finally:
            self._clock.stop()""")
B('c19-no-newline-escape', 'C19', 'R19.d', VMIO,
  "        format_str = inst.param1.replace('\\\\n', '\\n')", "        format_str = inst.param1")
B('c19-println-no-newline', 'C19', 'R19.d', VMIO,
  "            case IoOp.PRINT_END:\n                output.newline()", "            case IoOp.PRINT_END:\n                output.flush()")
B('c19-no-separator', 'C19', 'R19.d', STDOUT,
  "        if self._line_pending:\n            print(' ', end='')\n\n", "")
B('c19-printf-values-kept', 'C19', 'R19.d', VMIO,
  "        output.out(format_str.format(*self._unnamed, **named))\n        self._unnamed.clear()",
  "        output.out(format_str.format(*self._unnamed, **named))")
N('c19-named-test-rewritten', 'C19', VMIO,
  "            if name is not None and len(name) > 0 and not name.isdecimal():",
  "            if name is not None and not (len(name) == 0 or name.isdecimal()):")

# ------------------------------------------------------------------ C20
B('c20-job-outside-queue-script', 'C20', 'R20.a', WEBAPP,
  "    def stop_script(self, path) -> bool:\n", "    def stop_script(self, path) -> bool:\n        self._jobs.add_job(ScriptJob.from_file(path), path)\n")
B('c20-route-runs-file', 'C20', 'R20.a', FRONT,
  """        script_control = web_app.get_script_control(path)
        if script_control is not None:
            if script_control.running or web_app.queue_script(script_control):
                return self.render_action(script_control, "Started")
        return self.index()""",
  """        script_control = web_app.get_script_control(path)
        if script_control is not None:
            if script_control.running or web_app.queue_script(script_control):
                return self.render_action(script_control, "Started")
        else:
            web_app.queue_file(path)
        return self.index()""")
B('c20-title-unescaped', 'C20', 'R20.b', WEBAPP,
  "        self.title = html.escape(title)", "        self.title = title")
B('c20-path-unescaped', 'C20', 'R20.b', WEBAPP,
  "        self.path = html.escape(path)", "        self.path = path")
B('c20-template-safe', 'C20', 'R20.b', 'web/templates/action.html',
  "      {{ script.title }}\n      {% if message %}", "      {{ script.title|safe }}\n      {% if message %}")
B('c20-stop-all-none', 'C20', 'R20.c', FRONT,
  """        web_app.stop_all()
        if script_control is None:
            return self.index()
""", "        web_app.stop_all()\n")
B('c20-run-script-unchecked', 'C20', 'R20.c', FRONT,
  """        if script_control is not None:
            if script_control.running or web_app.queue_script(script_control):
                return self.render_action(script_control, "Started")
        return self.index()""",
  """        if script_control.running or web_app.queue_script(script_control):
            return self.render_action(script_control, "Started")
        return self.index()""")
B('c20-status-no-filter', 'C20', 'R20.d', WEBAPP,
  "            'lights': TextSnapshot().generate(None).text,", "            'lights': TextSnapshot().generate().text,")
B('c20-queue-again-when-running', 'C20', 'R20.e', FRONT,
  "            if script_control.running or web_app.queue_script(script_control):",
  "            if web_app.queue_script(script_control):")
B('c20-running-asked-by-file', 'C20', 'R20.e', WEBAPP,
  "            script_control.running = self._jobs.is_running(script_control.path)",
  "            script_control.running = self._jobs.is_running(script_control.file_name)")
B('c20-background-queued', 'C20', 'R20.e', WEBAPP,
  "            self._jobs.spawn_job(job, script_control.path)", "            self._jobs.add_job(job, script_control.path)")
N('c20-none-check-flipped', 'C20', FRONT,
  """        web_app.stop_all()
        if script_control is None:
            return self.index()
        return self.render_action(script_control, "Requested")""",
  """        web_app.stop_all()
        if script_control is not None:
            return self.render_action(script_control, "Requested")
        return self.index()""")

# ---------------------------------------------- added after the seeded round
B('c02-climb-arg-op-prec', 'C02', 'R02.f', EXPR,
  "                if not self._expression(self.current_token.prec):", "                if not self._expression(op.prec):")
B('c02-climb-inner-ge', 'C02', 'R02.f', EXPR,
  "                        and self.current_token.prec > op.prec)", "                        and self.current_token.prec >= op.prec)")
B('c02-climb-no-right-assoc', 'C02', 'R02.f', EXPR,
  """            while ((self.current_token.is_binop
                        and self.current_token.prec > op.prec)
                    or (self.current_token.assoc is Assoc.RIGHT
                        and self.current_token.prec == op.prec)):""",
  """            while (self.current_token.is_binop
                        and self.current_token.prec > op.prec):""")
B('c02-climb-outer-gt', 'C02', 'R02.f', EXPR,
  "                and self.current_token.prec >= min_prec):", "                and self.current_token.prec > min_prec):")
B('c11-copy-shares-list', 'C11', 'R11.c', TIMEPAT,
  "        new_pattern._alternatives = list(self._alternatives)", "        new_pattern._alternatives = self._alternatives")
N('c11-copy-slice', 'C11', TIMEPAT,
  "        new_pattern._alternatives = list(self._alternatives)", "        new_pattern._alternatives = self._alternatives[:]")
B('c14-time-only-to-logical', 'C14', 'R14.b', MACHINE,
  "        elif from_mode is UnitMode.RAW:", "        elif to_mode is UnitMode.LOGICAL and from_mode is UnitMode.RAW:")
B('c16-splitlines', 'C16', 'R16.f', LEX,
  "        self._lines = iter(input_string.split('\\n'))", "        self._lines = iter(input_string.splitlines())")
B('c16-unescape-before-strip', 'C16', 'R16.f', LEX,
  """                        u_matched = u_matched[1:-1]
                        u_matched = u_matched.replace(r'\\"', '"')""",
  """                        u_matched = u_matched.replace(r'\\"', '"')[1:-1]""")
N('c16-strip-unescape-chained', 'C16', LEX,
  """                        u_matched = u_matched[1:-1]
                        u_matched = u_matched.replace(r'\\"', '"')""",
  """                        u_matched = u_matched[1:-1].replace(r'\\"', '"')""")
B('c20-is-running-shadowed', 'C20', 'R20.e', JOBS,
  """                if (self._active_agent is not None
                        and self._active_agent.name == name):
                    result = True
                else:""",
  """                if self._active_agent is not None:
                    result = self._active_agent.name == name
                else:""")
B('c01-unwind-one-frame', 'C01', 'R03.b', CALLSTACK,
  "        while isinstance(self._top, LoopFrame):\n            self._top = self._top.parent",
  "        if isinstance(self._top, LoopFrame):\n            self._top = self._top.parent")
B('c06-loop-stack-not-cleared', 'C06', 'R17.a', CONTEXT,
  "        self._locals.clear()\n        self._loop_stack.clear()", "        self._locals.clear()")
B('c08-has-jobs-never', 'C08', 'R08.a', JOBS,
  "    def get_current(self):\n        return self._active_agent",
  "    def get_current(self):\n        return self._active_agent if self._active_agent else None")
B('c15-cells-sanitised-before-convert', 'C15', 'R15.e', MACHINE,
  "            (xform_fn(color) for color in srce.as_list()))", "            (xform_fn(color) for color in srce.get_colors()))")
# ---- round 2 strengthening
B('c15-default-operand-not-set', 'C15', 'R15.f', PARSE,
  "        self._add_instruction(OpCode.MOVEQ, Operand.DEFAULT, Register.OPERAND)\n", "")
B('c15-all-operand-not-set', 'C01', 'R15.f', PARSE,
  "        self._add_instruction(OpCode.MOVEQ, Operand.ALL, Register.OPERAND)\n", "")
B('c15-operand-set-only-for-zones', 'C15', 'R15.f', PARSE,
  "        self._add_instruction(OpCode.MOVEQ, operand, Register.OPERAND)\n        return True",
  "        if operand is not Operand.LIGHT:\n            self._add_instruction(OpCode.MOVEQ, operand, Register.OPERAND)\n        return True")
N('c15-matrix-operand-set-by-caller', 'C15', MPARSER,
  """            return self._inline_operand()

    def get_all""", """            self.code_gen.add_instruction(
                OpCode.MOVEQ, Operand.MATRIX, Register.OPERAND)
            return self._inline_operand()

    def get_all""",
  MPARSER, """    def _inline_operand(self) -> bool:
        self.code_gen.add_instruction(
            OpCode.MOVEQ, Operand.MATRIX, Register.OPERAND)
""", """    def _inline_operand(self) -> bool:
""")
B('c11-two-clock-readings', 'C11', 'R11.g', CLOCK,
  "        now = datetime.now()\n        return (now.hour, now.minute)",
  "        return (datetime.now().hour, datetime.now().minute)")
B('c11-hour-minute-separately', 'C11', 'R11.g', CLOCK,
  "            hour, minute = Clock._hour_minute()\n        self.reset()",
  "            hour = Clock._hour_minute()[0]\n            minute = Clock._hour_minute()[1]\n        self.reset()")
N('c11-reading-through-locals', 'C11', CLOCK,
  "        now = datetime.now()\n        return (now.hour, now.minute)",
  "        t = datetime.now()\n        h = t.hour\n        m = t.minute\n        return h, m")
B('c09-clock-stopped-before-flag', 'C09', 'R09.a', MACHINE,
  "        self._keep_running = False\n        self._clock.stop()",
  "        self._clock.stop()\n        self._keep_running = False")
B('c04-discm-no-none-test', 'C04', 'R04.g', VMDISC,
  "        if name_list and len(name_list) > 0:", "        if len(name_list) > 0:")
B('c04-dnextm-no-none-test', 'C04', 'R04.g', VMDISC,
  "        if name_list is None:\n            # The group or location disappeared during the iteration.\n            self._reg.result = Operand.NULL\n        elif not", "        if not")
B('c01-loop-frame-own-params', 'C01', 'R03.c', CALLSTACK,
  "        self.params = parent.params\n", "")
B('c19-unnamed-class-level', 'C19', 'R19.e', VMIO,
  "class VmIo:\n    def __init__(self, call_stack, reg):", "class VmIo:\n    _unnamed = []\n\n    def __init__(self, call_stack, reg):",
  VMIO, "        self._reg = reg\n        self._unnamed = []\n", "        self._reg = reg\n")
B('c17-unnamed-class-level', 'C17', 'R17.b', VMIO,
  "class VmIo:\n    def __init__(self, call_stack, reg):", "class VmIo:\n    _unnamed = []\n\n    def __init__(self, call_stack, reg):",
  VMIO, "        self._reg = reg\n        self._unnamed = []\n", "        self._reg = reg\n")
N('c19-unnamed-class-default-rebound', 'C19', VMIO,
  "class VmIo:\n    def __init__(self, call_stack, reg):", "class VmIo:\n    _unnamed = []\n\n    def __init__(self, call_stack, reg):")
B('c07-hue-zero-window-one-sided', 'C07', 'R07.c', UNITS,
  "    if (-_EPSILON < logical_value < _EPSILON or", "    if (logical_value < _EPSILON or")
B('c07-hue-zero-window-wide', 'C07', 'R07.c', UNITS,
  "    if (-_EPSILON < logical_value < _EPSILON or", "    if (-1 < logical_value < 1 or")
B('c07-saturation-clamp-discontinuous', 'C07', 'R07.c', UNITS,
  "    s = 100.0 if raw_value >= 65535.0 else", "    s = 100.0 if raw_value >= 65000.0 else")
N('c07-hue-branches-swapped', 'C07', UNITS,
  """    if (-_EPSILON < logical_value < _EPSILON or
            360 - _EPSILON < logical_value < 360 + _EPSILON):
        h = 0.0
    else:
        h = (logical_value % 360.0) / 360.0 * 65535.0""",
  """    if not (-_EPSILON < logical_value < _EPSILON or
            360 - _EPSILON < logical_value < 360 + _EPSILON):
        h = (logical_value % 360.0) / 360.0 * 65535.0
    else:
        h = 0.0""")
B('c14-wait-divides-unless-logical', 'C14', 'R14.d', MACHINE,
  "            if self._reg.unit_mode is UnitMode.RAW:\n                time /= 1000.0",
  "            if self._reg.unit_mode is not UnitMode.LOGICAL:\n                time /= 1000.0")
B('c14-raw-time-only-logical', 'C14', 'R14.d', MACHINE,
  "        if self._reg.unit_mode in (UnitMode.LOGICAL, UnitMode.RGB):\n            return units.time_raw(value)",
  "        if self._reg.unit_mode is UnitMode.LOGICAL:\n            return units.time_raw(value)")
B('c14-assure-units-rgb-as-logical', 'C14', 'R14.d', MACHINE,
  "        if self._reg.unit_mode is UnitMode.LOGICAL:\n            return units.raw_to_logical(color)\n        return units.raw_to_rgb(color)",
  "        return units.raw_to_logical(color)")
N('c14-wait-raw-test-negated', 'C14', MACHINE,
  "            if self._reg.unit_mode is UnitMode.RAW:\n                time /= 1000.0",
  "            if self._reg.unit_mode not in (UnitMode.LOGICAL, UnitMode.RGB):\n                time = time / 1000.0")
B('c08-idle-read-before-lock', 'C08', 'R08.a', JOBS,
  "        agent = None\n        if self._acquire_lock():\n            try:\n                agent = Agent(job, self._on_execution_done, name)\n                append_fn(agent)\n                if self._active_agent is None:",
  "        agent = None\n        idle = self._active_agent is None\n        if self._acquire_lock():\n            try:\n                agent = Agent(job, self._on_execution_done, name)\n                append_fn(agent)\n                if idle:")
B('c20-stop-by-raw-path', 'C20', 'R20.e', WEBAPP,
  "        return self._jobs.stop_job(script_control.path)", "        return self._jobs.stop_job(path)")
B('c20-running-asked-by-raw-path', 'C20', 'R20.e', WEBAPP,
  "            script_control.running = self._jobs.is_running(script_control.path)",
  "            script_control.running = self._jobs.is_running(path)")
N('c20-job-name-through-local', 'C20', WEBAPP,
  "            script_control.running = self._jobs.is_running(script_control.path)",
  "            job_name = script_control.path\n            script_control.running = self._jobs.is_running(job_name)")
B('c09-clock-shared-instance', 'C09', 'R09.f', CLOCK,
  "    injection.bind(Clock).to(i_lib.Clock)", "    injection.bind_instance(Clock()).to(i_lib.Clock)")
B('c01-clock-rebased-at-start-of-wait', 'C01', 'R01.f', CLOCK,
  "        hour, minute = Clock._hour_minute()\n        while not time_pattern.match(hour, minute):",
  "        self.reset()\n        hour, minute = Clock._hour_minute()\n        while not time_pattern.match(hour, minute):",
  CLOCK, "            hour, minute = Clock._hour_minute()\n        self.reset()", "            hour, minute = Clock._hour_minute()")
B('c01-clock-not-rebased', 'C01', 'R01.f', CLOCK,
  "            hour, minute = Clock._hour_minute()\n        self.reset()", "            hour, minute = Clock._hour_minute()")
B('c15-overlay-not-clipped', 'C15', 'R15.g', MATRIX,
  "        # Set the cells within rect to color.\n        self._normalize_rect(rect)\n        self._clip_rect(rect)",
  "        # Set the cells within rect to color.\n        self._normalize_rect(rect)")
B('c15-clip-before-normalize', 'C15', 'R15.g', MATRIX,
  "        # Set the cells within rect to color.\n        self._normalize_rect(rect)\n        self._clip_rect(rect)",
  "        # Set the cells within rect to color.\n        self._clip_rect(rect)\n        self._normalize_rect(rect)")
B('c15-clip-bottom-to-height', 'C15', 'R15.g', MATRIX,
  "        rect.bottom = min(rect.bottom, self.height - 1)", "        rect.bottom = min(rect.bottom, self.height)")
B('c06-params-declared-before-scope', 'C06', 'R06.i', PARSE,
  "        self._context.enter_routine()\n        self._add_instruction(OpCode.ROUTINE, name)", "        self._add_instruction(OpCode.ROUTINE, name)",
  PARSE, "        result = self.command_seq()\n        self._add_instruction(OpCode.END, name)", "        self._context.enter_routine()\n        result = self.command_seq()\n        self._add_instruction(OpCode.END, name)")
B('c04-index-var-before-to-bound', 'C04', 'R04.h', LOOP,
  "        if not self.current_token.is_a(TokenTypes.TO):\n            return self.token_error('Needed \"to\", got \"{}\"')",
  "        code_gen.add_instruction(OpCode.MOVE, LoopVar.FIRST, self._index_var)\n        if not self.current_token.is_a(TokenTypes.TO):\n            return self.token_error('Needed \"to\", got \"{}\"')",
  LOOP, "            return False\n        code_gen.add_instruction(OpCode.MOVE, LoopVar.FIRST, self._index_var)\n        if self._loop_type is _LoopType.WITH:", "            return False\n        if self._loop_type is _LoopType.WITH:")
B('c12-get-color-fail-none', 'C12', 'R12.c', LANLIGHT,
  "    @tries(_MAX_TRIES, WorkflowException, [-1] * 4)\n    def get_color(self):", "    @tries(_MAX_TRIES, WorkflowException)\n    def get_color(self):")
B('c19-format-from-token-text', 'C19', 'R19.f', IOPARSER,
  "        format_str = self.current_str", "        format_str = str(self.current_token)")
N('c19-format-through-parser-call', 'C19', IOPARSER,
  "        format_str = self.current_str", "        format_str = self.parser._current_str()")
B('c16-at-rvalue-lookup-any-token', 'C16', 'R16.g', PARSE,
  "        if self._current_token.is_a(TokenTypes.NAME):\n            return not self._context.has_routine(str(self.current_token))\n        return False",
  "        return self._context.has_symbol_typed(\n            str(token), SymbolType.MACRO, SymbolType.VAR)")
B('c16-macro-value-by-class-name', 'C16', 'R16.g', PARSE,
  "            inner_macro = self._context.get_macro(self._current_token.content)", "            inner_macro = self._context.get_macro(str(self._current_token))")
B('c16-call-by-class-name', 'C06', 'R16.g', PARSE,
  "        routine = self._context.get_routine(self._current_token.content)", "        routine = self._context.get_routine(str(self._current_token))")
N('c16-constant-lookup-name-test-negated', 'C16', PARSE,
  "        if not self._current_token.is_a(TokenTypes.NAME):\n            return None\n        macro = self._context.get_macro(str(self._current_token))\n        return None if macro.undefined else macro.value",
  "        if self._current_token.token_type is TokenTypes.NAME:\n            macro = self._context.get_macro(str(self._current_token))\n            return None if macro.undefined else macro.value\n        return None")
# ---- rules derived from the mutation sweep
B('c02-not-value-left-on-stack', 'C02', 'R02.h', PARSE,
  "        code_gen.add_instruction(OpCode.OP, Operator.NOT)\n        if dest is not OpCode.PUSH:\n            code_gen.pop(dest)\n        return True",
  "        code_gen.add_instruction(OpCode.OP, Operator.NOT)\n        return True")
B('c02-inner-braces-popped-away', 'C02', 'R02.h', PARSE,
  "            return False\n        if dest is not OpCode.PUSH:\n            code_gen.pop(dest)\n        return True\n\n    def _at_rvalue",
  "            return False\n        code_gen.pop(dest)\n        return True\n\n    def _at_rvalue")
B('c06-failed-operand-accepted', 'C06', 'R06.j', PARSE,
  "        if not self._operand():\n            return False\n        self._add_instruction(self._op_code)\n\n        while",
  "        if not self._operand():\n            return True\n        self._add_instruction(self._op_code)\n\n        while")
B('c01-wait-statement-emits-nothing', 'C01', 'R01.g', PARSE,
  "    def _wait(self) -> bool:\n        self._add_instruction(OpCode.WAIT)\n", "    def _wait(self) -> bool:\n")
B('c11-union-not-emitted', 'C11', 'R01.g', PARSE,
  "            self._add_instruction(\n                OpCode.TIME_PATTERN, SetOp.UNION, time_pattern)\n", "")
B('c01-vm-wait-ignores-delay', 'C01', 'R01.h', MACHINE,
  "                time /= 1000.0\n            self._clock.pause_for(time)", "                time /= 1000.0")
B('c01-vm-wait-threshold-one', 'C01', 'R01.h', MACHINE,
  "        elif time > 0:", "        elif time > 1:")
N('c01-vm-wait-threshold-ge-zero', 'C01', MACHINE,
  "        elif time > 0:", "        elif time >= 0:")
B('c11-vm-union-dropped', 'C11', 'R11.h', MACHINE,
  "        else:\n            self._reg.time.union(inst.param1)", "        else:\n            pass")
B('c01-get-color-not-stored', 'C01', 'R01.i', MACHINE,
  "                color = light.get_color()\n                self._color_to_reg(self._assure_units(color))", "                color = light.get_color()")
B('c14-color-to-reg-mode-swapped', 'C14', 'R01.i', MACHINE,
  "        reg = self._reg\n        if reg.unit_mode is UnitMode.RGB:", "        reg = self._reg\n        if reg.unit_mode is not UnitMode.RGB:")
B('c07-off-sends-one', 'C07', 'R07.d', MACHINE,
  "        return 65535 if self.power else 0", "        return 65535 if self.power else 1")
B('c05-run-loop-off-by-one', 'C05', 'R05.h', MACHINE,
  "self._reg.pc < program_len:", "self._reg.pc <= program_len:")
B('c09-stop-job-request-dropped', 'C09', 'R09.g', JOBS,
  "                    self._active_agent.request_stop()\n                    result = True\n                elif name in self._background:",
  "                    result = True\n                elif name in self._background:")
B('c09-stop-job-wrong-name-test', 'C20', 'R09.g', JOBS,
  "                        self._active_agent.name == name):\n                    self._active_agent.request_stop()",
  "                        self._active_agent.name != name):\n                    self._active_agent.request_stop()")
B('c09-clear-queue-noop', 'C09', 'R09.g', JOBS,
  "            try:\n                self._queue.clear()\n            finally:", "            try:\n                pass\n            finally:")
B('c01-clock-elapsed-sign', 'C01', 'R01.j', CLOCK,
  "        return time.time() - self._start_time", "        return time.time() + self._start_time")
B('c01-pause-for-condition-negated', 'C01', 'R01.j', CLOCK,
  "        while self.et() < self._cue_time:", "        while not self.et() < self._cue_time:")
N('c01-pause-for-condition-mirrored', 'C01', CLOCK,
  "        while self.et() < self._cue_time:", "        while self._cue_time > self.et():")
B('c11-hour-zero-rejected', 'C11', 'R11.a', TIMEPAT,
  "        return 0 <= int_hours < 24", "        return 1 <= int_hours < 24")
B('c11-either-field-valid', 'C11', 'R11.j', TIMEPAT,
  "        return (TimePattern.hours_valid(hours)\n                and TimePattern.minutes_valid(minutes))",
  "        return (TimePattern.hours_valid(hours)\n                or TimePattern.minutes_valid(minutes))")
B('c11-copy-without-alternatives', 'C11', 'R11.j', TIMEPAT,
  "        new_pattern._alternatives = list(self._alternatives)\n", "")
B('c11-fields-validated-swapped', 'C11', 'R11.i', TIMEPAT,
  "            if TimePattern.patterns_valid(hours, minutes):", "            if TimePattern.patterns_valid(minutes, hours):")
B('c11-one-digit-hour-matches-nothing', 'C11', 'R11.k', TIMEPAT,
  "        elif len(pattern) == 1:\n            self._hour_set = set([int(pattern)])", "        elif len(pattern) == 1:\n            pass")
B('c12-set-color-sends-nothing', 'C12', 'R12.g', LANLIGHT,
  "        duration = param_32(duration)\n        self._impl.set_color(color, duration, True)", "        duration = param_32(duration)")
B('c12-multizone-built-for-others', 'C12', 'R12.g', LANAPI,
  "        if features.get('multizone', False):", "        if not features.get('multizone', False):")
B('c15-tile-length-two', 'C15', 'R15.h', LANLIGHT,
  '            "length": 1,\n            "colors"', '            "length": 2,\n            "colors"')
B('c15-size-not-asked', 'C15', 'R15.h', LANLIGHT,
  "        if self._width is None or self._height is None:\n            self._get_size()", "        if self._width is None and self._height is None:\n            self._get_size()")
B('c20-loaded-program-not-kept', 'C20', 'R20.h', SCRIPTJOB,
  "        if self._parser.parse_file(file_name):\n            self._program = self._parser.get_program()",
  "        if self._parser.parse_file(file_name):\n            pass")
B('c20-stop-route-does-not-stop', 'C20', 'R20.i', FRONT,
  "            web_app.stop_script(path)\n", "")
B('c09-stop-all-route-does-nothing', 'C09', 'R20.i', FRONT,
  "        script_control = web_app.get_script_control('stop-all')\n        web_app.stop_all()", "        script_control = web_app.get_script_control('stop-all')")
B('c20-running-state-not-reported', 'C20', 'R20.j', WEBAPP,
  "            script.running = self._jobs.is_running(script.path)\n", "")
B('c19-flush-drops-pending', 'C19', 'R19.g', VMIO,
  "        for remaining in self._unnamed:\n            output.out(remaining)\n", "")
B('c04-disc-empty-no-null', 'C04', 'R04.i', VMDISC,
  "        if len(name_list) == 0:\n            self._reg.result = Operand.NULL\n        else:", "        if len(name_list) == 0:\n            pass\n        else:")
B('c04-discm-empty-indexed', 'C04', 'R04.i', VMDISC,
  "        if name_list and len(name_list) > 0:", "        if name_list and len(name_list) >= 0:")
B('c04-counter-not-cleared', 'C04', 'R04.j', LOOP,
  "            code_gen.add_instruction(OpCode.MOVEQ, 0, LoopVar.COUNTER)\n            self._loop_type = _LoopType.LIST",
  "            self._loop_type = _LoopType.LIST")
B('c04-cycle-full-turn-wrong', 'C04', 'R04.j', LOOP,
  "        code_gen.push(65536)", "        code_gen.push(65535)")

# ------------------------------------------------------------------ round 4
# / triage batch 2 rules (R08.h, R01.l, R04.k, R13.g, R16.h, R05.i, c23)
CTRLLIGHT = 'bardolph/controller/light.py'
WEBMOD = 'web/web_module.py'
LIGHTMOD = 'bardolph/controller/light_module.py'

B('c08-clear-queue-rebinds', 'C08', 'R08.h', JOBS,
  "                self._queue.clear()", "                self._queue = collections.deque()")
B('c20-clear-queue-rebinds', 'C20', 'R08.h', JOBS,
  "                self._queue.clear()", "                self._queue = collections.deque()")
N('c08-clear-queue-popleft-loop', 'C08', JOBS,
  "                self._queue.clear()",
  "                while len(self._queue) > 0:\n                    self._queue.pop()")
B('c01-calc-incr-leaves-difference', 'C01', 'R01.l', LOOP,
  "        code_gen.test_op(Operator.NOTEQ, LoopVar.COUNTER, 1)\n        marker = code_gen.if_true_start()\n        code_gen.subtract(LoopVar.LAST, LoopVar.FIRST)\n",
  "        code_gen.subtract(LoopVar.LAST, LoopVar.FIRST)\n        code_gen.test_op(Operator.NOTEQ, LoopVar.COUNTER, 1)\n        marker = code_gen.if_true_start()\n")
B('c01-calc-counter-extra-push', 'C01', 'R01.l', LOOP,
  "        code_gen.plus_equals(LoopVar.COUNTER)\n        return True\n\n    @staticmethod\n    def _calc_incr",
  "        code_gen.plus_equals(LoopVar.COUNTER)\n        code_gen.push(LoopVar.COUNTER)\n        return True\n\n    @staticmethod\n    def _calc_incr")
B('c04-incr-guard-on-bounds', 'C04', 'R04.k', LOOP,
  "        code_gen.test_op(Operator.NOTEQ, LoopVar.COUNTER, 1)\n        marker = code_gen.if_true_start()\n        code_gen.subtract(LoopVar.LAST, LoopVar.FIRST)",
  "        code_gen.test_op(Operator.NOTEQ, LoopVar.LAST, LoopVar.FIRST)\n        marker = code_gen.if_true_start()\n        code_gen.subtract(LoopVar.LAST, LoopVar.FIRST)")
B('c04-cycle-guard-removed', 'C04', 'R04.k', LOOP,
  "        code_gen.test_op(Operator.NOTEQ, LoopVar.COUNTER, 0)\n        counter_marker = code_gen.if_true_start()\n", "        counter_marker = code_gen.if_true_start()\n")
N('c04-incr-guard-as-eq-else', 'C04', LOOP,
  """        code_gen.test_op(Operator.NOTEQ, LoopVar.COUNTER, 1)
        marker = code_gen.if_true_start()
        code_gen.subtract(LoopVar.LAST, LoopVar.FIRST)
        code_gen.subtract(LoopVar.COUNTER, 1)
        code_gen.add_list(
            (OpCode.OP, Operator.DIV),
            (OpCode.POP, LoopVar.INCR)
        )
        code_gen.if_else(marker)
        code_gen.add_instruction(OpCode.MOVEQ, 0, LoopVar.INCR)
        code_gen.if_end(marker)""",
  """        code_gen.test_op(Operator.EQ, LoopVar.COUNTER, 1)
        marker = code_gen.if_true_start()
        code_gen.add_instruction(OpCode.MOVEQ, 0, LoopVar.INCR)
        code_gen.if_else(marker)
        code_gen.subtract(LoopVar.LAST, LoopVar.FIRST)
        code_gen.subtract(LoopVar.COUNTER, 1)
        code_gen.add_instruction(OpCode.OP, Operator.DIV)
        code_gen.pop(LoopVar.INCR)
        code_gen.if_end(marker)""")
B('c13-sorted-by-lower', 'C13', 'R13.g', SORTED,
  "                self.extend(sorted(initial))", "                self.extend(sorted(initial, key=str.lower))")
B('c13-sorted-reversed', 'C13', 'R13.g', SORTED,
  "                self.extend(sorted(initial))", "                self.extend(sorted(initial, reverse=True))")
N('c13-sorted-explicit-defaults', 'C13', SORTED,
  "                self.extend(sorted(initial))", "                self.extend(sorted(initial, key=None, reverse=False))")
B('c16-time-pattern-blank-only', 'C16', 'R16.h', TIMEPAT,
  "(?=(\\s|$))'", "(?=( |$))'")
B('c16-time-pattern-blank-tab', 'C16', 'R16.h', TIMEPAT,
  "(?=(\\s|$))'", "(?=([ \\t]|$))'")
N('c16-time-pattern-class-form', 'C16', TIMEPAT,
  "(?=(\\s|$))'", "(?=([\\s]|$))'")
B('c05-exit-matrix-leaves-routine', 'C05', 'R05.i', CONTEXT,
  "    def exit_matrix(self) -> None:\n        self._in_matrix = False\n        self._locals.clear()",
  "    def exit_matrix(self) -> None:\n        self._in_matrix = False\n        self.exit_routine()")
B('c12-light-birth-not-stored', 'C13', 'R12.k', CTRLLIGHT,
  "        self._birth = time.time()\n", "")
B('c12-impl-not-stored', 'C12', 'R12.k', LANLIGHT,
  "        self._impl = impl\n", "        pass\n")
B('c20-scripts-only-with-manifest', 'C20', 'R20.l', WEBAPP,
  "        self._scripts = {}\n        self._jobs", "        self._jobs")
B('c20-icon-not-stored', 'C20', 'R20.l', WEBAPP,
  "        self.icon = icon\n", "")
B('c18-brief-not-stored', 'C18', 'R18.e', SNAPSHOT,
  "        self._brief = False\n", "")
B('c06-time-pattern-repr-not-stored', 'C06', 'R06.n', TIMEPAT,
  "        self._repr = 'TimePattern(\"{}\", \"{}\")'.format(hours, minutes)\n", "")
B('c01-register-time-starts-at-one', 'C01', 'R01.m', MACHINE,
  "        self.time = 0.0  # ms.", "        self.time = 1.0  # ms.")
B('c19-register-first-zone-missing', 'C19', 'R01.m', MACHINE,
  "        self.first_zone = 0\n", "")
N('c01-register-int-zero', 'C01', MACHINE,
  "        self.time = 0.0  # ms.", "        self.time = 0")
B('c20-script-path-key-swapped', 'C20', 'R20.m', WEBAPP,
  'settings.get_value("script_path", "."), script_control.file_name)', 'settings.get_value(".", "script_path"), script_control.file_name)')
B('c20-scripts-get-swapped', 'C20', 'R20.m', WEBAPP,
  "    def get_script_control(self, path) -> ScriptControl:\n        script_control = self._scripts.get(path, None)",
  "    def get_script_control(self, path) -> ScriptControl:\n        script_control = self._scripts.get(None, path)")
B('c12-features-get-swapped', 'C12', 'R12.l', LANAPI,
  "features.get('multizone', False)", "features.get(False, 'multizone')")
B('c15-tile-width-get-swapped', 'C15', 'R12.l', LANLIGHT,
  "tile.get('width', 0)", "tile.get(0, 'width')")
B('c20-runtime-not-bound', 'C20', 'R20.n', WEBMOD,
  "    runtime_module.configure()\n", "")
B('c20-lights-not-bound', 'C20', 'R20.n', WEBMOD,
  "    light_module.configure()\n", "")
B('c01-light-set-not-bound', 'C01', 'R01.n', LIGHTMOD,
  "    light_set.configure()\n", "    pass\n")

N('c20-scripts-created-in-load-manifest', 'C20', WEBAPP,
  "        self._scripts = {}\n        self._jobs", "        self._jobs",
  WEBAPP,
  "        basename = settings.get_value('manifest_file_name', 'manifest.json')\n        if basename is None:",
  "        basename = settings.get_value('manifest_file_name', 'manifest.json')\n        self._scripts = {}\n        if basename is None:")
N('c13-light-fields-tuple-assign', 'C13', CTRLLIGHT,
  "        self._group = group\n        self._location = location\n",
  "        self._group, self._location = group, location\n")
N('c01-registers-chained-assign', 'C01', MACHINE,
  "        self.first_zone = 0\n", "        self.first_zone = self.last_zone = 0\n")
N('c01-registers-via-helper', 'C01', MACHINE,
  "        self.red = 0.0\n        self.result = None\n",
  "        self._init_rgb()\n        self.result = None\n",
  MACHINE,
  "    def get_color(self):\n        if self.unit_mode is not UnitMode.RGB:",
  "    def _init_rgb(self):\n        self.red = 0.0\n\n    def get_color(self):\n        if self.unit_mode is not UnitMode.RGB:")
N('c20-scripts-get-one-arg', 'C20', WEBAPP,
  "    def get_script_control(self, path) -> ScriptControl:\n        script_control = self._scripts.get(path, None)",
  "    def get_script_control(self, path) -> ScriptControl:\n        script_control = self._scripts.get(path)")
N('c20-wiring-order-swapped', 'C20', WEBMOD,
  "    light_module.configure()\n    runtime_module.configure()\n",
  "    runtime_module.configure()\n    light_module.configure()\n")
N('c12-impl-conditional-both-arms', 'C12', LANLIGHT,
  "        self._impl = impl\n", "        if impl is None:\n            self._impl = None\n        else:\n            self._impl = impl\n")
N('c18-brief-class-attribute', 'C18', SNAPSHOT,
  "        self._brief = False\n", "        pass\n",
  SNAPSHOT, "class Snapshot:\n", "class Snapshot:\n    _brief = False\n")

# ------------------------------------------------------------------ round 5
# / triage batch 3 rules
PARAMHELP = 'bardolph/lib/param_helper.py'
MATHMOD = 'bardolph/runtime/bardolph_math.py'

B('c03-enter-routine-conditional', 'C03', 'R03.d', CALLSTACK,
  "        self._top.vars = self._top.params\n",
  "        if self._top.params:\n            self._top.vars = self._top.params\n")
B('c04-cycle-turn-rgb-as-raw', 'C04', 'R04.l', LOOP,
  "        code_gen.test_op(Operator.EQ, Register.UNIT_MODE, UnitMode.RAW)\n        marker = code_gen.if_true_start()\n        code_gen.push(65536)\n        code_gen.if_else(marker)\n        code_gen.push(360)\n",
  "        code_gen.test_op(Operator.EQ, Register.UNIT_MODE, UnitMode.LOGICAL)\n        marker = code_gen.if_true_start()\n        code_gen.push(360)\n        code_gen.if_else(marker)\n        code_gen.push(65536)\n")
N('c04-cycle-turn-noteq-form', 'C04', LOOP,
  "        code_gen.test_op(Operator.EQ, Register.UNIT_MODE, UnitMode.RAW)\n        marker = code_gen.if_true_start()\n        code_gen.push(65536)\n        code_gen.if_else(marker)\n        code_gen.push(360)\n",
  "        code_gen.test_op(Operator.NOTEQ, Register.UNIT_MODE, UnitMode.RAW)\n        marker = code_gen.if_true_start()\n        code_gen.push(360)\n        code_gen.if_else(marker)\n        code_gen.push(65536)\n")
B('c06-assignment-declares-first', 'C06', 'R06.o', PARSE,
  "        if not self._rvalue(dest_name):\n            return False\n        self._context.add_variable(dest_name)\n        return True",
  "        self._context.add_variable(dest_name)\n        return self._rvalue(dest_name)")
B('c06-index-var-declared-early', 'C06', 'R06.o', LOOP,
  "        self._index_var = str(self.current_token)\n        return self.next_token()",
  "        self._index_var = str(self.current_token)\n        context_stack.add_variable(self._index_var)\n        return self.next_token()")
B('c09-clock-wait-unguarded', 'C09', 'R09.h', CLOCK,
  "        if self._keep_going:\n            self._event.wait()\n", "        self._event.wait()\n")
N('c09-clock-wait-early-return', 'C09', CLOCK,
  "        if self._keep_going:\n            self._event.wait()\n        return self._keep_going",
  "        if not self._keep_going:\n            return False\n        self._event.wait()\n        return self._keep_going")
B('c16-param-list-ends-at-symbol', 'C16', 'R16.i', PARSE,
  "                self._context.has_routine(str(self._current_token))):\n            name = str(self._current_token)\n            if routine.has_param(name):",
  "                self._context.has_symbol(str(self._current_token))):\n            name = str(self._current_token)\n            if routine.has_param(name):")
B('c18-power-line-not-ended', 'C18', 'R18.b', SNAPSHOT,
  "        fmt = 'on \"{}\"\\n' if light.get_power() else 'off \"{}\"\\n'",
  "        fmt = 'on \"{}\" ' if light.get_power() else 'off \"{}\" '")
B('c20-explicit-path-stripped', 'C20', 'R20.p', WEBAPP,
  "            if path[-3:] == \".ls\":\n                path = path[:-3]\n", "        if path[-3:] == \".ls\":\n            path = path[:-3]\n")
N('c20-path-derivation-not-form', 'C20', WEBAPP,
  "        if len(path) == 0:\n            path = script_config['file_name']\n            if path[-3:] == \".ls\":\n                path = path[:-3]\n        return path",
  "        if not path:\n            path = script_config['file_name']\n            if path.endswith(\".ls\"):\n                path = path[:-3]\n        return path")
B('c20-status-layout-float-width', 'C20', 'R20.o', SNAPSHOT,
  "        layout = '{:>' + str(self._field_width * 4 + 1) + '}'", "        layout = '{:>' + str(self._field_width / 4 + 1) + '}'")
B('c20-status-rule-str-times-float', 'C20', 'R20.o', SNAPSHOT,
  "            self.append('-' * ((self._field_width) * 6 - 5))", "            self.append('-' * ((self._field_width) / 6 - 5))")
N('c20-status-rule-floor-div', 'C20', SNAPSHOT,
  "            self.append('-' * ((self._field_width) * 6 - 5))", "            self.append('-' * ((self._field_width * 12) // 2 - 5))")
B('c20-status-power-and-zero', 'C20', 'R12.c', SNAPSHOT,
  "        self._add_field('{:d}'.format(light.get_power() or 0))", "        self._add_field('{:d}'.format(light.get_power() and 0))")
B('c18-text-snapshot-skips-base-start', 'C18', 'R18.f', SNAPSHOT,
  "    def start_snapshot(self):\n        super().start_snapshot()\n        if not self._brief:", "    def start_snapshot(self):\n        if not self._brief:")
B('c20-text-snapshot-skips-base-init', 'C20', 'R18.e', SNAPSHOT,
  "    def __init__(self):\n        super().__init__()\n        self._field_width = 15", "    def __init__(self):\n        self._field_width = 15")
B('c07-param16-nan-leaks', 'C07', 'R07.b', PARAMHELP,
  "    return round(max(0, min(param, 0xffff)))", "    return round(max(min(param, 0xffff), 0))")
N('c07-param16-bounds-first', 'C07', PARAMHELP,
  "    return round(max(0, min(param, 0xffff)))", "    return round(max(0, min(0xffff, param)))")
B('c07-matrix-cells-own-clamp', 'C07', 'R07.b', MATRIX,
  "            raw_color.append(param_16(param))",
  "            if param < 0.0:\n                param = 0\n            elif param > 65535.0:\n                param = 65535\n            else:\n                param = round(param)\n            raw_color.append(param)")

# ------------------------------------------------------------------ round 6
B('c04-end-loop-clears-eval-stack', 'C04', 'R04.m', MACHINE,
  "    def _end_loop(self) -> None:\n        self._call_stack.exit_loop()\n",
  "    def _end_loop(self) -> None:\n        self._call_stack.exit_loop()\n        self._vm_math.reset()\n")
B('c05-runtime-loaded-last', 'C05', 'R05.j', LOADER,
  "        self._routines.clear()\n        self._load_runtime()\n        if instructions is not None:",
  "        self._routines.clear()\n        if instructions is not None:",
  LOADER,
  "                inst = self._next_inst()\n\n    @inject(i_runtime.Runtime)\n    def _load_runtime",
  "                inst = self._next_inst()\n        self._load_runtime()\n\n    @inject(i_runtime.Runtime)\n    def _load_runtime")
B('c06-string-regex-nested-repeat', 'C06', 'R06.q', LEX,
  "_LITERAL_STRING_SPEC = r'\"([^\"]|(?<=\\\\)\")*\"'", "_LITERAL_STRING_SPEC = r'\"([^\"]+|(?<=\\\\)\")*\"'")
B('c09-flag-armed-after-clock-start', 'C09', 'R09.i', MACHINE,
  "        self._keep_running = True\n\n        logging.debug('Starting to execute.')\n        self._clock.start()\n",
  "        logging.debug('Starting to execute.')\n        self._clock.start()\n        self._keep_running = True\n")
B('c16-register-words-case-folded', 'C16', 'R16.j', LEX,
  "        if word in self._REG_LIST:", "        if word.lower() in self._REG_LIST:")
N('c16-register-words-as-set', 'C16', LEX,
  "        if word in self._REG_LIST:", "        if word in set(self._REG_LIST):")
N('c05-runtime-loaded-first-reordered', 'C05', LOADER,
  "        self._main_segment.clear()\n        self._routine_segment.clear()\n        self._routines.clear()\n        self._load_runtime()\n",
  "        self._routines.clear()\n        self._load_runtime()\n        self._main_segment.clear()\n        self._routine_segment.clear()\n")
B('c01-in-list-item-emits-directly', 'C01', 'R04.n', LOOP,
  "            if not self._push_light_names(inner_coder, operand):", "            if not self._push_light_names(code_gen, operand):")
N('c01-in-list-coder-renamed', 'C01', LOOP,
  "        inner_coder = CodeGen()\n        operand = {", "        item_code = CodeGen()\n        inner_coder = item_code\n        operand = {")

# ------------------------------------------------------------------ round 7
B('c16-rvalue-brace-test-on-text-only', 'C16', 'R16.k', PARSE,
  "        if is_mark and self._current_token.content == '{':", "        if self._current_token.content == '{':")
B('c19-rvalue-minus-test-on-text-only', 'C19', 'R16.k', PARSE,
  "        uminus = is_mark and self._current_token.content == '-'", "        uminus = self._current_token.content == '-'")
B('c18-action-all-by-text', 'C18', 'R16.k', PARSE,
  "        if self._current_token.is_a(TokenTypes.ALL):\n            return self._all_operand()",
  "        if self._current_token.content == 'all':\n            return self._all_operand()")
B('c16-atom-paren-test-on-text-only', 'C16', 'R16.k', EXPR,
  "        if is_mark and str(self.current_token) == '(':", "        if str(self.current_token) == '(':")
N('c16-rvalue-mark-test-inline', 'C16', PARSE,
  "        if is_mark and self._current_token.content == '{':",
  "        if self._current_token.is_a(TokenTypes.MARK) and self._current_token.content == '{':")
B('c02-constant-pushed-by-type', 'C02', 'R02.j', PARSE,
  "            if move_inst is OpCode.MOVEQ:\n                # A constant, which may be a string: never a variable's name.\n                code_gen.add_instruction(OpCode.PUSHQ, value)\n            else:\n                code_gen.push(value)",
  "            code_gen.push(value)")
B('c19-println-not-a-routine-body', 'C19', 'R19.i', TOKEN,
  "            TokenTypes.PRINT, TokenTypes.PRINTF, TokenTypes.PRINTLN,\n            TokenTypes.PAUSE,", "            TokenTypes.PRINT, TokenTypes.PRINTF,\n            TokenTypes.PAUSE,")

# ------------------------------------------------------------------ round 8
VMMATH2 = 'bardolph/vm/vm_math.py'
B('c04-not-pushes-instead-of-replacing', 'C04', 'R04.o', VMMATH2,
  "            self._eval_stack.replace_top(not self._eval_stack.top)", "            self._eval_stack.push(not self._eval_stack.top)")
B('c06-time-pattern-macro-untyped', 'C06', 'R11.n', PARSE,
  "            return value if isinstance(value, TimePattern) else None", "            return value")
N('c06-time-pattern-macro-if-form', 'C06', PARSE,
  "            return value if isinstance(value, TimePattern) else None",
  "            if isinstance(value, TimePattern):\n                return value\n            return None")
B('c15-size-from-first-tile', 'C15', 'R15.i', LANLIGHT,
  "        tile = result.tile_devices[result.start_index]", "        tile = result.tile_devices[0]")
B('c16-brace-value-depends-on-include-reg', 'C16', 'R16.l', PARSE,
  "        if str(token) in '{[':\n            return True\n        if token.token_type in (", "        if str(token) in '{[':\n            return include_reg\n        if token.token_type in (")
B('c20-scripts-keyed-by-escaped-path', 'C20', 'R20.q', WEBAPP,
  "            self._scripts[path] = new_script", "            self._scripts[new_script.path] = new_script")
B('c05-already-defined-looks-up-next-token', 'C05', 'R05.k', PARSE,
  "            if not self._context.get_routine(name).undefined:", "            if not self._context.get_routine(str(self._current_token)).undefined:")
B('c03-frames-share-machine-constants', 'C03', 'R03.h', CALLSTACK,
  "        self._top.constants = constants or {}", "        self._top.constants = {} if constants is None else constants")
N('c03-constants-fresh-if-form', 'C03', CALLSTACK,
  "        self._top.constants = constants or {}", "        self._top.constants = constants if constants else {}")

# --- R01.o (fix d7f758c): a constant is always moved to its destination
B('c01-constant-move-skipped-by-identity', 'C01', 'R01.o', PARSE,
  "        elif move_inst is OpCode.MOVEQ or value is not dest:", "        elif value is not dest:")
B('c01-constant-move-skipped-by-equality', 'C01', 'R01.o', PARSE,
  "        elif move_inst is OpCode.MOVEQ or value is not dest:", "        elif value != dest:")
N('c01-constant-move-operands-swapped', 'C01', PARSE,
  "        elif move_inst is OpCode.MOVEQ or value is not dest:", "        elif value is not dest or move_inst == OpCode.MOVEQ:")
N('c01-constant-move-negated-form', 'C01', PARSE,
  "        elif move_inst is OpCode.MOVEQ or value is not dest:", "        elif not (move_inst is not OpCode.MOVEQ and value is dest):")

# --- R06.e lazy consumption (S-C06-9)
_PF_OLD = ("            num_unnamed = sum(\n"
           "                (1 for field in string.Formatter().parse(format_str)\n"
           "                 if field[1] is not None\n"
           "                 and (len(field[1]) == 0 or field[1].isdecimal())))\n"
           "        except ValueError as ex:\n"
           "            return self.trigger_error(\n"
           "                'Invalid format string \"{}\": {}'.format(format_str, ex))\n")
_PF_TAIL = ("        except ValueError as ex:\n"
            "            return self.trigger_error(\n"
            "                'Invalid format string \"{}\": {}'.format(format_str, ex))\n")
_PF_SUM = ("        num_unnamed = sum(\n"
           "            1 for field in fields if field[1] is not None\n"
           "            and (len(field[1]) == 0 or field[1].isdecimal()))\n")
B('c06-format-fields-consumed-after-try', 'C06', 'R06.e', IOPARSER,
  _PF_OLD, "            fields = string.Formatter().parse(format_str)\n" + _PF_TAIL + _PF_SUM)
B('c06-format-fields-genexp-consumed-after-try', 'C06', 'R06.e', IOPARSER,
  _PF_OLD, "            fields = (f for f in string.Formatter().parse(format_str))\n"
  + _PF_TAIL + _PF_SUM)
N('c06-format-fields-listed-in-try', 'C06', IOPARSER,
  _PF_OLD, "            fields = list(string.Formatter().parse(format_str))\n" + _PF_TAIL + _PF_SUM)
N('c06-format-fields-consumed-in-try-by-name', 'C06', IOPARSER,
  _PF_OLD, "            fields = string.Formatter().parse(format_str)\n"
  + _PF_SUM.replace("        num", "            num").replace("            1 for", "                1 for").replace("            and (", "                and (")
  + _PF_TAIL)

# --- R13.h (S-C13-9)
SETTINGS_PY = 'bardolph/lib/settings.py'
B('c13-falsy-setting-replaced-by-default', 'C13', 'R13.h', SETTINGS_PY,
  "        return self._config.get(name, default)", "        return self._config.get(name) or default")
N('c13-setting-lookup-if-form', 'C13', SETTINGS_PY,
  "        return self._config.get(name, default)",
  "        if name in self._config:\n            return self._config[name]\n        return default")
N('c13-setting-none-means-missing', 'C13', SETTINGS_PY,
  "        return self._config.get(name, default)",
  "        value = self._config.get(name)\n        return default if value is None else value")

# --- R08.j (S-C08-9)
LSMODULE_PY = 'bardolph/controller/ls_module.py'
_LS_OLD = ("    _jobs = job_control.JobControl()\n\n    @staticmethod\n    def queue_script(script):\n"
           "        return LsModule._jobs.add_job(ScriptJob.from_string(script))\n")
B('c08-controller-created-on-first-use', 'C08', 'R08.j', LSMODULE_PY,
  _LS_OLD,
  "    _jobs = None\n\n    @staticmethod\n    def queue_script(script):\n"
  "        if LsModule._jobs is None:\n            LsModule._jobs = job_control.JobControl()\n"
  "        return LsModule._jobs.add_job(ScriptJob.from_string(script))\n")
N('c08-controller-created-on-first-use-under-lock', 'C08', LSMODULE_PY,
  _LS_OLD,
  "    _jobs = None\n    _create_lock = __import__('threading').Lock()\n\n    @staticmethod\n    def queue_script(script):\n"
  "        with LsModule._create_lock:\n            if LsModule._jobs is None:\n                LsModule._jobs = job_control.JobControl()\n"
  "        return LsModule._jobs.add_job(ScriptJob.from_string(script))\n")

# --- R19.j (S-C19-9), R18.g (S-C18-9)
STDOUT_PY = 'bardolph/lib/std_out_output.py'
B('c19-sink-strips-trailing-breaks', 'C19', 'R19.j', STDOUT_PY,
  "        print(output, end='')", "        print(str(output).rstrip('\\n'), end='')")
B('c19-sink-skips-empty-text', 'C19', 'R19.j', STDOUT_PY,
  "        print(output, end='')", "        if output:\n            print(str(output)[:-1], end='')")
N('c19-sink-str-alias', 'C19', STDOUT_PY,
  "        print(output, end='')", "        text = str(output)\n        print(text, end='')")
LIGHTSET_PY = 'bardolph/controller/light_set.py'
B('c18-directory-key-stripped', 'C18', 'R18.g', LIGHTSET_PY,
  "                light_name = light.get_name()\n", "                light_name = light.get_name().strip()\n")
B('c18-directory-key-lowered', 'C18', 'R18.g', LIGHTSET_PY,
  "                self._lights[light_name] = light", "                self._lights[light_name.lower()] = light")
N('c18-directory-key-str', 'C18', LIGHTSET_PY,
  "                light_name = light.get_name()\n", "                light_name = str(light.get_name())\n")

# --- round 10: R16.m, R20.r, R08.k
TOKEN_PY = 'bardolph/parser/token.py'
_STR_OLD = ("        if self._token_type.has_string():\n            return self._content\n"
            "        return self._token_type.name.lower()\n")
B('c16-empty-string-token-prints-class-name', 'C16', 'R16.m', TOKEN_PY,
  _STR_OLD, "        return self._content or self._token_type.name.lower()\n")
N('c16-token-str-ifexp', 'C16', TOKEN_PY,
  _STR_OLD, "        return (self._content if self._token_type.has_string()\n"
            "                else self._token_type.name.lower())\n")
B('c20-title-escaped-without-quotes', 'C20', 'R20.r', WEBAPP,
  "        self.title = html.escape(title)", "        self.title = html.escape(title, quote=False)")
N('c20-title-escaped-quote-true', 'C20', WEBAPP,
  "        self.title = html.escape(title)", "        self.title = html.escape(title, quote=True)")
CLOCK_PY = 'bardolph/lib/clock.py'
B('c08-no-tick-after-stop', 'C08', 'R08.k', CLOCK_PY,
  "                time.sleep(sleep_time)\n            self.fire()\n",
  "                time.sleep(sleep_time)\n            if self._keep_going:\n                self.fire()\n")
N('c08-no-tick-after-stop-but-stop-fires', 'C08', CLOCK_PY,
  "                time.sleep(sleep_time)\n            self.fire()\n",
  "                time.sleep(sleep_time)\n            if self._keep_going:\n                self.fire()\n",
  CLOCK_PY,
  "    def stop(self):\n        self._keep_going = False\n",
  "    def stop(self):\n        self._keep_going = False\n        self.fire()\n")
N('c08-final-tick-after-loop', 'C08', CLOCK_PY,
  "                time.sleep(sleep_time)\n            self.fire()\n",
  "                time.sleep(sleep_time)\n            if self._keep_going:\n                self.fire()\n        self.fire()\n")
