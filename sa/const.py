"""Constant folding over the AST (nothing is imported from the repository).

fold(expr, ctx) returns a Python value for literal expressions built from
constants, tuples/lists/sets/dicts, str/num arithmetic, `'sep'.join(...)`,
`.split()`, `.format(...)`, `set(range(a, b))`, `len(...)`, names of module /
class constants (followed through imports) and Enum members (EnumVal).
"""
import ast

from .index import ClassInfo, ModuleInfo, FuncInfo


class Unfoldable(Exception):
    pass


class EnumVal:
    __slots__ = ('enum', 'member')

    def __init__(self, enum, member):
        self.enum = enum        # class name
        self.member = member

    def __eq__(self, other):
        return (isinstance(other, EnumVal) and self.enum == other.enum
                and self.member == other.member)

    def __hash__(self):
        return hash((self.enum, self.member))

    def __repr__(self):
        return '%s.%s' % (self.enum, self.member)


class Regex:
    __slots__ = ('pattern',)

    def __init__(self, pattern):
        self.pattern = pattern

    def __repr__(self):
        return 'Regex(%r)' % self.pattern


class FuncRef:
    """A reference to a function (repo function or external dotted name)."""
    __slots__ = ('name',)

    def __init__(self, name):
        self.name = name

    def __eq__(self, other):
        return isinstance(other, FuncRef) and self.name == other.name

    def __hash__(self):
        return hash(self.name)

    def __repr__(self):
        return 'fn:%s' % self.name


class Ctx:
    def __init__(self, repo, module, cls=None, env=None, subst=None):
        self.repo = repo
        self.module = module
        self.cls = cls
        self.env = env or {}
        self.subst = subst or {}    # normalised expression text -> value


_BIN = {
    ast.Add: lambda a, b: a + b, ast.Sub: lambda a, b: a - b,
    ast.Mult: lambda a, b: a * b, ast.Div: lambda a, b: a / b,
    ast.FloorDiv: lambda a, b: a // b, ast.Mod: lambda a, b: a % b,
    ast.Pow: lambda a, b: a ** b, ast.BitOr: lambda a, b: a | b,
    ast.BitAnd: lambda a, b: a & b, ast.LShift: lambda a, b: a << b,
}


def fold(expr, ctx, depth=0):
    if depth > 25:
        raise Unfoldable('too deep')
    repo = ctx.repo
    if isinstance(expr, ast.Constant):
        return expr.value
    if ctx.subst and isinstance(expr, (ast.Attribute, ast.Name, ast.Call,
                                       ast.Subscript)):
        key = ast.unparse(expr)
        if key in ctx.subst:
            return ctx.subst[key]
    if isinstance(expr, ast.Tuple):
        return tuple(fold(e, ctx, depth + 1) for e in expr.elts)
    if isinstance(expr, ast.List):
        return [fold(e, ctx, depth + 1) for e in expr.elts]
    if isinstance(expr, ast.Set):
        return set(fold(e, ctx, depth + 1) for e in expr.elts)
    if isinstance(expr, ast.Dict):
        out = {}
        for k, v in zip(expr.keys, expr.values):
            if k is None:
                raise Unfoldable('dict unpacking')
            out[_hashable(fold(k, ctx, depth + 1))] = fold(v, ctx, depth + 1)
        return out
    if isinstance(expr, ast.JoinedStr):
        parts = []
        for v in expr.values:
            if isinstance(v, ast.Constant):
                parts.append(str(v.value))
            else:
                raise Unfoldable('f-string field')
        return ''.join(parts)
    if isinstance(expr, ast.UnaryOp):
        v = fold(expr.operand, ctx, depth + 1)
        if isinstance(expr.op, ast.USub):
            return -v
        if isinstance(expr.op, ast.UAdd):
            return +v
        if isinstance(expr.op, ast.Not):
            return not v
        raise Unfoldable('unary')
    if isinstance(expr, ast.BinOp):
        a = fold(expr.left, ctx, depth + 1)
        b = fold(expr.right, ctx, depth + 1)
        fn = _BIN.get(type(expr.op))
        if fn is None:
            raise Unfoldable('binop')
        try:
            return fn(a, b)
        except Exception as ex:
            raise Unfoldable(str(ex))
    if isinstance(expr, ast.Name):
        if expr.id in ctx.env:
            return ctx.env[expr.id]
        if expr.id in ('True', 'False', 'None'):
            return {'True': True, 'False': False, 'None': None}[expr.id]
        if ctx.cls is not None:
            for c in ctx.cls.mro():
                if expr.id in c.class_attrs:
                    return fold(c.class_attrs[expr.id],
                                Ctx(repo, c.module, c), depth + 1)
        r = repo.resolve_name(ctx.module, expr.id)
        return _fold_resolved(r, ctx, depth, expr.id)
    if isinstance(expr, ast.Attribute):
        r = repo.resolve_expr_static(ctx.module, expr)
        if r is not None:
            return _fold_resolved(r, ctx, depth, ast.unparse(expr))
        base = repo.resolve_expr_static(ctx.module, expr.value)
        if isinstance(base, ClassInfo) and base.is_enum():
            raise Unfoldable('no such enum member %s' % ast.unparse(expr))
        if expr.attr == 'name':
            try:
                bv = fold(expr.value, ctx, depth + 1)
            except Unfoldable:
                bv = None
            if isinstance(bv, EnumVal):
                return bv.member
        # self.X / cls.X inside a class
        if isinstance(expr.value, ast.Name) and expr.value.id in ('self', 'cls') \
                and ctx.cls is not None:
            for c in ctx.cls.mro():
                if expr.attr in c.class_attrs:
                    return fold(c.class_attrs[expr.attr],
                                Ctx(repo, c.module, c), depth + 1)
        raise Unfoldable('attribute %s' % ast.unparse(expr))
    if isinstance(expr, ast.Subscript):
        v = fold(expr.value, ctx, depth + 1)
        if isinstance(expr.slice, ast.Slice):
            lo = fold(expr.slice.lower, ctx, depth + 1) if expr.slice.lower else None
            hi = fold(expr.slice.upper, ctx, depth + 1) if expr.slice.upper else None
            return v[lo:hi]
        k = fold(expr.slice, ctx, depth + 1)
        try:
            return v[_hashable(k)] if isinstance(v, dict) else v[k]
        except Exception as ex:
            raise Unfoldable(str(ex))
    if isinstance(expr, ast.Call):
        return _fold_call(expr, ctx, depth)
    if isinstance(expr, ast.BoolOp):
        val = None
        for v in expr.values:
            val = fold(v, ctx, depth + 1)
            if isinstance(expr.op, ast.And) and not val:
                return val
            if isinstance(expr.op, ast.Or) and val:
                return val
        return val
    if isinstance(expr, ast.IfExp):
        t = fold(expr.test, ctx, depth + 1)
        return fold(expr.body if t else expr.orelse, ctx, depth + 1)
    if isinstance(expr, ast.Compare) and len(expr.ops) == 1:
        a = fold(expr.left, ctx, depth + 1)
        b = fold(expr.comparators[0], ctx, depth + 1)
        op = expr.ops[0]
        try:
            if isinstance(op, ast.Eq):
                return a == b
            if isinstance(op, ast.NotEq):
                return a != b
            if isinstance(op, ast.Lt):
                return a < b
            if isinstance(op, ast.LtE):
                return a <= b
            if isinstance(op, ast.Gt):
                return a > b
            if isinstance(op, ast.GtE):
                return a >= b
            if isinstance(op, ast.In):
                return a in b
            if isinstance(op, ast.NotIn):
                return a not in b
            if isinstance(op, ast.Is):
                return a is b or (isinstance(a, EnumVal) and a == b)
            if isinstance(op, ast.IsNot):
                return not (a is b or (isinstance(a, EnumVal) and a == b))
        except Exception as ex:
            raise Unfoldable(str(ex))
    if isinstance(expr, (ast.DictComp, ast.ListComp, ast.SetComp,
                         ast.GeneratorExp)):
        return _fold_comp(expr, ctx, depth)
    if isinstance(expr, ast.Starred):
        raise Unfoldable('starred')
    raise Unfoldable(type(expr).__name__)


def _hashable(v):
    if isinstance(v, list):
        return tuple(v)
    return v


def _fold_resolved(r, ctx, depth, text):
    repo = ctx.repo
    if isinstance(r, tuple):
        if r[0] == 'const':
            mod, name = r[1], r[2]
            return fold(mod.constants[name], Ctx(repo, mod), depth + 1)
        if r[0] == 'classattr':
            c, name = r[1], r[2]
            if c.is_enum():
                return EnumVal(c.name, name)
            return fold(c.class_attrs[name], Ctx(repo, c.module, c), depth + 1)
        if r[0] == 'extern':
            return FuncRef(r[1])
    if isinstance(r, FuncInfo):
        return FuncRef(r.short if r.cls is not None else r.module.short + '.' + r.name)
    if isinstance(r, ClassInfo):
        if r.is_enum():
            return [EnumVal(r.name, m) for m in r.enum_members()]
        return FuncRef(r.name)
    raise Unfoldable('name %s' % text)


def _fold_call(expr, ctx, depth):
    fn = expr.func
    fname = ast.unparse(fn)
    args = expr.args
    if isinstance(fn, ast.Attribute):
        meth = fn.attr
        if meth in ('join', 'split', 'format', 'lower', 'upper', 'strip',
                    'keys', 'values', 'items', 'copy', 'get', 'union',
                    'replace'):
            try:
                base = fold(fn.value, ctx, depth + 1)
            except Unfoldable:
                base = None
            if base is not None and not isinstance(base, (FuncRef,)):
                a = [fold(x, ctx, depth + 1) for x in args]
                try:
                    if meth == 'join':
                        return base.join(a[0])
                    if meth in ('keys', 'values', 'items'):
                        return list(getattr(base, meth)())
                    return getattr(base, meth)(*a)
                except Unfoldable:
                    raise
                except Exception as ex:
                    raise Unfoldable(str(ex))
        if fname == 're.compile' and args:
            return Regex(fold(args[0], ctx, depth + 1))
    if isinstance(fn, ast.Name):
        if fn.id in ('set', 'tuple', 'list', 'sorted', 'frozenset', 'dict',
                     'len', 'str', 'int', 'float', 'min', 'max', 'abs', 'round',
                     'range', 'sum'):
            a = [fold(x, ctx, depth + 1) for x in args]
            try:
                v = {'set': set, 'tuple': tuple, 'list': list, 'sorted': sorted,
                     'frozenset': frozenset, 'dict': dict, 'len': len,
                     'str': str, 'int': int, 'float': float, 'min': min,
                     'max': max, 'abs': abs, 'round': round, 'range': range,
                     'sum': sum}[fn.id](*a)
            except Exception as ex:
                raise Unfoldable(str(ex))
            if isinstance(v, range):
                return list(v)
            return v
    raise Unfoldable('call %s' % fname)


def _fold_comp(expr, ctx, depth):
    if len(expr.generators) != 1:
        raise Unfoldable('nested comprehension')
    gen = expr.generators[0]
    it = fold(gen.iter, ctx, depth + 1)
    out_list = []
    for item in it:
        env = dict(ctx.env)
        _bind(gen.target, item, env)
        sub = Ctx(ctx.repo, ctx.module, ctx.cls, env, ctx.subst)
        if all(fold(c, sub, depth + 1) for c in gen.ifs):
            if isinstance(expr, ast.DictComp):
                out_list.append((_hashable(fold(expr.key, sub, depth + 1)),
                                 fold(expr.value, sub, depth + 1)))
            else:
                out_list.append(fold(expr.elt, sub, depth + 1))
    if isinstance(expr, ast.DictComp):
        return dict(out_list)
    if isinstance(expr, ast.SetComp):
        return set(out_list)
    return out_list


def _bind(target, value, env):
    if isinstance(target, ast.Name):
        env[target.id] = value
    elif isinstance(target, (ast.Tuple, ast.List)):
        vals = list(value)
        if len(vals) != len(target.elts):
            raise Unfoldable('unpack')
        for t, v in zip(target.elts, vals):
            _bind(t, v, env)
    else:
        raise Unfoldable('target')


def try_fold(expr, ctx, default=None):
    try:
        return fold(expr, ctx)
    except Unfoldable:
        return default


def ctx_for(repo, func_or_cls):
    """Ctx for a FuncInfo / ClassInfo / ModuleInfo."""
    if isinstance(func_or_cls, ModuleInfo):
        return Ctx(repo, func_or_cls)
    if isinstance(func_or_cls, ClassInfo):
        return Ctx(repo, func_or_cls.module, func_or_cls)
    return Ctx(repo, func_or_cls.module, func_or_cls.cls)


# --------------------------------------------------------------- regex
def regex_alternatives(pattern):
    """Top-level alternation branches of a regex as parsed sub-patterns
    (re._parser): list of (branch_items)."""
    import re._parser as sre
    p = sre.parse(pattern)
    items = list(p)
    if len(items) == 1 and str(items[0][0]) == 'BRANCH':
        return [list(b) for b in items[0][1][1]]
    return [items]


def regex_literal_strings(pattern, limit=64):
    """If `pattern` matches only a finite set of short literal strings built
    from literals, character sets and alternation, return that set (else
    None)."""
    import re._parser as sre
    try:
        p = sre.parse(pattern)
    except Exception:
        return None

    def expand(items):
        outs = ['']
        for op, av in items:
            name = str(op)
            if name == 'LITERAL':
                outs = [o + chr(av) for o in outs]
            elif name == 'IN':
                chars = []
                for o2, a2 in av:
                    if str(o2) == 'LITERAL':
                        chars.append(chr(a2))
                    else:
                        return None
                outs = [o + c for o in outs for c in chars]
            elif name == 'BRANCH':
                alts = []
                for b in av[1]:
                    e = expand(list(b))
                    if e is None:
                        return None
                    alts += e
                outs = [o + a for o in outs for a in alts]
            elif name == 'SUBPATTERN':
                e = expand(list(av[3]))
                if e is None:
                    return None
                outs = [o + a for o in outs for a in e]
            else:
                return None
            if len(outs) > limit:
                return None
        return outs
    r = expand(list(p))
    return set(r) if r is not None else None
