"""Upward-exposed-read analysis of object state (history independence).

Abstract state variable = (class, attribute): one abstract object per class.
For every function a summary (U, D) is computed by a syntax-directed walk of
its body in execution order:

  U  state variables the function MAY read before it has (re-)defined them
  D  state variables it has DEFINITELY (re-)defined on every normal exit

Calls apply the callee's summary (virtual calls: union of U, intersection of
D); recursion is solved by fix-point iteration (U grows, D shrinks). Thread
spawns are not call edges here: state initialised only by a spawned thread
is exposed to its spawner. Only variables in M (assigned or mutated outside
__init__ by code reachable from the entry) can carry history.
"""
import ast

from .index import norm
from .resolve import walk_own

MUTATING = {'append', 'appendleft', 'extend', 'insert', 'pop', 'popleft',
            'remove', 'add', 'discard', 'update', 'setdefault', 'popitem',
            'sort', 'reverse', 'add_symbol'}
CLEARING = {'clear'}


class StateFlow:
    def __init__(self, analysis, entry, classes=None):
        self.A = analysis
        self.rs = analysis.rs
        self.entry = entry
        self.classes = set(classes) if classes is not None else None
        self._av_cache = {}
        self._prop_cache = {}
        self.funcs = [f for f in self.rs.reachable([entry])]
        self.M = self._mutable_state()
        self.U = {f: set() for f in self.funcs}
        self.D = {f: set(self.M) for f in self.funcs}
        self.where = {}          # state var -> (func, node) of a first read
        self._solve()

    # ------------------------------------------------------------------
    def _mutable_state(self):
        M = {}
        for f in self.funcs:
            if f.name == '__init__':
                continue
            for node in walk_own(f.node):
                for var, kind in self._writes(f, node):
                    M.setdefault(var, []).append((f, node, kind))
        return M

    def _owner(self, cls, attr):
        """Most basic class in the MRO that assigns the attribute."""
        owner = cls
        for c in cls.mro():
            if attr in c.instance_attr_names():
                owner = c
        return owner

    def _attr_vars(self, f, node):
        """State variables an Attribute node `X.attr` may denote: X typed by
        the resolver (self -> enclosing class)."""
        if not isinstance(node, ast.Attribute):
            return []
        key = id(node)
        if key in self._av_cache:
            return self._av_cache[key]
        out = []
        for c in self.rs.expr_types(node.value, f):
            if c.is_enum():
                continue
            if node.attr in c.methods and not c.methods[node.attr].is_property:
                continue
            owner = self._owner(c, node.attr)
            if self.classes is not None and owner not in self.classes:
                continue
            out.append((owner, node.attr))
        self._av_cache[key] = out
        return out

    def _property_callees(self, f, node):
        m = self._prop_cache.get(f)
        if m is None:
            m = {}
            for s_ in self.rs.sites(f):
                if s_.kind == 'property':
                    m.setdefault(id(s_.node), []).extend(s_.callees)
            self._prop_cache[f] = m
        return m.get(id(node), [])

    def _writes(self, f, node):
        def tv(t, kind):
            for v in self._attr_vars(f, t):
                yield v, kind
        if isinstance(node, ast.Assign):
            for t in node.targets:
                for x in (t.elts if isinstance(t, (ast.Tuple, ast.List)) else [t]):
                    yield from tv(x, 'assign')
                    if isinstance(x, ast.Subscript):
                        yield from tv(x.value, 'mutate')
        elif isinstance(node, ast.AugAssign):
            yield from tv(node.target, 'mutate')
            if isinstance(node.target, ast.Subscript):
                yield from tv(node.target.value, 'mutate')
        elif isinstance(node, ast.Delete):
            for t in node.targets:
                if isinstance(t, ast.Subscript):
                    yield from tv(t.value, 'mutate')
        elif isinstance(node, ast.Call):
            if isinstance(node.func, ast.Attribute) and \
                    node.func.attr in MUTATING | CLEARING and \
                    not self.rs.site_for(f, node).callees:
                yield from tv(node.func.value, 'mutate')
            if norm(node.func) == 'setattr' and node.args and \
                    norm(node.args[0]) == 'self' and f.cls is not None:
                for a in sorted(f.cls.instance_attr_names()):
                    yield (self._owner(f.cls, a), a), 'assign'

    # ------------------------------------------------------------------
    def _solve(self):
        for _ in range(40):
            changed = False
            for f in self.funcs:
                u, d = self._summarise(f)
                u |= self.U[f]
                d &= self.D[f]
                if u != self.U[f] or d != self.D[f]:
                    self.U[f], self.D[f] = u, d
                    changed = True
            if not changed:
                break

    def _vars(self, node):
        """State variables (members of M) denoted by Attribute node."""
        return [v for v in self._attr_vars(self._cur, node) if v in self.M]

    def _summarise(self, f):
        self._cur = f
        self._u = set()
        exits = []
        d = self._block(f.node.body, set(), exits)
        if d is not None:
            exits.append(d)
        if exits:
            dd = set(exits[0])
            for e in exits[1:]:
                dd &= e
        else:
            dd = set(self.M)
        return set(self._u), dd

    # statements: return the defined-set after the block or None when the
    # block never falls through
    def _block(self, stmts, defined, exits):
        for s in stmts:
            defined = self._stmt(s, defined, exits)
            if defined is None:
                return None
        return defined

    def _stmt(self, s, defined, exits):
        f = self._cur
        if isinstance(s, (ast.FunctionDef, ast.AsyncFunctionDef, ast.ClassDef)):
            return defined
        if isinstance(s, ast.If):
            defined = self._expr(s.test, defined)
            d1 = self._block(s.body, set(defined), exits)
            d2 = self._block(s.orelse, set(defined), exits) if s.orelse else set(defined)
            if d1 is None and d2 is None:
                return None
            if d1 is None:
                return d2
            if d2 is None:
                return d1
            return d1 & d2
        if isinstance(s, (ast.While, ast.For, ast.AsyncFor)):
            head = s.test if isinstance(s, ast.While) else s.iter
            defined = self._expr(head, defined)
            self._block(s.body, set(defined), exits)
            if isinstance(s, ast.While):
                self._expr(s.test, set(defined))
            if s.orelse:
                self._block(s.orelse, set(defined), exits)
            return defined
        if isinstance(s, ast.Try):
            start = set(defined)
            d_body = self._block(s.body, set(defined), exits)
            outs = [d_body] if d_body is not None else []
            for h in s.handlers:
                dh = self._block(h.body, set(start), exits)
                if dh is not None:
                    outs.append(dh)
            if s.orelse and d_body is not None:
                outs[0] = self._block(s.orelse, set(d_body), exits)
                if outs[0] is None:
                    outs.pop(0)
            res = None
            if outs:
                res = set(outs[0])
                for o in outs[1:]:
                    res &= o
            if s.finalbody:
                dfin = self._block(s.finalbody, set(start), exits)
                if dfin is None:
                    return None
                if res is not None:
                    res |= (dfin - start) | (dfin & start)
            return res
        if isinstance(s, (ast.With, ast.AsyncWith)):
            for it in s.items:
                defined = self._expr(it.context_expr, defined)
            return self._block(s.body, defined, exits)
        if isinstance(s, ast.Match):
            defined = self._expr(s.subject, defined)
            outs = []
            for case in s.cases:
                dc = self._block(case.body, set(defined), exits)
                if dc is not None:
                    outs.append(dc)
            outs.append(set(defined))
            res = set(outs[0])
            for o in outs[1:]:
                res &= o
            return res
        if isinstance(s, ast.Return):
            if s.value is not None:
                defined = self._expr(s.value, defined)
            exits.append(set(defined))
            return None
        if isinstance(s, ast.Raise):
            if s.exc is not None:
                self._expr(s.exc, defined)
            return None
        if isinstance(s, (ast.Break, ast.Continue, ast.Pass, ast.Import,
                          ast.ImportFrom, ast.Global, ast.Nonlocal)):
            return defined
        if isinstance(s, ast.Assign):
            defined = self._expr(s.value, defined)
            for t in s.targets:
                defined = self._target(t, defined)
            return defined
        if isinstance(s, ast.AugAssign):
            defined = self._expr(s.value, defined)
            a = self._selfattr(s.target)
            if a is not None:
                defined = self._read(a, defined, s)
            else:
                defined = self._expr(s.target, defined, store=True)
            return defined
        if isinstance(s, ast.AnnAssign):
            if s.value is not None:
                defined = self._expr(s.value, defined)
                defined = self._target(s.target, defined)
            return defined
        if isinstance(s, ast.Delete):
            for t in s.targets:
                defined = self._expr(t, defined, store=True)
            return defined
        if isinstance(s, ast.Expr):
            return self._expr(s.value, defined)
        if isinstance(s, ast.Assert):
            return self._expr(s.test, defined)
        return defined

    def _selfattr(self, t):
        """The Attribute node itself when it denotes state variables."""
        if isinstance(t, ast.Attribute) and self._vars(t):
            return t
        return None

    def _target(self, t, defined):
        if isinstance(t, (ast.Tuple, ast.List)):
            for e in t.elts:
                defined = self._target(e, defined)
            return defined
        a = self._selfattr(t)
        if a is not None:
            vs = self._vars(a)
            if not (isinstance(a.value, ast.Name) and a.value.id == 'self'):
                defined = self._expr(a.value, defined)
            if len(vs) == 1:
                defined = set(defined) | {vs[0]}      # strong update
            return defined
        if isinstance(t, (ast.Subscript, ast.Attribute)):
            return self._expr(t, defined, store=True)
        return defined

    def _read(self, attr_node, defined, node):
        for v in self._vars(attr_node):
            if v not in defined:
                if v not in self._u:
                    self.where.setdefault(v, (self._cur, node))
                self._u.add(v)
        return defined

    def _expr(self, e, defined, store=False):
        """Effects of evaluating e, in evaluation order."""
        if e is None:
            return defined
        f = self._cur
        if isinstance(e, ast.Lambda):
            return defined
        if isinstance(e, ast.Call):
            # receiver / function expression first, then arguments
            fn = e.func
            clearing = False
            if isinstance(fn, ast.Attribute):
                a = self._selfattr(fn.value)
                callees = self.rs.site_for(f, e).callees
                if a is not None and not callees and fn.attr in CLEARING:
                    clearing = True          # builtin container .clear()
                elif a is not None and not callees and fn.attr in MUTATING:
                    defined = self._read(a, defined, e)
                elif a is not None:
                    # method of an owned object: the reference itself only
                    # matters when it is re-assignable state
                    defined = self._read(a, defined, e) if not callees else \
                        self._ref_read(a, defined, e)
                else:
                    defined = self._expr(fn.value, defined)
            elif not isinstance(fn, ast.Name):
                defined = self._expr(fn, defined)
            for a_ in e.args:
                defined = self._expr(a_.value if isinstance(a_, ast.Starred) else a_,
                                     defined)
            for kw in e.keywords:
                defined = self._expr(kw.value, defined)
            if clearing:
                vs = self._vars(fn.value)
                if len(vs) == 1:
                    defined = set(defined) | {vs[0]}
                return defined
            if norm(fn) == 'getattr' and e.args and norm(e.args[0]) == 'self' \
                    and f.cls is not None and not isinstance(e.args[1], ast.Constant):
                for a2 in sorted(f.cls.instance_attr_names()):
                    v = (self._owner(f.cls, a2), a2)
                    if v in self.M and v not in defined:
                        self.where.setdefault(v, (f, e))
                        self._u.add(v)
                return defined
            if norm(fn) == 'setattr' and e.args and norm(e.args[0]) == 'self':
                return defined          # weak update: defines nothing
            site = self.rs.site_for(f, e)
            if site.kind == 'call' and site.callees:
                known = [c for c in site.callees if c in self.U]
                if known:
                    u = set()
                    cand = set()
                    for c in known:
                        u |= self.U[c]
                        cand |= self.D[c]
                    for v in u:
                        if v not in defined:
                            if v not in self._u:
                                self.where.setdefault(v, (f, e))
                            self._u.add(v)
                    # a variable is defined by the call when every callee
                    # that can act on an object having it defines it
                    d = set()
                    for v in cand:
                        ok = True
                        for c in known:
                            if v in self.D[c]:
                                continue
                            # a stub alternative of a virtual call that can
                            # never be chosen for an object carrying v
                            C = v[0]
                            if c.cls is not None and C is not c.cls and \
                                    c.cls in C.mro() and C.lookup(c.name) is not c:
                                continue
                            ok = False
                        if ok:
                            d.add(v)
                    defined = set(defined) | d
            return defined
        if isinstance(e, ast.Attribute):
            a = self._selfattr(e)
            if a is not None:
                if not (isinstance(e.value, ast.Name) and e.value.id == 'self'):
                    defined = self._expr(e.value, defined)
                if isinstance(e.ctx, ast.Load) or store:
                    return self._read(a, defined, e)
                return defined
            # property load
            for c in self._property_callees(f, e):
                if c in self.U:
                    for v in self.U[c]:
                        if v not in defined:
                            self.where.setdefault(v, (f, e))
                            self._u.add(v)
            return self._expr(e.value, defined)
        if isinstance(e, ast.Subscript):
            a = self._selfattr(e.value)
            if a is not None:
                defined = self._read(a, defined, e)
            else:
                defined = self._expr(e.value, defined)
            return self._expr(e.slice, defined)
        if isinstance(e, ast.BoolOp):
            # later operands may not be evaluated: their definitions do not count
            defined = self._expr(e.values[0], defined)
            for v in e.values[1:]:
                self._expr(v, set(defined))
            return defined
        if isinstance(e, ast.IfExp):
            defined = self._expr(e.test, defined)
            self._expr(e.body, set(defined))
            self._expr(e.orelse, set(defined))
            return defined
        if isinstance(e, (ast.ListComp, ast.SetComp, ast.GeneratorExp, ast.DictComp)):
            for g in e.generators:
                defined = self._expr(g.iter, defined)
                for c in g.ifs:
                    self._expr(c, set(defined))
            if isinstance(e, ast.DictComp):
                self._expr(e.key, set(defined))
                self._expr(e.value, set(defined))
            else:
                self._expr(e.elt, set(defined))
            return defined
        for child in ast.iter_child_nodes(e):
            if isinstance(child, ast.expr):
                defined = self._expr(child, defined)
        return defined

    def _ref_read(self, attr_node, defined, node):
        """<obj>.<attr>.method(): reading the reference matters only when the
        reference itself is re-assigned somewhere (M holds an 'assign')."""
        for v in self._vars(attr_node):
            if any(k == 'assign' for _f, _n, k in self.M[v]) and v not in defined:
                self.where.setdefault(v, (self._cur, node))
                self._u.add(v)
        return defined

    def _has_var(self, cls, v):
        """Objects of class `cls` carry state variable v (declared by v[0],
        which is cls or one of its bases)."""
        return v[0] in cls.mro()

    # ------------------------------------------------------------------
    def exposed(self):
        return set(self.U[self.entry])

    def defined_by(self, stmts, func):
        """Definitely-defined set of a statement list evaluated in func
        (used for `finally` clean-up blocks)."""
        self._cur = func
        self._u = set()
        d = self._block(stmts, set(), [])
        return d or set()
